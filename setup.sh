#!/bin/bash
# Build the two fact extractors (offline) and pre-warm the dependency target dir.
set -e
cd "$(dirname "$0")"
export CARGO_NET_OFFLINE=true
(cd tools/srcfacts && cargo build --offline --release 2>&1 | tail -2)
(cd tools/mirfacts && cargo +nightly build --offline --release 2>&1 | tail -2)
if [ "$1" = "--tools-only" ]; then exit 0; fi
mkdir -p .cache evidence
# pre-warm: extract the facts of the current tree once (also compiles qrlew's dependencies)
python3 - <<'PY'
import sys
sys.path.insert(0, '.')
from qv import facts
facts.src_facts()
facts.mir_facts()
print("facts ready:", facts.tree_hash())
PY
