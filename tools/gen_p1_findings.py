#!/usr/bin/env python3
"""One-off triage helper: writes known_findings.d/C18_P1.json from the P1 sites of the *current* tree.
Run only after reading the list (DESIGN.md §6-j): every site is an arm that aborts on an input construct."""
import json, os, sys
sys.path.insert(0, os.path.dirname(os.path.dirname(os.path.abspath(__file__))))
ev = json.load(open(os.path.join(os.path.dirname(__file__), "..", "evidence", "C18.json")))
out = []
seen = set()
for v in ev["coverage"]["violations"] + [k for k in ev["coverage"]["known_findings"]]:
    if v["rule"] != "P1" or v["key"] in seen:
        continue
    seen.add(v["key"])
    fn, mac, chain = v["key"].split("|", 2)
    out.append({
        "property": "C18", "rule": "P1", "key": v["key"],
        "what": "%s!() instead of Err in %s when the input is %s" % (mac, fn, chain.replace(">", " > ") if chain != "-" else "any value reaching this call"),
        "input": "a query / relation containing the construct %s (%s)" % (chain, v["where"]),
    })
json.dump({"findings": out}, open(os.path.join(os.path.dirname(__file__), "..", "known_findings.d", "C18_P1.json"), "w"), indent=1)
print(len(out), "P1 findings written")
