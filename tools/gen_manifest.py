#!/usr/bin/env python3
"""Regenerate MANIFEST.json from qv/manifest_data.py (single source of truth for per-property claims)."""
import json, os, sys
sys.path.insert(0, os.path.dirname(os.path.dirname(os.path.abspath(__file__))))
from qv.manifest_data import CHECKS, NOT_APPLICABLE, NOTES

from qv.imports import IMPORTS


def adopted(pid):
    """one sentence naming the rules of other properties this check also runs (qv/imports.py holds the argument for each)"""
    parts = []
    for origin, rules, keys, reason in IMPORTS.get(pid, []):
        parts.append("%s/%s%s" % (origin, "+".join(rules) if rules else "all rules", " (instances matching %s)" % keys if keys else ""))
    if not parts:
        return ""
    return (" Also runs, as necessary conditions of this property, rules adopted from the properties it is built on: %s; their reports appear as <origin>.<rule> and findings "
            "already recorded under the origin property are listed there only (qv/imports.py gives the argument for each adoption)." % ", ".join(parts))


checks = []
for pid, c in sorted(CHECKS.items()):
    c = dict(c, level=c["level"] + adopted(pid))
    checks.append({
        "property_id": pid,
        "quick_cmd": "./check %s --tier quick" % pid,
        "thorough_cmd": "./check %s --tier thorough" % pid,
        "evidence_file": "/verif/evidence/%s.json" % pid,
        "replay_cmd_template": "./check %s --tier quick  # the key after '#' in {path} names the violating construct" % pid,
        "engine": "qv",
        "level_claimed": {"category": "other", "text": c["level"], "design_ref": c["design_ref"]},
        "level_note": c["note"],
        "technique": c["technique"],
    })
m = {
    "version": 1,
    "setup_cmd": "./setup.sh",
    "hooks": {
        "guard": "qrlew_verif",
        "enable": "none: the checks read /repo's unmodified sources (syn AST + rustc MIR via RUSTC_WORKSPACE_WRAPPER); no instrumentation is compiled in",
        "baseline_off_cmd": "cd /repo && cargo test --workspace --no-fail-fast --offline",
        "source_commits": [],
        "add_only": True,
    },
    "engines": [
        {"name": "qv", "path": "/verif/qv", "serves_properties": sorted(CHECKS),
         "kind_free_text": "static analysis: repository-specific rules (python) over two fact files extracted from /repo's current tree — syn-2 AST (tools/srcfacts) and type-resolved MIR from a rustc_private driver (tools/mirfacts)"},
    ],
    "checks": checks,
    "notes": NOTES,
    "not_applicable": [{"property_id": k, "reason": v} for k, v in sorted(NOT_APPLICABLE.items())],
}
json.dump(m, open(os.path.join(os.path.dirname(os.path.dirname(os.path.abspath(__file__))), "MANIFEST.json"), "w"), indent=1)
print("MANIFEST.json: %d checks, %d not_applicable" % (len(checks), len(m["not_applicable"])))
