#!/bin/bash
# usage: seed_matrix.sh <out.txt>  — every seeded change against every registered check (scratch copies)
out=${1:-/tmp/seed_matrix.txt}; : > "$out"
cd /verif
for d in seeded/*/; do
  id=$(basename "$d")
  echo "=== $id" >> "$out"
  python3 tools/seedrun.py "$d/patch.diff" C01 C02 C03 C04 C05 C06 C07 C08 C09 C10 C11 C12 C13 C14 C15 C16 C17 C18 2>&1 | grep -E "^C[0-9]+ rc=|rule=" | cut -c1-260 >> "$out"
done
echo DONE >> "$out"
