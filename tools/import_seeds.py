#!/usr/bin/env python3
"""Import confirmed seeded changes: seeded/<PROP>-<k>/{patch.diff,demo.rs,README.md,meta.json}
usage: import_seeds.py <confirm.jsonl> [<round tag, e.g. r2>] [<detected.json: {"C01-r2-1": "C01/S2", ..}>]"""
import json, os, re, shutil, sys
VERIF = os.path.dirname(os.path.dirname(os.path.abspath(__file__)))
TAG = sys.argv[2] if len(sys.argv) > 2 else ""
DET = json.load(open(sys.argv[3])) if len(sys.argv) > 3 else {}
for l in open(sys.argv[1]):
    d = json.loads(l)
    s = d["seed"]
    m = re.search(r"/(C\d+)/SEED/(\d+)$", s) or re.search(r"/(C\d+)-(\d+)$", s)
    prop, k = m.group(1), m.group(2)
    rebased = "/seed2r/" in s
    ok = d["applied"] and "ok. " in d["demo_on_original"] and "403 passed; 0 failed" in d["baseline_with_patch"] and "FAILED" in d["demo_with_patch"]
    if not ok:
        print("NOT CONFIRMED, skipped:", s, d)
        continue
    dst = os.path.join(VERIF, "seeded", "%s-%s%s" % (prop, TAG + "-" if TAG else "", k))
    os.makedirs(dst, exist_ok=True)
    for f in ("patch.diff", "demo.rs", "README.md"):
        if os.path.exists(os.path.join(s, f)):
            shutil.copy(os.path.join(s, f), os.path.join(dst, f))
    readme = open(os.path.join(s, "README.md")).read() if os.path.exists(os.path.join(s, "README.md")) else ""
    needs = ""
    for para in re.split(r"\n\s*\n", readme):
        if re.search(r"need|manifest|trigger", para, re.I):
            needs = " ".join(para.split())[:700]
            break
    files = sorted(set(re.findall(r"^\+\+\+ b/(\S+)", open(os.path.join(s, "patch.diff")).read(), re.M)))
    meta_path = os.path.join(dst, "meta.json")
    old = json.load(open(meta_path)) if os.path.exists(meta_path) else {}
    meta = {
        "property": prop,
        "origin": "written by an independent sub-agent that was given only the property text and a scratch git worktree of /repo (nothing from /verif)",
        "files_changed": files,
        "needs_to_manifest": needs,
        "confirmed_by_lead": {
            "how": "tools/confirm_seeds.sh in scratch worktree /tmp/seedcheck: demo as tests/seed_demo.rs on the original; then `git apply patch.diff`, the 403 baseline tests (lib test binary, --exact list) and the demo again",
            "demo_on_original": d["demo_on_original"].strip(),
            "baseline_with_patch": d["baseline_with_patch"].strip(),
            "demo_with_patch": d["demo_with_patch"].strip(),
        },
        "detected_by": DET.get("%s-%s%s" % (prop, TAG + "-" if TAG else "", k)) or old.get("detected_by", "see DESIGN.md §8"),
    }
    if rebased:
        meta["rebased"] = "the sub-agent wrote the change against the pinned snapshot; a later fix: commit touched the same lines, so the lead re-applied the same edit on the repaired tree and re-confirmed it"
    json.dump(meta, open(meta_path, "w"), indent=1)
    print("imported", prop, k, files)
