#!/bin/bash
# usage: confirm_seeds.sh <worktree> <out.jsonl> <seeddir>...   (each seeddir holds patch.diff + demo.rs)
# Confirms, in a scratch worktree of /repo: demo passes on the original; with the patch the crate builds,
# the 403 baseline tests pass and the demo fails.
WT=$1; OUT=$2; shift 2
export CARGO_NET_OFFLINE=true
for S in "$@"; do
  cd "$WT" || exit 2
  git checkout -q -- . ; rm -f tests/seed_demo.rs
  cp "$S/demo.rs" tests/seed_demo.rs
  orig=$(cargo test --offline --test seed_demo 2>&1 | grep -E "^test result|error(\[|:)" | head -3 | tr '\n' ' ')
  if git apply "$S/patch.diff" 2>/tmp/apply.err; then applied=true; else applied=false; fi
  base=$(/tmp/seedtools/run_stable_tests.sh "$WT" 2>&1 | grep -E "^test result|BUILD FAILED" | head -2 | tr '\n' ' ')
  mut=$(cargo test --offline --test seed_demo 2>&1 | grep -E "^test result|error(\[|:)" | head -3 | tr '\n' ' ')
  git checkout -q -- . ; rm -f tests/seed_demo.rs
  printf '{"seed":"%s","applied":%s,"demo_on_original":"%s","baseline_with_patch":"%s","demo_with_patch":"%s"}\n' "$S" "$applied" "$orig" "$base" "$mut" >> "$OUT"
done
