//! srcfacts: dump the (unexpanded) syn AST of a crate's sources as JSON.
//!
//! usage: srcfacts <crate-root-dir> <out.json> [--single <file.rs> ...]
//!
//! Every node is an object with "k" (kind) and "l" (line, 1-based).  All analysis
//! is done by the python rule layer (/verif/qv); this program only parses.
use proc_macro2::{Delimiter, TokenStream, TokenTree};
use quote::ToTokens;
use serde_json::{json, Map, Value};
use std::path::PathBuf;
type FsPath = std::path::Path;
use syn::punctuated::Punctuated;
use syn::spanned::Spanned;
use syn::*;

fn ts(t: &impl ToTokens) -> String {
    // compact token string: remove spaces around `::`, `<`, `>`, `&`, `,` is kept
    let s = t.to_token_stream().to_string();
    compact(&s)
}

fn compact(s: &str) -> String {
    let mut out = String::with_capacity(s.len());
    let toks: Vec<&str> = s.split(' ').collect();
    for (i, t) in toks.iter().enumerate() {
        if t.is_empty() {
            continue;
        }
        if i > 0 {
            let prev = toks[i - 1];
            let glue = *t == "::"
                || prev == "::"
                || *t == "<"
                || prev == "<"
                || *t == ">"
                || *t == ","
                || prev == "&"
                || *t == ")"
                || prev == "("
                || *t == "("
                || *t == "]"
                || prev == "["
                || *t == ";"
                || prev == "!"
                || *t == "!"
                || prev == "'"
                || *t == "."
                || prev == "."
                || *t == "?";
            if !glue {
                out.push(' ');
            }
        }
        out.push_str(t);
    }
    out
}

fn line<T: Spanned>(t: &T) -> usize {
    t.span().start().line
}
fn endline<T: Spanned>(t: &T) -> usize {
    t.span().end().line
}

fn node(k: &str, l: usize) -> Map<String, Value> {
    let mut m = Map::new();
    m.insert("k".into(), json!(k));
    m.insert("l".into(), json!(l));
    m
}

fn attrs_json(attrs: &[Attribute]) -> (Vec<Value>, bool) {
    let mut v = vec![];
    let mut is_test = false;
    for a in attrs {
        let s = ts(&a.meta);
        if s.starts_with("doc") {
            continue;
        }
        if s.starts_with("cfg") && s.contains("test") && !s.contains("not(test") {
            is_test = true;
        }
        if s == "test" {
            is_test = true;
        }
        v.push(json!(s));
    }
    (v, is_test)
}

fn path_json(p: &Path, qself: &Option<QSelf>, l: usize) -> Value {
    let mut m = node("path", l);
    let segs: Vec<String> = p.segments.iter().map(|s| s.ident.to_string()).collect();
    let full = match qself {
        Some(q) => {
            // <T as Trait>::rest
            let pos = q.position;
            let mut s = format!("<{}", ts(&*q.ty));
            if pos > 0 {
                let tr: Vec<String> = p.segments.iter().take(pos).map(|s| ts(s)).collect();
                s.push_str(" as ");
                s.push_str(&tr.join("::"));
            }
            s.push('>');
            for seg in p.segments.iter().skip(pos) {
                s.push_str("::");
                s.push_str(&ts(seg));
            }
            m.insert("qself".into(), json!(ts(&*q.ty)));
            s
        }
        None => segs.join("::"),
    };
    m.insert("p".into(), json!(full));
    m.insert("segs".into(), json!(segs));
    // generic args of each segment, when present
    let ga: Vec<Value> = p
        .segments
        .iter()
        .map(|s| match &s.arguments {
            PathArguments::None => Value::Null,
            a => json!(ts(a)),
        })
        .collect();
    if ga.iter().any(|g| !g.is_null()) {
        m.insert("ga".into(), json!(ga));
    }
    Value::Object(m)
}

fn lit_json(lit: &Lit, l: usize) -> Value {
    let mut m = node("lit", l);
    match lit {
        Lit::Str(s) => {
            m.insert("t".into(), json!("str"));
            m.insert("v".into(), json!(s.value()));
        }
        Lit::Int(i) => {
            m.insert("t".into(), json!("int"));
            m.insert("v".into(), json!(i.base10_digits()));
            m.insert("suffix".into(), json!(i.suffix()));
        }
        Lit::Float(f) => {
            m.insert("t".into(), json!("float"));
            m.insert("v".into(), json!(f.base10_digits()));
            m.insert("suffix".into(), json!(f.suffix()));
        }
        Lit::Bool(b) => {
            m.insert("t".into(), json!("bool"));
            m.insert("v".into(), json!(b.value));
        }
        Lit::Char(c) => {
            m.insert("t".into(), json!("char"));
            m.insert("v".into(), json!(c.value().to_string()));
        }
        Lit::Byte(b) => {
            m.insert("t".into(), json!("byte"));
            m.insert("v".into(), json!(b.value()));
        }
        Lit::ByteStr(b) => {
            m.insert("t".into(), json!("bytestr"));
            m.insert("v".into(), json!(String::from_utf8_lossy(&b.value()).to_string()));
        }
        other => {
            m.insert("t".into(), json!("other"));
            m.insert("v".into(), json!(ts(other)));
        }
    }
    Value::Object(m)
}

fn macro_json(mac: &Macro, l: usize) -> Value {
    let mut m = node("macro", l);
    let name = mac
        .path
        .segments
        .last()
        .map(|s| s.ident.to_string())
        .unwrap_or_default();
    m.insert("name".into(), json!(name));
    m.insert("path".into(), json!(ts(&mac.path)));
    let toks = mac.tokens.clone();
    // try: comma separated expression list
    if let Ok(p) = mac.parse_body_with(Punctuated::<Expr, Token![,]>::parse_terminated) {
        m.insert("args".into(), json!(p.iter().map(expr_json).collect::<Vec<_>>()));
    } else if let Ok(p) = mac.parse_body_with(Punctuated::<Expr, Token![;]>::parse_terminated) {
        // vec![x; n]
        m.insert("args_semi".into(), json!(p.iter().map(expr_json).collect::<Vec<_>>()));
    } else if let Ok(f) = syn::parse2::<File>(toks.clone()) {
        if !f.items.is_empty() {
            m.insert(
                "items".into(),
                json!(f.items.iter().map(|i| item_json(i, false)).collect::<Vec<_>>()),
            );
        }
    } else {
        // generic token-tree dump: groups parsed recursively as expression lists where possible
        m.insert("tt".into(), tt_json(toks.clone()));
    }
    let s = compact(&toks.to_string());
    if s.len() < 4000 {
        m.insert("tokens".into(), json!(s));
    }
    Value::Object(m)
}

/// Token-tree dump: a list whose elements are strings (idents/puncts/literals) or
/// {"g": "(", "e": [exprs]} / {"g": "(", "tt": [...]} for groups.
fn tt_json(t: TokenStream) -> Value {
    let mut v = vec![];
    for tt in t {
        match tt {
            TokenTree::Group(g) => {
                let d = match g.delimiter() {
                    Delimiter::Parenthesis => "(",
                    Delimiter::Brace => "{",
                    Delimiter::Bracket => "[",
                    Delimiter::None => "",
                };
                let l = g.span().start().line;
                let inner = g.stream();
                let parser = Punctuated::<Expr, Token![,]>::parse_terminated;
                if let Ok(p) = syn::parse::Parser::parse2(parser, inner.clone()) {
                    v.push(json!({"g": d, "l": l, "e": p.iter().map(expr_json).collect::<Vec<_>>()}));
                } else if d == "{" {
                    if let Ok(b) = syn::parse2::<Block>(quote::quote!({ #inner })) {
                        v.push(json!({"g": d, "l": l, "block": block_json(&b)}));
                    } else {
                        v.push(json!({"g": d, "l": l, "tt": tt_json(inner)}));
                    }
                } else {
                    v.push(json!({"g": d, "l": l, "tt": tt_json(inner)}));
                }
            }
            other => v.push(json!(other.to_string())),
        }
    }
    Value::Array(v)
}

fn block_json(b: &Block) -> Value {
    let mut m = node("block", line(b));
    m.insert("el".into(), json!(endline(b)));
    m.insert("stmts".into(), json!(b.stmts.iter().map(stmt_json).collect::<Vec<_>>()));
    Value::Object(m)
}

fn stmt_json(s: &Stmt) -> Value {
    match s {
        Stmt::Local(loc) => {
            let mut m = node("let", line(loc));
            let (pat, ty) = match &loc.pat {
                Pat::Type(pt) => (pat_json(&pt.pat), Some(ts(&*pt.ty))),
                p => (pat_json(p), None),
            };
            m.insert("pat".into(), pat);
            if let Some(t) = ty {
                m.insert("ty".into(), json!(t));
            }
            if let Some(init) = &loc.init {
                m.insert("init".into(), expr_json(&init.expr));
                if let Some((_, d)) = &init.diverge {
                    m.insert("else".into(), expr_json(d));
                }
            }
            Value::Object(m)
        }
        Stmt::Item(i) => {
            let mut m = node("item", line(i));
            m.insert("item".into(), item_json(i, false));
            Value::Object(m)
        }
        Stmt::Expr(e, semi) => {
            let mut m = node("expr", line(e));
            m.insert("e".into(), expr_json(e));
            m.insert("semi".into(), json!(semi.is_some()));
            Value::Object(m)
        }
        Stmt::Macro(sm) => {
            let mut m = node("expr", line(sm));
            m.insert("e".into(), macro_json(&sm.mac, line(sm)));
            m.insert("semi".into(), json!(sm.semi_token.is_some()));
            Value::Object(m)
        }
    }
}

fn pat_json(p: &Pat) -> Value {
    let l = line(p);
    match p {
        Pat::Ident(pi) => {
            let mut m = node("ident", l);
            m.insert("name".into(), json!(pi.ident.to_string()));
            if pi.by_ref.is_some() {
                m.insert("byref".into(), json!(true));
            }
            if pi.mutability.is_some() {
                m.insert("mut".into(), json!(true));
            }
            if let Some((_, sub)) = &pi.subpat {
                m.insert("sub".into(), pat_json(sub));
            }
            Value::Object(m)
        }
        Pat::Tuple(t) => {
            let mut m = node("tuple", l);
            m.insert("elems".into(), json!(t.elems.iter().map(pat_json).collect::<Vec<_>>()));
            Value::Object(m)
        }
        Pat::TupleStruct(t) => {
            let mut m = node("tuplestruct", l);
            m.insert("path".into(), path_json(&t.path, &t.qself, l));
            m.insert("elems".into(), json!(t.elems.iter().map(pat_json).collect::<Vec<_>>()));
            Value::Object(m)
        }
        Pat::Struct(s) => {
            let mut m = node("struct", l);
            m.insert("path".into(), path_json(&s.path, &s.qself, l));
            m.insert(
                "fields".into(),
                json!(s
                    .fields
                    .iter()
                    .map(|f| json!({"name": ts(&f.member), "pat": pat_json(&f.pat)}))
                    .collect::<Vec<_>>()),
            );
            m.insert("rest".into(), json!(s.rest.is_some()));
            Value::Object(m)
        }
        Pat::Path(pp) => path_json(&pp.path, &pp.qself, l),
        Pat::Lit(pl) => lit_json(&pl.lit, l),
        Pat::Or(o) => {
            let mut m = node("or", l);
            m.insert("cases".into(), json!(o.cases.iter().map(pat_json).collect::<Vec<_>>()));
            Value::Object(m)
        }
        Pat::Wild(_) => Value::Object(node("wild", l)),
        Pat::Rest(_) => Value::Object(node("rest", l)),
        Pat::Slice(s) => {
            let mut m = node("slice", l);
            m.insert("elems".into(), json!(s.elems.iter().map(pat_json).collect::<Vec<_>>()));
            Value::Object(m)
        }
        Pat::Reference(r) => {
            let mut m = node("ref", l);
            m.insert("pat".into(), pat_json(&r.pat));
            Value::Object(m)
        }
        Pat::Paren(pp) => pat_json(&pp.pat),
        Pat::Type(pt) => {
            let mut m = node("typed", l);
            m.insert("pat".into(), pat_json(&pt.pat));
            m.insert("ty".into(), json!(ts(&*pt.ty)));
            Value::Object(m)
        }
        Pat::Range(r) => {
            let mut m = node("range", l);
            m.insert("src".into(), json!(ts(r)));
            Value::Object(m)
        }
        Pat::Macro(pm) => macro_json(&pm.mac, l),
        other => {
            let mut m = node("other", l);
            m.insert("src".into(), json!(ts(other)));
            Value::Object(m)
        }
    }
}

fn opt_expr(e: &Option<Box<Expr>>) -> Value {
    match e {
        Some(e) => expr_json(e),
        None => Value::Null,
    }
}

fn expr_json(e: &Expr) -> Value {
    let l = line(e);
    match e {
        Expr::Lit(x) => lit_json(&x.lit, l),
        Expr::Path(x) => path_json(&x.path, &x.qself, l),
        Expr::Call(x) => {
            let mut m = node("call", l);
            m.insert("f".into(), expr_json(&x.func));
            m.insert("args".into(), json!(x.args.iter().map(expr_json).collect::<Vec<_>>()));
            Value::Object(m)
        }
        Expr::MethodCall(x) => {
            let mut m = node("mcall", line(&x.method));
            m.insert("recv".into(), expr_json(&x.receiver));
            m.insert("m".into(), json!(x.method.to_string()));
            if let Some(t) = &x.turbofish {
                m.insert("turbofish".into(), json!(ts(t)));
            }
            m.insert("args".into(), json!(x.args.iter().map(expr_json).collect::<Vec<_>>()));
            Value::Object(m)
        }
        Expr::Closure(x) => {
            let mut m = node("closure", l);
            m.insert("params".into(), json!(x.inputs.iter().map(pat_json).collect::<Vec<_>>()));
            m.insert("body".into(), expr_json(&x.body));
            m.insert("move".into(), json!(x.capture.is_some()));
            m.insert("el".into(), json!(endline(x)));
            Value::Object(m)
        }
        Expr::Block(x) => block_json(&x.block),
        Expr::Unsafe(x) => block_json(&x.block),
        Expr::If(x) => {
            let mut m = node("if", l);
            m.insert("cond".into(), expr_json(&x.cond));
            m.insert("then".into(), block_json(&x.then_branch));
            m.insert(
                "else".into(),
                match &x.else_branch {
                    Some((_, e)) => expr_json(e),
                    None => Value::Null,
                },
            );
            Value::Object(m)
        }
        Expr::Match(x) => {
            let mut m = node("match", l);
            m.insert("e".into(), expr_json(&x.expr));
            m.insert(
                "arms".into(),
                json!(x
                    .arms
                    .iter()
                    .map(|a| {
                        json!({
                            "l": line(&a.pat),
                            "pat": pat_json(&a.pat),
                            "guard": match &a.guard { Some((_, g)) => expr_json(g), None => Value::Null },
                            "body": expr_json(&a.body),
                        })
                    })
                    .collect::<Vec<_>>()),
            );
            Value::Object(m)
        }
        Expr::Binary(x) => {
            let mut m = node("binary", l);
            m.insert("op".into(), json!(ts(&x.op)));
            m.insert("lhs".into(), expr_json(&x.left));
            m.insert("rhs".into(), expr_json(&x.right));
            Value::Object(m)
        }
        Expr::Unary(x) => {
            let mut m = node("unary", l);
            m.insert("op".into(), json!(ts(&x.op)));
            m.insert("e".into(), expr_json(&x.expr));
            Value::Object(m)
        }
        Expr::Reference(x) => {
            let mut m = node("ref", l);
            m.insert("e".into(), expr_json(&x.expr));
            m.insert("mut".into(), json!(x.mutability.is_some()));
            Value::Object(m)
        }
        Expr::Field(x) => {
            let mut m = node("field", l);
            m.insert("e".into(), expr_json(&x.base));
            m.insert("name".into(), json!(ts(&x.member)));
            Value::Object(m)
        }
        Expr::Index(x) => {
            let mut m = node("index", l);
            m.insert("e".into(), expr_json(&x.expr));
            m.insert("i".into(), expr_json(&x.index));
            Value::Object(m)
        }
        Expr::Tuple(x) => {
            let mut m = node("tuple", l);
            m.insert("elems".into(), json!(x.elems.iter().map(expr_json).collect::<Vec<_>>()));
            Value::Object(m)
        }
        Expr::Array(x) => {
            let mut m = node("array", l);
            m.insert("elems".into(), json!(x.elems.iter().map(expr_json).collect::<Vec<_>>()));
            Value::Object(m)
        }
        Expr::Repeat(x) => {
            let mut m = node("repeat", l);
            m.insert("e".into(), expr_json(&x.expr));
            m.insert("n".into(), expr_json(&x.len));
            Value::Object(m)
        }
        Expr::Struct(x) => {
            let mut m = node("struct", l);
            m.insert("path".into(), path_json(&x.path, &x.qself, l));
            m.insert(
                "fields".into(),
                json!(x
                    .fields
                    .iter()
                    .map(|f| json!({"name": ts(&f.member), "e": expr_json(&f.expr)}))
                    .collect::<Vec<_>>()),
            );
            m.insert("rest".into(), opt_expr(&x.rest));
            Value::Object(m)
        }
        Expr::Macro(x) => macro_json(&x.mac, l),
        Expr::Return(x) => {
            let mut m = node("return", l);
            m.insert("e".into(), opt_expr(&x.expr));
            Value::Object(m)
        }
        Expr::Break(x) => {
            let mut m = node("break", l);
            m.insert("e".into(), opt_expr(&x.expr));
            Value::Object(m)
        }
        Expr::Continue(_) => Value::Object(node("continue", l)),
        Expr::Try(x) => {
            let mut m = node("try", l);
            m.insert("e".into(), expr_json(&x.expr));
            Value::Object(m)
        }
        Expr::Cast(x) => {
            let mut m = node("cast", l);
            m.insert("e".into(), expr_json(&x.expr));
            m.insert("ty".into(), json!(ts(&*x.ty)));
            Value::Object(m)
        }
        Expr::Let(x) => {
            let mut m = node("letcond", l);
            m.insert("pat".into(), pat_json(&x.pat));
            m.insert("e".into(), expr_json(&x.expr));
            Value::Object(m)
        }
        Expr::Range(x) => {
            let mut m = node("range", l);
            m.insert("lo".into(), opt_expr(&x.start));
            m.insert("hi".into(), opt_expr(&x.end));
            m.insert("incl".into(), json!(matches!(x.limits, RangeLimits::Closed(_))));
            Value::Object(m)
        }
        Expr::Paren(x) => expr_json(&x.expr),
        Expr::Group(x) => expr_json(&x.expr),
        Expr::Assign(x) => {
            let mut m = node("assign", l);
            m.insert("lhs".into(), expr_json(&x.left));
            m.insert("rhs".into(), expr_json(&x.right));
            Value::Object(m)
        }
        Expr::ForLoop(x) => {
            let mut m = node("for", l);
            m.insert("pat".into(), pat_json(&x.pat));
            m.insert("e".into(), expr_json(&x.expr));
            m.insert("body".into(), block_json(&x.body));
            Value::Object(m)
        }
        Expr::While(x) => {
            let mut m = node("while", l);
            m.insert("cond".into(), expr_json(&x.cond));
            m.insert("body".into(), block_json(&x.body));
            Value::Object(m)
        }
        Expr::Loop(x) => {
            let mut m = node("loop", l);
            m.insert("body".into(), block_json(&x.body));
            Value::Object(m)
        }
        Expr::Await(x) => {
            let mut m = node("await", l);
            m.insert("e".into(), expr_json(&x.base));
            Value::Object(m)
        }
        Expr::Async(x) => block_json(&x.block),
        other => {
            let mut m = node("other", l);
            m.insert("src".into(), json!(ts(other)));
            Value::Object(m)
        }
    }
}

fn sig_json(sig: &Signature) -> Value {
    let mut params = vec![];
    for a in &sig.inputs {
        match a {
            FnArg::Receiver(r) => {
                params.push(json!({"pat": {"k":"ident","name":"self","l": line(r)}, "ty": ts(&*r.ty), "self": true}))
            }
            FnArg::Typed(t) => params.push(json!({"pat": pat_json(&t.pat), "ty": ts(&*t.ty)})),
        }
    }
    json!({
        "params": params,
        "ret": match &sig.output { ReturnType::Default => Value::Null, ReturnType::Type(_, t) => json!(ts(&**t)) },
        "generics": ts(&sig.generics),
        "where": sig.generics.where_clause.as_ref().map(|w| ts(w)),
    })
}

fn vis_str(v: &Visibility) -> String {
    match v {
        Visibility::Public(_) => "pub".into(),
        Visibility::Restricted(r) => ts(r),
        Visibility::Inherited => "".into(),
    }
}

fn fields_json(f: &Fields) -> Value {
    match f {
        Fields::Named(n) => json!(n
            .named
            .iter()
            .map(|f| json!({"name": f.ident.as_ref().map(|i| i.to_string()), "ty": ts(&f.ty), "vis": vis_str(&f.vis)}))
            .collect::<Vec<_>>()),
        Fields::Unnamed(u) => json!(u
            .unnamed
            .iter()
            .enumerate()
            .map(|(i, f)| json!({"name": i.to_string(), "ty": ts(&f.ty), "vis": vis_str(&f.vis)}))
            .collect::<Vec<_>>()),
        Fields::Unit => json!([]),
    }
}

fn item_json(i: &Item, parent_test: bool) -> Value {
    let l = line(i);
    match i {
        Item::Fn(f) => {
            let (attrs, t) = attrs_json(&f.attrs);
            let mut m = node("fn", l);
            m.insert("name".into(), json!(f.sig.ident.to_string()));
            m.insert("sig".into(), sig_json(&f.sig));
            m.insert("vis".into(), json!(vis_str(&f.vis)));
            m.insert("attrs".into(), json!(attrs));
            m.insert("test".into(), json!(t || parent_test));
            m.insert("body".into(), block_json(&f.block));
            m.insert("el".into(), json!(endline(f)));
            Value::Object(m)
        }
        Item::Impl(im) => {
            let (attrs, t) = attrs_json(&im.attrs);
            let test = t || parent_test;
            let mut m = node("impl", l);
            m.insert("self_ty".into(), json!(ts(&*im.self_ty)));
            m.insert(
                "trait".into(),
                match &im.trait_ {
                    Some((neg, p, _)) => json!(format!("{}{}", if neg.is_some() { "!" } else { "" }, ts(p))),
                    None => Value::Null,
                },
            );
            m.insert("generics".into(), json!(ts(&im.generics)));
            m.insert("attrs".into(), json!(attrs));
            m.insert("test".into(), json!(test));
            m.insert("el".into(), json!(endline(im)));
            let mut items = vec![];
            for it in &im.items {
                match it {
                    ImplItem::Fn(f) => {
                        let (fattrs, ft) = attrs_json(&f.attrs);
                        let mut fm = node("fn", line(f));
                        fm.insert("name".into(), json!(f.sig.ident.to_string()));
                        fm.insert("sig".into(), sig_json(&f.sig));
                        fm.insert("vis".into(), json!(vis_str(&f.vis)));
                        fm.insert("attrs".into(), json!(fattrs));
                        fm.insert("test".into(), json!(ft || test));
                        fm.insert("body".into(), block_json(&f.block));
                        fm.insert("el".into(), json!(endline(f)));
                        items.push(Value::Object(fm));
                    }
                    ImplItem::Const(c) => {
                        let mut cm = node("const", line(c));
                        cm.insert("name".into(), json!(c.ident.to_string()));
                        cm.insert("ty".into(), json!(ts(&c.ty)));
                        cm.insert("e".into(), expr_json(&c.expr));
                        items.push(Value::Object(cm));
                    }
                    ImplItem::Type(t) => {
                        let mut tm = node("type", line(t));
                        tm.insert("name".into(), json!(t.ident.to_string()));
                        tm.insert("ty".into(), json!(ts(&t.ty)));
                        items.push(Value::Object(tm));
                    }
                    ImplItem::Macro(mc) => items.push(macro_json(&mc.mac, line(mc))),
                    _ => {}
                }
            }
            m.insert("items".into(), json!(items));
            Value::Object(m)
        }
        Item::Trait(tr) => {
            let (attrs, t) = attrs_json(&tr.attrs);
            let test = t || parent_test;
            let mut m = node("trait", l);
            m.insert("name".into(), json!(tr.ident.to_string()));
            m.insert("generics".into(), json!(ts(&tr.generics)));
            m.insert("supertraits".into(), json!(ts(&tr.supertraits)));
            m.insert("vis".into(), json!(vis_str(&tr.vis)));
            m.insert("attrs".into(), json!(attrs));
            m.insert("test".into(), json!(test));
            m.insert("el".into(), json!(endline(tr)));
            let mut items = vec![];
            for it in &tr.items {
                match it {
                    TraitItem::Fn(f) => {
                        let mut fm = node("fn", line(f));
                        fm.insert("name".into(), json!(f.sig.ident.to_string()));
                        fm.insert("sig".into(), sig_json(&f.sig));
                        fm.insert("test".into(), json!(test));
                        fm.insert(
                            "body".into(),
                            match &f.default {
                                Some(b) => block_json(b),
                                None => Value::Null,
                            },
                        );
                        fm.insert("el".into(), json!(endline(f)));
                        items.push(Value::Object(fm));
                    }
                    TraitItem::Macro(mc) => items.push(macro_json(&mc.mac, line(mc))),
                    TraitItem::Type(t) => {
                        let mut tm = node("type", line(t));
                        tm.insert("name".into(), json!(t.ident.to_string()));
                        items.push(Value::Object(tm));
                    }
                    _ => {}
                }
            }
            m.insert("items".into(), json!(items));
            Value::Object(m)
        }
        Item::Mod(md) => {
            let (attrs, t) = attrs_json(&md.attrs);
            let test = t || parent_test;
            let mut m = node("mod", l);
            m.insert("name".into(), json!(md.ident.to_string()));
            m.insert("attrs".into(), json!(attrs));
            m.insert("test".into(), json!(test));
            m.insert("vis".into(), json!(vis_str(&md.vis)));
            match &md.content {
                Some((_, items)) => {
                    m.insert(
                        "items".into(),
                        json!(items.iter().map(|i| item_json(i, test)).collect::<Vec<_>>()),
                    );
                }
                None => {
                    m.insert("items".into(), Value::Null);
                }
            }
            Value::Object(m)
        }
        Item::Struct(s) => {
            let (attrs, t) = attrs_json(&s.attrs);
            let mut m = node("struct", l);
            m.insert("name".into(), json!(s.ident.to_string()));
            m.insert("generics".into(), json!(ts(&s.generics)));
            m.insert("vis".into(), json!(vis_str(&s.vis)));
            m.insert("attrs".into(), json!(attrs));
            m.insert("test".into(), json!(t || parent_test));
            m.insert("fields".into(), fields_json(&s.fields));
            m.insert("tuple".into(), json!(matches!(s.fields, Fields::Unnamed(_))));
            Value::Object(m)
        }
        Item::Enum(en) => {
            let (attrs, t) = attrs_json(&en.attrs);
            let mut m = node("enum", l);
            m.insert("name".into(), json!(en.ident.to_string()));
            m.insert("generics".into(), json!(ts(&en.generics)));
            m.insert("vis".into(), json!(vis_str(&en.vis)));
            m.insert("attrs".into(), json!(attrs));
            m.insert("test".into(), json!(t || parent_test));
            m.insert(
                "variants".into(),
                json!(en
                    .variants
                    .iter()
                    .map(|v| json!({"name": v.ident.to_string(), "l": line(v), "fields": fields_json(&v.fields), "attrs": attrs_json(&v.attrs).0}))
                    .collect::<Vec<_>>()),
            );
            Value::Object(m)
        }
        Item::Const(c) => {
            let mut m = node("const", l);
            m.insert("name".into(), json!(c.ident.to_string()));
            m.insert("ty".into(), json!(ts(&*c.ty)));
            m.insert("e".into(), expr_json(&c.expr));
            m.insert("test".into(), json!(parent_test));
            Value::Object(m)
        }
        Item::Static(c) => {
            let mut m = node("static", l);
            m.insert("name".into(), json!(c.ident.to_string()));
            m.insert("ty".into(), json!(ts(&*c.ty)));
            m.insert("mut".into(), json!(matches!(c.mutability, StaticMutability::Mut(_))));
            m.insert("e".into(), expr_json(&c.expr));
            m.insert("test".into(), json!(parent_test));
            Value::Object(m)
        }
        Item::Macro(mc) => {
            let (_, t) = attrs_json(&mc.attrs);
            let mut v = macro_json(&mc.mac, l);
            if let Value::Object(m) = &mut v {
                if let Some(id) = &mc.ident {
                    m.insert("def".into(), json!(id.to_string()));
                }
                m.insert("test".into(), json!(t || parent_test));
                m.insert("el".into(), json!(endline(mc)));
            }
            v
        }
        Item::Use(u) => {
            let mut m = node("use", l);
            m.insert("src".into(), json!(ts(&u.tree)));
            m.insert("vis".into(), json!(vis_str(&u.vis)));
            Value::Object(m)
        }
        Item::Type(t) => {
            let mut m = node("typealias", l);
            m.insert("name".into(), json!(t.ident.to_string()));
            m.insert("ty".into(), json!(ts(&*t.ty)));
            Value::Object(m)
        }
        other => {
            let mut m = node("otheritem", l);
            let s = ts(other);
            m.insert("src".into(), json!(if s.len() > 200 { s[..200].to_string() } else { s }));
            Value::Object(m)
        }
    }
}

fn collect_rs(dir: &FsPath, out: &mut Vec<PathBuf>) {
    let mut entries: Vec<_> = match std::fs::read_dir(dir) {
        Ok(e) => e.filter_map(|e| e.ok()).map(|e| e.path()).collect(),
        Err(_) => return,
    };
    entries.sort();
    for p in entries {
        if p.is_dir() {
            collect_rs(&p, out);
        } else if p.extension().map(|e| e == "rs").unwrap_or(false) {
            out.push(p);
        }
    }
}

fn module_of(root: &FsPath, file: &FsPath) -> String {
    let rel = file.strip_prefix(root).unwrap_or(file);
    let mut comps: Vec<String> = rel
        .components()
        .map(|c| c.as_os_str().to_string_lossy().to_string())
        .collect();
    if let Some(last) = comps.last_mut() {
        *last = last.trim_end_matches(".rs").to_string();
    }
    if comps.last().map(|s| s == "mod" || s == "lib" || s == "main").unwrap_or(false) {
        comps.pop();
    }
    comps.join("::")
}

fn main() {
    let args: Vec<String> = std::env::args().collect();
    if args.len() < 3 {
        eprintln!("usage: srcfacts <src-dir> <out.json> [--label <name>]");
        std::process::exit(2);
    }
    let root = PathBuf::from(&args[1]);
    let out = PathBuf::from(&args[2]);
    let mut files = vec![];
    if root.is_file() {
        files.push(root.clone());
    } else {
        collect_rs(&root, &mut files);
    }
    let mut res = vec![];
    let mut errors = vec![];
    for f in &files {
        let text = match std::fs::read_to_string(f) {
            Ok(t) => t,
            Err(e) => {
                errors.push(json!({"file": f.to_string_lossy(), "error": e.to_string()}));
                continue;
            }
        };
        match syn::parse_file(&text) {
            Ok(ast) => {
                let rel = f.strip_prefix(&root).unwrap_or(f).to_string_lossy().to_string();
                let module = if root.is_file() { String::new() } else { module_of(&root, f) };
                let (_, t) = attrs_json(&ast.attrs);
                res.push(json!({
                    "file": rel,
                    "module": module,
                    "lines": text.lines().count(),
                    "items": ast.items.iter().map(|i| item_json(i, t)).collect::<Vec<_>>(),
                }));
            }
            Err(e) => {
                errors.push(json!({"file": f.to_string_lossy(), "error": e.to_string(), "line": e.span().start().line}));
            }
        }
    }
    let doc = json!({"root": root.to_string_lossy(), "files": res, "errors": errors});
    std::fs::write(&out, serde_json::to_vec(&doc).unwrap()).unwrap();
    eprintln!("srcfacts: {} files, {} errors -> {}", files.len(), errors.len(), out.display());
    if !errors.is_empty() {
        std::process::exit(3);
    }
}
