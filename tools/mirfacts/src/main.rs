//! mirfacts: a rustc_private driver that dumps a simplified, type-resolved MIR of the
//! crate named by MIRFACTS_CRATE (default `qrlew`) as JSON to MIRFACTS_OUT.
//!
//! Injected with RUSTC_WORKSPACE_WRAPPER under `cargo +nightly check`: argv[1] is the real
//! rustc path and is dropped.  For every other crate the driver behaves like rustc.
#![feature(rustc_private)]
#![allow(clippy::all)]

extern crate rustc_abi;
extern crate rustc_driver;
extern crate rustc_hir;
extern crate rustc_interface;
extern crate rustc_middle;
extern crate rustc_span;

use rustc_driver::Compilation;
use rustc_hir::def::DefKind;
use rustc_hir::def_id::{DefId, LocalDefId};
use rustc_middle::mir::*;
use rustc_middle::ty::{self, Instance, Ty, TyCtxt, TypingEnv};
use rustc_middle::ty::print::PrintTraitRefExt;
use rustc_span::Span;
use std::collections::HashMap;
use std::fmt::Write as _;

mod mono;

struct Cb;

pub fn esc(s: &str, out: &mut String) {
    out.push('"');
    for c in s.chars() {
        match c {
            '"' => out.push_str("\\\""),
            '\\' => out.push_str("\\\\"),
            '\n' => out.push_str("\\n"),
            '\r' => out.push_str("\\r"),
            '\t' => out.push_str("\\t"),
            c if (c as u32) < 0x20 => {
                let _ = write!(out, "\\u{:04x}", c as u32);
            }
            c => out.push(c),
        }
    }
    out.push('"');
}

pub fn trunc(s: String, n: usize) -> String {
    if s.len() <= n {
        s
    } else {
        let mut end = n;
        while !s.is_char_boundary(end) {
            end -= 1;
        }
        format!("{}…", &s[..end])
    }
}

struct Ctx<'tcx> {
    tcx: TyCtxt<'tcx>,
    callees: Vec<String>,                 // json objects
    callee_idx: HashMap<String, usize>,   // key -> idx
    tys: Vec<String>,
    ty_idx: HashMap<String, usize>,
}

impl<'tcx> Ctx<'tcx> {
    fn ty_id(&mut self, t: Ty<'tcx>) -> usize {
        let s = trunc(format!("{}", t), 300);
        if let Some(i) = self.ty_idx.get(&s) {
            return *i;
        }
        let i = self.tys.len();
        self.tys.push(s.clone());
        self.ty_idx.insert(s, i);
        i
    }

    fn span_info(&self, sp: Span) -> (String, usize, Vec<String>) {
        let sm = self.tcx.sess.source_map();
        let mut macs = vec![];
        for e in sp.macro_backtrace() {
            if let rustc_span::ExpnKind::Macro(_, name) = e.kind {
                macs.push(name.to_string());
            } else {
                macs.push(format!("{:?}", e.kind));
            }
        }
        let loc = sm.lookup_char_pos(sp.lo());
        let file = match &loc.file.name {
            rustc_span::FileName::Real(r) => match r.local_path() {
                Some(p) => p.to_string_lossy().to_string(),
                None => format!("{:?}", r),
            },
            other => format!("{:?}", other),
        };
        (file, loc.line, macs)
    }

    fn place(&self, p: &Place<'tcx>, out: &mut String) {
        let mut proj = String::new();
        for e in p.projection.iter() {
            match e {
                ProjectionElem::Deref => proj.push('*'),
                ProjectionElem::Field(f, _) => {
                    let _ = write!(proj, ".{}", f.index());
                }
                ProjectionElem::Index(l) => {
                    let _ = write!(proj, "[_{}]", l.index());
                }
                ProjectionElem::ConstantIndex { offset, from_end, .. } => {
                    let _ = write!(proj, "[{}{}]", if from_end { "-" } else { "" }, offset);
                }
                ProjectionElem::Subslice { from, to, .. } => {
                    let _ = write!(proj, "[{}:{}]", from, to);
                }
                ProjectionElem::Downcast(name, idx) => {
                    let _ = match name {
                        Some(n) => write!(proj, "@{}", n),
                        None => write!(proj, "@{}", idx.index()),
                    };
                }
                _ => proj.push('?'),
            }
        }
        let _ = write!(out, "[{},", p.local.index());
        esc(&proj, out);
        out.push(']');
    }

    fn operand(&mut self, op: &Operand<'tcx>, out: &mut String) {
        match op {
            Operand::Copy(p) => {
                out.push_str("[\"c\",");
                self.place(p, out);
                out.push(']');
            }
            Operand::Move(p) => {
                out.push_str("[\"m\",");
                self.place(p, out);
                out.push(']');
            }
            Operand::Constant(c) => {
                out.push_str("[\"k\",");
                let mut s = String::new();
                // function items / closures: print the def path
                let ty = c.const_.ty();
                match ty.kind() {
                    ty::FnDef(did, _args) => {
                        let _ = write!(s, "fn:{}", self.tcx.def_path_str(*did));
                    }
                    _ => {
                        if let Some(did) = c.check_static_ptr(self.tcx) {
                            let _ = write!(s, "static:{}", self.tcx.def_path_str(did));
                        } else {
                            let _ = write!(s, "{}", c.const_);
                        }
                    }
                }
                esc(&trunc(s, 200), out);
                out.push(',');
                let tid = self.ty_id(ty);
                let _ = write!(out, "{}", tid);
                out.push(']');
            }
            #[allow(unreachable_patterns)]
            _ => out.push_str("[\"?\"]"),
        }
    }

    fn callee(&mut self, caller: LocalDefId, did: DefId, args: ty::GenericArgsRef<'tcx>) -> usize {
        let tcx = self.tcx;
        let orig = tcx.def_path_str(did);
        let env = TypingEnv::post_analysis(tcx, caller);
        let (rdid, rargs, resolved) = match Instance::try_resolve(tcx, env, did, args) {
            Ok(Some(inst)) => {
                let r = inst.def_id();
                // a trait method "resolved" to itself (no default body) is not a resolution
                let is_trait_item = tcx.trait_of_assoc(r).is_some();
                let virt = matches!(inst.def, ty::InstanceKind::Virtual(..));
                (r, inst.args, !(virt || (is_trait_item && r == did && !tcx.is_mir_available(r) && r.is_local())))
            }
            _ => (did, args, false),
        };
        let path = tcx.def_path_str(rdid);
        let full = trunc(tcx.def_path_str_with_args(rdid, rargs), 400);
        let key = format!("{}|{}|{}", full, orig, resolved);
        if let Some(i) = self.callee_idx.get(&key) {
            return *i;
        }
        let mut o = String::new();
        o.push_str("{\"path\":");
        esc(&path, &mut o);
        o.push_str(",\"full\":");
        esc(&full, &mut o);
        o.push_str(",\"orig\":");
        esc(&orig, &mut o);
        let _ = write!(o, ",\"resolved\":{},\"local\":{}", resolved, rdid.is_local());
        let tr = tcx.trait_of_assoc(did);
        if let Some(t) = tr {
            o.push_str(",\"trait\":");
            esc(&tcx.def_path_str(t), &mut o);
        }
        o.push_str(",\"crate\":");
        esc(tcx.crate_name(rdid.krate).as_str(), &mut o);
        // closure def paths among the generic arguments (closures passed to this call)
        let mut cls = vec![];
        for a in rargs.iter() {
            if let Some(t) = a.as_type() {
                collect_closures(tcx, t, &mut cls, 0);
            }
        }
        if !cls.is_empty() {
            o.push_str(",\"closures\":[");
            for (i, c) in cls.iter().enumerate() {
                if i > 0 {
                    o.push(',');
                }
                esc(c, &mut o);
            }
            o.push(']');
        }
        o.push('}');
        let i = self.callees.len();
        self.callees.push(o);
        self.callee_idx.insert(key, i);
        i
    }
}

fn collect_closures<'tcx>(tcx: TyCtxt<'tcx>, t: Ty<'tcx>, out: &mut Vec<String>, depth: usize) {
    if depth > 6 {
        return;
    }
    match t.kind() {
        ty::Closure(did, args) => {
            let p = tcx.def_path_str(*did);
            if !out.contains(&p) {
                out.push(p);
            }
            // captured upvars may hold closures too
            for a in args.iter() {
                if let Some(t) = a.as_type() {
                    collect_closures(tcx, t, out, depth + 1);
                }
            }
        }
        ty::FnDef(did, _) => {
            let p = format!("fn:{}", tcx.def_path_str(*did));
            if !out.contains(&p) {
                out.push(p);
            }
        }
        ty::Adt(_, args) => {
            for a in args.iter() {
                if let Some(t) = a.as_type() {
                    collect_closures(tcx, t, out, depth + 1);
                }
            }
        }
        ty::Tuple(ts) => {
            for t in ts.iter() {
                collect_closures(tcx, t, out, depth + 1);
            }
        }
        ty::Ref(_, t, _) => collect_closures(tcx, *t, out, depth + 1),
        _ => {}
    }
}

fn dump_body<'tcx>(cx: &mut Ctx<'tcx>, did: LocalDefId, out: &mut String) {
    let tcx = cx.tcx;
    let body: &Body<'tcx> = tcx.optimized_mir(did.to_def_id());
    let dk = tcx.def_kind(did);
    let path = tcx.def_path_str(did.to_def_id());
    let (file, line, macs) = cx.span_info(body.span);
    out.push_str("{\"path\":");
    esc(&path, out);
    out.push_str(",\"file\":");
    esc(&file, out);
    let _ = write!(out, ",\"line\":{},\"kind\":\"{:?}\",\"nargs\":{}", line, dk, body.arg_count);
    if !macs.is_empty() {
        out.push_str(",\"macs\":[");
        for (i, m) in macs.iter().enumerate() {
            if i > 0 {
                out.push(',');
            }
            esc(m, out);
        }
        out.push(']');
    }
    if matches!(dk, DefKind::Closure) {
        let parent = tcx.typeck_root_def_id(did.to_def_id());
        out.push_str(",\"root\":");
        esc(&tcx.def_path_str(parent), out);
        let p = tcx.parent(did.to_def_id());
        out.push_str(",\"parent\":");
        esc(&tcx.def_path_str(p), out);
    }
    if matches!(dk, DefKind::Fn | DefKind::AssocFn) {
        let vis = tcx.visibility(did.to_def_id());
        let _ = write!(out, ",\"pub\":{}", vis.is_public());
        if matches!(dk, DefKind::AssocFn) {
            let imp = tcx.parent(did.to_def_id());
            if matches!(tcx.def_kind(imp), DefKind::Impl { .. }) {
                let self_ty = tcx.type_of(imp).instantiate_identity().skip_norm_wip();
                out.push_str(",\"self_ty\":");
                esc(&trunc(format!("{}", self_ty), 200), out);
                if let Some(tr) = tcx.impl_opt_trait_ref(imp) {
                    let tr = tr.instantiate_identity().skip_norm_wip();
                    out.push_str(",\"impl_trait\":");
                    esc(&trunc(format!("{}", tr.print_only_trait_path()), 200), out);
                    out.push_str(",\"trait_def\":");
                    esc(&tcx.def_path_str(tr.def_id), out);
                }
                if let Some(ti) = tcx.trait_item_of(did.to_def_id()) {
                    out.push_str(",\"trait_item\":");
                    esc(&tcx.def_path_str(ti), out);
                }
            } else if matches!(tcx.def_kind(imp), DefKind::Trait) {
                out.push_str(",\"trait_default\":");
                esc(&tcx.def_path_str(imp), out);
            }
        }
    }
    // locals
    out.push_str(",\"locals\":[");
    for (i, l) in body.local_decls.iter().enumerate() {
        if i > 0 {
            out.push(',');
        }
        let tid = cx.ty_id(l.ty);
        let _ = write!(out, "{}", tid);
    }
    out.push_str("],\"names\":{");
    let mut first = true;
    for v in &body.var_debug_info {
        if let VarDebugInfoContents::Place(p) = &v.value {
            if !first {
                out.push(',');
            }
            first = false;
            let mut key = format!("{}", p.local.index());
            if !p.projection.is_empty() {
                let mut ps = String::new();
                cx.place(p, &mut ps);
                key = ps;
            }
            esc(&key, out);
            out.push(':');
            esc(v.name.as_str(), out);
        }
    }
    out.push_str("},\"blocks\":[");
    for (bi, bb) in body.basic_blocks.iter().enumerate() {
        if bi > 0 {
            out.push(',');
        }
        let _ = write!(out, "{{\"c\":{},\"s\":[", if bb.is_cleanup { 1 } else { 0 });
        let mut firsts = true;
        for st in &bb.statements {
            if let StatementKind::Assign(b) = &st.kind {
                let (pl, rv) = &**b;
                if !firsts {
                    out.push(',');
                }
                firsts = false;
                out.push('[');
                cx.place(pl, out);
                out.push(',');
                rvalue(cx, rv, out);
                let sm = tcx.sess.source_map();
                let ln = sm.lookup_char_pos(st.source_info.span.lo()).line;
                let _ = write!(out, ",{}]", ln);
            }
        }
        out.push_str("],\"t\":");
        terminator(cx, did, body, bb.terminator(), out);
        out.push('}');
    }
    out.push_str("]}");
}

fn rvalue<'tcx>(cx: &mut Ctx<'tcx>, rv: &Rvalue<'tcx>, out: &mut String) {
    match rv {
        Rvalue::Use(op, ..) => {
            out.push_str("[\"use\",");
            cx.operand(op, out);
            out.push(']');
        }
        Rvalue::Ref(_, bk, p) => {
            let m = matches!(bk, BorrowKind::Mut { .. });
            let _ = write!(out, "[\"ref\",{},", if m { 1 } else { 0 });
            cx.place(p, out);
            out.push(']');
        }
        Rvalue::RawPtr(k, p) => {
            let m = matches!(k, RawPtrKind::Mut);
            let _ = write!(out, "[\"rawptr\",{},", if m { 1 } else { 0 });
            cx.place(p, out);
            out.push(']');
        }
        Rvalue::BinaryOp(op, b) => {
            let (a, c) = &**b;
            let _ = write!(out, "[\"bin\",\"{:?}\",", op);
            cx.operand(a, out);
            out.push(',');
            cx.operand(c, out);
            out.push(']');
        }
        Rvalue::UnaryOp(op, a) => {
            let _ = write!(out, "[\"un\",\"{:?}\",", op);
            cx.operand(a, out);
            out.push(']');
        }
        Rvalue::Cast(k, op, ty) => {
            let _ = write!(out, "[\"cast\",");
            esc(&trunc(format!("{:?}", k), 60), out);
            out.push(',');
            cx.operand(op, out);
            let tid = cx.ty_id(*ty);
            let _ = write!(out, ",{}]", tid);
        }
        Rvalue::Aggregate(k, ops) => {
            out.push_str("[\"agg\",");
            let ks = match &**k {
                AggregateKind::Adt(did, variant, args, _, _) => {
                    let adt = cx.tcx.adt_def(*did);
                    let v = adt.variant(*variant);
                    let _ = args;
                    if adt.is_enum() {
                        format!("adt:{}::{}", cx.tcx.def_path_str(*did), v.name)
                    } else {
                        format!("adt:{}", cx.tcx.def_path_str(*did))
                    }
                }
                AggregateKind::Closure(did, _) => format!("closure:{}", cx.tcx.def_path_str(*did)),
                AggregateKind::Tuple => "tuple".to_string(),
                AggregateKind::Array(_) => "array".to_string(),
                other => trunc(format!("{:?}", other), 80),
            };
            esc(&ks, out);
            out.push_str(",[");
            for (i, o) in ops.iter().enumerate() {
                if i > 0 {
                    out.push(',');
                }
                cx.operand(o, out);
            }
            out.push_str("]]");
        }
        Rvalue::Discriminant(p) => {
            out.push_str("[\"discr\",");
            cx.place(p, out);
            out.push(']');
        }
        Rvalue::CopyForDeref(p) => {
            out.push_str("[\"use\",[\"c\",");
            cx.place(p, out);
            out.push_str("]]");
        }
        Rvalue::Repeat(op, _) => {
            out.push_str("[\"repeat\",");
            cx.operand(op, out);
            out.push(']');
        }
        Rvalue::ThreadLocalRef(did) => {
            out.push_str("[\"tls\",");
            esc(&cx.tcx.def_path_str(*did), out);
            out.push(']');
        }
        other => {
            out.push_str("[\"other\",");
            esc(&trunc(format!("{:?}", other), 80), out);
            out.push(']');
        }
    }
}

fn enum_of_switch<'tcx>(
    cx: &Ctx<'tcx>,
    body: &Body<'tcx>,
    term_block: &BasicBlockData<'tcx>,
    discr: &Operand<'tcx>,
) -> Option<(String, Vec<(u128, String)>, String)> {
    // find `_d = discriminant(place)` in the same block
    let dl = discr.place()?.as_local()?;
    for st in term_block.statements.iter().rev() {
        if let StatementKind::Assign(b) = &st.kind {
            let (pl, rv) = &**b;
            if pl.as_local() == Some(dl) {
                if let Rvalue::Discriminant(p) = rv {
                    let ty = p.ty(&body.local_decls, cx.tcx).ty;
                    if let ty::Adt(adt, _) = ty.kind() {
                        if adt.is_enum() {
                            let mut vs = vec![];
                            for (vi, d) in adt.discriminants(cx.tcx) {
                                vs.push((d.val, adt.variant(vi).name.to_string()));
                            }
                            let mut ps = String::new();
                            cx.place(p, &mut ps);
                            return Some((cx.tcx.def_path_str(adt.did()), vs, ps));
                        }
                    }
                }
                return None;
            }
        }
    }
    None
}

fn terminator<'tcx>(
    cx: &mut Ctx<'tcx>,
    did: LocalDefId,
    body: &Body<'tcx>,
    t: &Terminator<'tcx>,
    out: &mut String,
) {
    let tcx = cx.tcx;
    match &t.kind {
        TerminatorKind::Goto { target } => {
            let _ = write!(out, "[\"goto\",{}]", target.index());
        }
        TerminatorKind::Return => out.push_str("[\"ret\"]"),
        TerminatorKind::Unreachable => out.push_str("[\"unreachable\"]"),
        TerminatorKind::UnwindResume => out.push_str("[\"resume\"]"),
        TerminatorKind::Drop { place, target, .. } => {
            out.push_str("[\"drop\",");
            cx.place(place, out);
            let _ = write!(out, ",{}]", target.index());
        }
        TerminatorKind::SwitchInt { discr, targets } => {
            out.push_str("[\"switch\",");
            cx.operand(discr, out);
            out.push_str(",[");
            // which block are we in? find by pointer equality is awkward: search
            let mut en = None;
            for bb in body.basic_blocks.iter() {
                if std::ptr::eq(bb.terminator(), t) {
                    en = enum_of_switch(cx, body, bb, discr);
                    break;
                }
            }
            for (i, (v, bb)) in targets.iter().enumerate() {
                if i > 0 {
                    out.push(',');
                }
                let name = en
                    .as_ref()
                    .and_then(|(_, vs, _)| vs.iter().find(|(d, _)| *d == v).map(|(_, n)| n.clone()));
                match name {
                    Some(n) => {
                        out.push('[');
                        esc(&n, out);
                        let _ = write!(out, ",{}]", bb.index());
                    }
                    None => {
                        let _ = write!(out, "[\"{}\",{}]", v, bb.index());
                    }
                }
            }
            let _ = write!(out, "],{}", targets.otherwise().index());
            match &en {
                Some((name, vs, pl)) => {
                    out.push(',');
                    esc(name, out);
                    out.push_str(",[");
                    for (i, (_, n)) in vs.iter().enumerate() {
                        if i > 0 {
                            out.push(',');
                        }
                        esc(n, out);
                    }
                    out.push_str("],");
                    out.push_str(pl);
                }
                None => out.push_str(",null,null,null"),
            }
            out.push(']');
        }
        TerminatorKind::Assert { cond, expected, msg, target, .. } => {
            out.push_str("[\"assert\",");
            cx.operand(cond, out);
            let kind = match &**msg {
                AssertKind::BoundsCheck { .. } => "bounds".to_string(),
                AssertKind::Overflow(op, ..) => format!("overflow:{:?}", op),
                AssertKind::OverflowNeg(..) => "overflow:Neg".to_string(),
                AssertKind::DivisionByZero(..) => "divzero".to_string(),
                AssertKind::RemainderByZero(..) => "remzero".to_string(),
                other => trunc(format!("{:?}", other), 40),
            };
            let (_, line, macs) = cx.span_info(t.source_info.span);
            let _ = write!(out, ",{},", expected);
            esc(&kind, out);
            let _ = write!(out, ",{},{},[", target.index(), line);
            for (i, m) in macs.iter().enumerate() {
                if i > 0 {
                    out.push(',');
                }
                esc(m, out);
            }
            out.push_str("]]");
        }
        TerminatorKind::Call { func, args, destination, target, fn_span, .. } => {
            out.push_str("[\"call\",");
            let mut callee_written = false;
            if let Operand::Constant(c) = func {
                if let ty::FnDef(fd, ga) = c.const_.ty().kind() {
                    let idx = cx.callee(did, *fd, ga);
                    let _ = write!(out, "{}", idx);
                    callee_written = true;
                }
            }
            if !callee_written {
                out.push_str("{\"indirect\":");
                cx.operand(func, out);
                out.push('}');
            }
            out.push_str(",[");
            for (i, a) in args.iter().enumerate() {
                if i > 0 {
                    out.push(',');
                }
                cx.operand(&a.node, out);
            }
            out.push_str("],");
            cx.place(destination, out);
            match target {
                Some(t) => {
                    let _ = write!(out, ",{}", t.index());
                }
                None => out.push_str(",null"),
            }
            let (_, line, macs) = cx.span_info(*fn_span);
            let _ = write!(out, ",{},[", line);
            for (i, m) in macs.iter().enumerate() {
                if i > 0 {
                    out.push(',');
                }
                esc(m, out);
            }
            out.push_str("]]");
        }
        TerminatorKind::FalseEdge { real_target, .. } => {
            let _ = write!(out, "[\"goto\",{}]", real_target.index());
        }
        TerminatorKind::FalseUnwind { real_target, .. } => {
            let _ = write!(out, "[\"goto\",{}]", real_target.index());
        }
        other => {
            out.push_str("[\"other\",");
            esc(&trunc(format!("{:?}", other), 60), out);
            out.push(']');
        }
    }
    let _ = tcx;
}

impl rustc_driver::Callbacks for Cb {
    fn after_analysis<'tcx>(
        &mut self,
        _c: &rustc_interface::interface::Compiler,
        tcx: TyCtxt<'tcx>,
    ) -> Compilation {
        let want = std::env::var("MIRFACTS_CRATE").unwrap_or_else(|_| "qrlew".to_string());
        let name = tcx.crate_name(rustc_hir::def_id::LOCAL_CRATE);
        if name.as_str() != want {
            return Compilation::Continue;
        }
        let outp = match std::env::var("MIRFACTS_OUT") {
            Ok(p) => p,
            Err(_) => return Compilation::Continue,
        };
        let mut cx = Ctx { tcx, callees: vec![], callee_idx: HashMap::new(), tys: vec![], ty_idx: HashMap::new() };
        let mut out = String::with_capacity(64 << 20);
        out.push_str("{\"crate\":");
        esc(name.as_str(), &mut out);
        out.push_str(",\"bodies\":[");
        let mut n = 0usize;
        let mut keys: Vec<LocalDefId> = tcx.mir_keys(()).iter().copied().collect();
        keys.sort_by_key(|d| tcx.def_path_str(d.to_def_id()));
        for did in keys {
            let dk = tcx.def_kind(did);
            if !matches!(dk, DefKind::Fn | DefKind::AssocFn | DefKind::Closure) {
                continue;
            }
            if !tcx.is_mir_available(did.to_def_id()) {
                continue;
            }
            if n > 0 {
                out.push(',');
            }
            n += 1;
            dump_body(&mut cx, did, &mut out);
        }
        out.push_str("],\"callees\":[");
        for (i, c) in cx.callees.iter().enumerate() {
            if i > 0 {
                out.push(',');
            }
            out.push_str(c);
        }
        out.push_str("],\"types\":[");
        for (i, t) in cx.tys.iter().enumerate() {
            if i > 0 {
                out.push(',');
            }
            esc(t, &mut out);
        }
        // trait impl table: trait method def path -> impl method def paths (local impls)
        out.push_str("],\"trait_impls\":{");
        let mut tab: std::collections::BTreeMap<String, Vec<String>> = Default::default();
        for (_trait_did, impls) in tcx.all_local_trait_impls(()).iter() {
            for imp in impls {
                for item in tcx.associated_items(imp.to_def_id()).in_definition_order() {
                    if let Some(ti) = tcx.trait_item_of(item.def_id) {
                        tab.entry(tcx.def_path_str(ti)).or_default().push(tcx.def_path_str(item.def_id));
                    }
                }
            }
        }
        for (i, (k, v)) in tab.iter().enumerate() {
            if i > 0 {
                out.push(',');
            }
            esc(k, &mut out);
            out.push_str(":[");
            for (j, p) in v.iter().enumerate() {
                if j > 0 {
                    out.push(',');
                }
                esc(p, &mut out);
            }
            out.push(']');
        }
        out.push_str("},\"mono\":");
        {
            let mut mono = mono::Mono::new(tcx);
            let keys: Vec<LocalDefId> = tcx.mir_keys(()).iter().copied().collect();
            let mut keys = keys;
            keys.sort_by_key(|d| tcx.def_path_str(d.to_def_id()));
            mono.add_roots(&keys);
            mono.run();
            eprintln!("mirfacts: mono graph {} instances, {} roots, {} failures", mono.nodes.len(), mono.roots.len(), mono.failures);
            mono.dump(&mut out);
        }
        out.push('}');
        let tmp = format!("{}.tmp{}", outp, std::process::id());
        std::fs::write(&tmp, out.as_bytes()).expect("write facts");
        std::fs::rename(&tmp, &outp).expect("rename facts");
        eprintln!("mirfacts: {} bodies, {} callees -> {}", n, cx.callees.len(), outp);
        Compilation::Continue
    }
}

fn main() {
    let mut args: Vec<String> = std::env::args().collect();
    // RUSTC_WORKSPACE_WRAPPER: argv[1] is the path of the real rustc
    if args.len() > 1 && (args[1].ends_with("rustc") || args[1].contains("/rustc")) {
        args.remove(1);
    }
    rustc_driver::run_compiler(&args, &mut Cb);
}
