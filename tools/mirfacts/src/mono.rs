//! Monomorphic (instantiation-aware) call graph, in the style of rustc's mono-item collector,
//! but over *all* local non-test functions as potential roots and with dyn dispatch kept symbolic:
//!   call     edge: caller instance -> resolved callee instance
//!   virtual  edge: caller instance -> (trait method def path, dyn type)         [a `dyn` call site]
//!   vtable   edge: instance creating a `T -> dyn Trait` coercion -> (dyn type, methods of T)
//!   fnptr    edge: instance reifying a fn item / closure into a fn pointer -> that instance
//! The rule layer (qv/mono.py) closes the graph from chosen entry points; a vtable method becomes
//! reachable only when both its creation site and a matching virtual call are reachable.
use rustc_hir::def::DefKind;
use rustc_hir::def_id::{DefId, LocalDefId};
use rustc_middle::mir::interpret::{AllocId, GlobalAlloc, Scalar};
use rustc_middle::mir::visit::Visitor as MirVisitor;
use rustc_middle::mir::*;
use rustc_middle::ty::adjustment::PointerCoercion;
use rustc_middle::ty::{self, EarlyBinder, GenericArgs, GenericArgsRef, Instance, InstanceKind, Ty, TyCtxt, TypeVisitableExt, TypingEnv, VtblEntry};
use std::collections::HashMap;
use std::fmt::Write as _;

use crate::{esc, trunc};

pub struct Node {
    pub name: String,
    pub path: String,
    pub krate: String,
    pub local: bool,
    pub kind: &'static str,
    pub has_body: bool,
    pub calls: Vec<(usize, usize)>,                  // (callee, line)
    pub virtuals: Vec<(String, String, usize)>,      // (trait method path, dyn type, line)
    pub vtables: Vec<(String, Vec<(String, usize)>)>, // (dyn type, [(trait method path, instance)])
    pub fnptrs: Vec<usize>,
}

pub struct Mono<'tcx> {
    pub tcx: TyCtxt<'tcx>,
    pub ids: HashMap<Instance<'tcx>, usize>,
    pub nodes: Vec<Node>,
    pub work: Vec<(Instance<'tcx>, usize)>,
    pub failures: usize,
    pub roots: Vec<usize>,
}

struct ConstCollector<'tcx> {
    tcx: TyCtxt<'tcx>,
    inst: Instance<'tcx>,
    found: Vec<Instance<'tcx>>,
}

impl<'tcx> ConstCollector<'tcx> {
    fn alloc(&mut self, id: AllocId, depth: usize) {
        if depth > 6 {
            return;
        }
        match self.tcx.global_alloc(id) {
            GlobalAlloc::Function { instance, .. } => self.found.push(instance),
            GlobalAlloc::Memory(alloc) => {
                let ids: Vec<AllocId> = alloc.inner().provenance().ptrs().values().map(|p| p.alloc_id()).collect();
                for i in ids {
                    self.alloc(i, depth + 1);
                }
            }
            _ => {}
        }
    }
}

impl<'tcx> MirVisitor<'tcx> for ConstCollector<'tcx> {
    fn visit_const_operand(&mut self, constant: &ConstOperand<'tcx>, _location: Location) {
        let tcx = self.tcx;
        let env = TypingEnv::fully_monomorphized();
        // zero-sized fn items and plain scalars cannot hide a function pointer
        let ty = constant.const_.ty();
        if matches!(ty.kind(), ty::FnDef(..) | ty::Bool | ty::Int(_) | ty::Uint(_) | ty::Float(_) | ty::Char | ty::Str) {
            return;
        }
        let Ok(c) = self.inst.try_instantiate_mir_and_normalize_erasing_regions(tcx, env, EarlyBinder::bind(constant.const_)) else { return };
        if let Ok(v) = c.eval(tcx, env, constant.span) {
            match v {
                ConstValue::Scalar(Scalar::Ptr(ptr, _)) => self.alloc(ptr.provenance.alloc_id(), 0),
                ConstValue::Indirect { alloc_id, .. } => self.alloc(alloc_id, 0),
                ConstValue::Slice { alloc_id, .. } => self.alloc(alloc_id, 0),
                _ => {}
            }
        }
    }
}

fn kind_name(k: &InstanceKind<'_>) -> &'static str {
    match k {
        InstanceKind::Item(_) => "item",
        InstanceKind::Intrinsic(_) => "intrinsic",
        InstanceKind::VTableShim(_) => "vtable_shim",
        InstanceKind::ReifyShim(..) => "reify_shim",
        InstanceKind::FnPtrShim(..) => "fnptr_shim",
        InstanceKind::Virtual(..) => "virtual",
        InstanceKind::ClosureOnceShim { .. } => "closure_once_shim",
        InstanceKind::DropGlue(..) => "drop_glue",
        InstanceKind::CloneShim(..) => "clone_shim",
        _ => "other_shim",
    }
}

impl<'tcx> Mono<'tcx> {
    pub fn new(tcx: TyCtxt<'tcx>) -> Self {
        Mono { tcx, ids: HashMap::new(), nodes: vec![], work: vec![], failures: 0, roots: vec![] }
    }

    pub fn intern(&mut self, inst: Instance<'tcx>) -> usize {
        if let Some(i) = self.ids.get(&inst) {
            return *i;
        }
        let tcx = self.tcx;
        let did = inst.def_id();
        let i = self.nodes.len();
        let name = trunc(format!("{}", inst), 400);
        self.nodes.push(Node {
            name,
            path: tcx.def_path_str(did),
            krate: tcx.crate_name(did.krate).to_string(),
            local: did.is_local(),
            kind: kind_name(&inst.def),
            has_body: false,
            calls: vec![],
            virtuals: vec![],
            vtables: vec![],
            fnptrs: vec![],
        });
        self.ids.insert(inst, i);
        self.work.push((inst, i));
        i
    }

    pub fn run(&mut self) {
        while let Some((inst, i)) = self.work.pop() {
            let r = std::panic::catch_unwind(std::panic::AssertUnwindSafe(|| self.process(inst, i)));
            if r.is_err() {
                self.failures += 1;
            }
        }
    }

    fn line(&self, sp: rustc_span::Span) -> usize {
        self.tcx.sess.source_map().lookup_char_pos(sp.lo()).line
    }

    fn process(&mut self, inst: Instance<'tcx>, me: usize) {
        let tcx = self.tcx;
        let env = TypingEnv::fully_monomorphized();
        let body: &Body<'tcx> = match inst.def {
            InstanceKind::Item(did) => {
                if matches!(tcx.def_kind(did), DefKind::Ctor(..)) || tcx.is_foreign_item(did) || !tcx.is_mir_available(did) {
                    return;
                }
                tcx.instance_mir(inst.def)
            }
            InstanceKind::Virtual(..) | InstanceKind::Intrinsic(..) | InstanceKind::DropGlue(..) => return,
            _ => tcx.instance_mir(inst.def),
        };
        self.nodes[me].has_body = true;
        // function pointers hidden in constants (e.g. `const { if .. { f::<T> } else { g::<T> } }` in std's in-place collect)
        {
            let mut cc = ConstCollector { tcx, inst, found: vec![] };
            cc.visit_body(body);
            for ci in cc.found {
                let c = self.intern(ci);
                self.nodes[me].fnptrs.push(c);
            }
        }
        for bb in body.basic_blocks.iter() {
            for st in &bb.statements {
                if let StatementKind::Assign(b) = &st.kind {
                    let (_, rv) = &**b;
                    match rv {
                        Rvalue::Cast(CastKind::PointerCoercion(PointerCoercion::Unsize, _), op, target_ty) => {
                            let source_ty = op.ty(body, tcx);
                            let s = inst.try_instantiate_mir_and_normalize_erasing_regions(tcx, env, EarlyBinder::bind(source_ty));
                            let t = inst.try_instantiate_mir_and_normalize_erasing_regions(tcx, env, EarlyBinder::bind(*target_ty));
                            if let (Ok(s), Ok(t)) = (s, t) {
                                if let Some((src, dynty)) = self.tails(s, t, 0) {
                                    if dynty.is_trait() && !src.is_trait() {
                                        self.vtable(me, dynty, src);
                                    }
                                }
                            }
                        }
                        Rvalue::Cast(CastKind::PointerCoercion(PointerCoercion::ReifyFnPointer(_), _), op, _) => {
                            let fn_ty = op.ty(body, tcx);
                            if let Ok(fn_ty) = inst.try_instantiate_mir_and_normalize_erasing_regions(tcx, env, EarlyBinder::bind(fn_ty)) {
                                if let ty::FnDef(did, args) = *fn_ty.kind() {
                                    if let Some(ci) = Instance::resolve_for_fn_ptr(tcx, env, did, args) {
                                        let c = self.intern(ci);
                                        self.nodes[me].fnptrs.push(c);
                                    }
                                }
                            }
                        }
                        Rvalue::Cast(CastKind::PointerCoercion(PointerCoercion::ClosureFnPointer(_), _), op, _) => {
                            let source_ty = op.ty(body, tcx);
                            if let Ok(source_ty) = inst.try_instantiate_mir_and_normalize_erasing_regions(tcx, env, EarlyBinder::bind(source_ty)) {
                                if let ty::Closure(did, args) = *source_ty.kind() {
                                    let ci = Instance::resolve_closure(tcx, did, args, ty::ClosureKind::FnOnce);
                                    let c = self.intern(ci);
                                    self.nodes[me].fnptrs.push(c);
                                }
                            }
                        }
                        _ => {}
                    }
                }
            }
            let term = bb.terminator();
            match &term.kind {
                TerminatorKind::Call { func, fn_span, .. } => {
                    let line = self.line(*fn_span);
                    self.call(inst, me, body, func, line);
                }
                TerminatorKind::TailCall { func, fn_span, .. } => {
                    let line = self.line(*fn_span);
                    self.call(inst, me, body, func, line);
                }
                _ => {}
            }
        }
    }

    fn call(&mut self, inst: Instance<'tcx>, me: usize, body: &Body<'tcx>, func: &Operand<'tcx>, line: usize) {
        let tcx = self.tcx;
        let env = TypingEnv::fully_monomorphized();
        let callee_ty = func.ty(body, tcx);
        let callee_ty = match inst.try_instantiate_mir_and_normalize_erasing_regions(tcx, env, EarlyBinder::bind(callee_ty)) {
            Ok(t) => t,
            Err(_) => {
                self.failures += 1;
                return;
            }
        };
        if let ty::FnDef(did, args) = *callee_ty.kind() {
            match Instance::try_resolve(tcx, env, did, args) {
                Ok(Some(ci)) => match ci.def {
                    InstanceKind::Virtual(tdid, _) => {
                        let dynty = ci.args.type_at(0);
                        self.nodes[me].virtuals.push((tcx.def_path_str(tdid), trunc(format!("{}", dynty), 300), line));
                    }
                    InstanceKind::Intrinsic(_) => {}
                    _ => {
                        let c = self.intern(ci);
                        self.nodes[me].calls.push((c, line));
                    }
                },
                _ => {
                    self.failures += 1;
                }
            }
        }
    }

    /// (source tail, target tail) of an unsizing coercion, following references, boxes and the
    /// first differing type argument of smart-pointer ADTs (Arc/Rc/Box<T> -> <dyn Trait>).
    fn tails(&self, s: Ty<'tcx>, t: Ty<'tcx>, depth: usize) -> Option<(Ty<'tcx>, Ty<'tcx>)> {
        let tcx = self.tcx;
        let env = TypingEnv::fully_monomorphized();
        if depth > 8 {
            return None;
        }
        match (s.kind(), t.kind()) {
            (&ty::Ref(_, sp, _), &ty::Ref(_, tp, _))
            | (&ty::Ref(_, sp, _), &ty::RawPtr(tp, _))
            | (&ty::RawPtr(sp, _), &ty::RawPtr(tp, _)) => Some(tcx.struct_lockstep_tails_for_codegen(sp, tp, env)),
            (&ty::Adt(sa, sargs), &ty::Adt(ta, targs)) if sa == ta => {
                for (a, b) in sargs.iter().zip(targs.iter()) {
                    if let (Some(x), Some(y)) = (a.as_type(), b.as_type()) {
                        if x != y {
                            if y.is_trait() || matches!(y.kind(), ty::Slice(_) | ty::Str) {
                                return Some((x, y));
                            }
                            return self.tails(x, y, depth + 1).or(Some(tcx.struct_lockstep_tails_for_codegen(x, y, env)));
                        }
                    }
                }
                None
            }
            _ => None,
        }
    }

    fn vtable(&mut self, me: usize, dynty: Ty<'tcx>, impl_ty: Ty<'tcx>) {
        let tcx = self.tcx;
        let ty::Dynamic(preds, ..) = dynty.kind() else { return };
        if let Some(principal) = preds.principal() {
            let trait_ref = tcx.instantiate_bound_regions_with_erased(principal.with_self_ty(tcx, impl_ty));
            let entries = tcx.vtable_entries(trait_ref);
            let mut ms = vec![];
            for e in entries.iter() {
                if let VtblEntry::Method(mi) = e {
                    // name of the trait method this entry implements; closures / fn shims stand for all three Fn* methods
                    let is_fn_like = tcx.is_closure_like(mi.def_id())
                        || matches!(mi.def, InstanceKind::ClosureOnceShim { .. } | InstanceKind::FnPtrShim(..))
                        || tcx.is_lang_item(tcx.parent(mi.def_id()), rustc_hir::LangItem::FnOnce);
                    if is_fn_like || tcx.fn_trait_kind_from_def_id(principal.def_id()).is_some() {
                        let c = self.intern(*mi);
                        for nm in ["std::ops::Fn::call", "std::ops::FnMut::call_mut", "std::ops::FnOnce::call_once"] {
                            ms.push((nm.to_string(), c));
                        }
                        continue;
                    }
                    let tm = match mi.def {
                        InstanceKind::Item(d) => tcx.trait_item_of(d).map(|t| tcx.def_path_str(t)).unwrap_or_else(|| tcx.def_path_str(d)),
                        InstanceKind::VTableShim(d) | InstanceKind::ReifyShim(d, _) => {
                            tcx.trait_item_of(d).map(|t| tcx.def_path_str(t)).unwrap_or_else(|| tcx.def_path_str(d))
                        }
                        _ => tcx.def_path_str(mi.def_id()),
                    };
                    let c = self.intern(*mi);
                    ms.push((tm, c));
                }
            }
            self.nodes[me].vtables.push((trunc(format!("{}", dynty), 300), ms));
        }
    }

    /// Roots: every local fn / assoc fn (not closures). Non-generic ones as they are; generic ones
    /// instantiated with every combination of local non-generic types implementing the local
    /// trait bounds of their type parameters (capped), lifetimes erased.
    pub fn add_roots(&mut self, keys: &[LocalDefId]) {
        let tcx = self.tcx;
        for &ld in keys {
            let did = ld.to_def_id();
            if !matches!(tcx.def_kind(did), DefKind::Fn | DefKind::AssocFn) {
                continue;
            }
            if !tcx.is_mir_available(did) {
                continue;
            }
            let r = std::panic::catch_unwind(std::panic::AssertUnwindSafe(|| self.instantiations(did)));
            match r {
                Ok(list) => {
                    for args in list {
                        let inst = Instance::new_raw(did, args);
                        let i = self.intern(inst);
                        self.roots.push(i);
                    }
                }
                Err(_) => self.failures += 1,
            }
        }
    }

    fn instantiations(&self, did: DefId) -> Vec<GenericArgsRef<'tcx>> {
        let tcx = self.tcx;
        let generics = tcx.generics_of(did);
        // collect type params (including parents)
        let mut params = vec![];
        let mut g = generics;
        loop {
            for p in &g.own_params {
                params.push(p.clone());
            }
            match g.parent {
                Some(p) => g = tcx.generics_of(p),
                None => break,
            }
        }
        let has_const = params.iter().any(|p| matches!(p.kind, ty::GenericParamDefKind::Const { .. }));
        if has_const {
            return vec![];
        }
        let ty_params: Vec<_> = params.iter().filter(|p| matches!(p.kind, ty::GenericParamDefKind::Type { .. })).collect();
        if ty_params.is_empty() {
            let args = GenericArgs::for_item(tcx, did, |p, _| match p.kind {
                ty::GenericParamDefKind::Lifetime => tcx.lifetimes.re_erased.into(),
                _ => unreachable!(),
            });
            return vec![args];
        }
        if ty_params.len() > 2 {
            return vec![];
        }
        // candidate types per type param: local non-generic implementors of its local trait bounds
        let preds = tcx.predicates_of(did).instantiate_identity(tcx);
        let mut cands: Vec<(u32, Vec<Ty<'tcx>>)> = vec![];
        for p in &ty_params {
            let mut cs: Option<Vec<Ty<'tcx>>> = None;
            for clause in preds.predicates.iter() {
                let clause = clause.skip_norm_wip();
                if let Some(tp) = clause.as_trait_clause() {
                    let tp = tp.skip_binder();
                    if let ty::Param(pt) = tp.self_ty().kind() {
                        if pt.index == p.index && tp.def_id().is_local() {
                            let mut v = vec![];
                            if let Some(impls) = tcx.all_local_trait_impls(()).get(&tp.def_id()) {
                                for imp in impls {
                                    let st = tcx.type_of(imp.to_def_id()).instantiate_identity().skip_norm_wip();
                                    if !st.has_param() && matches!(st.kind(), ty::Adt(..)) {
                                        let st = tcx.erase_and_anonymize_regions(st);
                                        if !v.contains(&st) {
                                            v.push(st);
                                        }
                                    }
                                }
                            }
                            cs = Some(match cs {
                                None => v,
                                Some(old) => old.into_iter().filter(|t| v.contains(t)).collect(),
                            });
                        }
                    }
                }
            }
            match cs {
                Some(v) if !v.is_empty() && v.len() <= 12 => cands.push((p.index, v)),
                _ => return vec![],
            }
        }
        let mut out = vec![];
        let mut combos: Vec<Vec<(u32, Ty<'tcx>)>> = vec![vec![]];
        for (idx, v) in &cands {
            let mut next = vec![];
            for c in &combos {
                for t in v {
                    let mut c2 = c.clone();
                    c2.push((*idx, *t));
                    next.push(c2);
                }
            }
            combos = next;
        }
        for c in combos.into_iter().take(24) {
            let args = GenericArgs::for_item(tcx, did, |p, _| match p.kind {
                ty::GenericParamDefKind::Lifetime => tcx.lifetimes.re_erased.into(),
                ty::GenericParamDefKind::Type { .. } => c.iter().find(|(i, _)| *i == p.index).map(|(_, t)| (*t).into()).unwrap(),
                _ => unreachable!(),
            });
            if !tcx.instantiate_and_check_impossible_predicates((did, args)) {
                out.push(args);
            }
        }
        out
    }

    pub fn dump(&self, out: &mut String) {
        out.push_str("{\"nodes\":[");
        for (i, n) in self.nodes.iter().enumerate() {
            if i > 0 {
                out.push(',');
            }
            out.push_str("{\"n\":");
            esc(&n.name, out);
            out.push_str(",\"p\":");
            esc(&n.path, out);
            out.push_str(",\"cr\":");
            esc(&n.krate, out);
            let _ = write!(out, ",\"l\":{},\"k\":\"{}\",\"b\":{},\"c\":[", if n.local { 1 } else { 0 }, n.kind, if n.has_body { 1 } else { 0 });
            for (j, (c, l)) in n.calls.iter().enumerate() {
                if j > 0 {
                    out.push(',');
                }
                let _ = write!(out, "[{},{}]", c, l);
            }
            out.push(']');
            if !n.virtuals.is_empty() {
                out.push_str(",\"v\":[");
                for (j, (m, d, l)) in n.virtuals.iter().enumerate() {
                    if j > 0 {
                        out.push(',');
                    }
                    out.push('[');
                    esc(m, out);
                    out.push(',');
                    esc(d, out);
                    let _ = write!(out, ",{}]", l);
                }
                out.push(']');
            }
            if !n.vtables.is_empty() {
                out.push_str(",\"vt\":[");
                for (j, (d, ms)) in n.vtables.iter().enumerate() {
                    if j > 0 {
                        out.push(',');
                    }
                    out.push('[');
                    esc(d, out);
                    out.push_str(",[");
                    for (k, (m, c)) in ms.iter().enumerate() {
                        if k > 0 {
                            out.push(',');
                        }
                        out.push('[');
                        esc(m, out);
                        let _ = write!(out, ",{}]", c);
                    }
                    out.push_str("]]");
                }
                out.push(']');
            }
            if !n.fnptrs.is_empty() {
                out.push_str(",\"fp\":[");
                for (j, c) in n.fnptrs.iter().enumerate() {
                    if j > 0 {
                        out.push(',');
                    }
                    let _ = write!(out, "{}", c);
                }
                out.push(']');
            }
            out.push('}');
        }
        out.push_str("],\"roots\":[");
        for (j, r) in self.roots.iter().enumerate() {
            if j > 0 {
                out.push(',');
            }
            let _ = write!(out, "{}", r);
        }
        let _ = write!(out, "],\"failures\":{}}}", self.failures);
    }
}
