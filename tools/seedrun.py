#!/usr/bin/env python3
"""Run checks against a seeded change on a scratch copy of /repo (outside /repo and /verif).
usage: seedrun.py <patch.diff> <PROP> [<PROP> ...]   -> prints, per property, exit code and the new VIOLATION lines."""
import os, shutil, subprocess, sys, tempfile
VERIF = os.path.dirname(os.path.dirname(os.path.abspath(__file__)))
REPO = "/repo"
patch = os.path.abspath(sys.argv[1])
props = sys.argv[2:]
d = tempfile.mkdtemp(prefix="qv-seedrun-", dir="/tmp")
ev = tempfile.mkdtemp(prefix="qv-seedrun-ev-", dir="/tmp")
try:
    shutil.copytree(os.path.join(REPO, "src"), os.path.join(d, "src"))
    for f in ("Cargo.toml", "Cargo.lock"):
        shutil.copy(os.path.join(REPO, f), os.path.join(d, f))
    r = subprocess.run(["patch", "-p1", "-s", "-d", d, "-i", patch], capture_output=True, text=True)
    if r.returncode != 0:
        print("PATCH FAILED", r.stdout, r.stderr)
        sys.exit(2)
    env = dict(os.environ, QV_REPO=d, QV_EVIDENCE_DIR=ev)
    for p in props:
        r = subprocess.run([os.path.join(VERIF, "check"), p], capture_output=True, text=True, env=env)
        lines = [l for l in (r.stdout + r.stderr).splitlines() if l.startswith(("VIOLATION", "  rule=", "ERROR"))]
        print("%s rc=%d %s" % (p, r.returncode, "CAUGHT" if r.returncode == 1 else ("ERROR" if r.returncode else "missed")))
        for l in lines[:6]:
            print("    " + l[:260])
finally:
    shutil.rmtree(d, ignore_errors=True)
    shutil.rmtree(ev, ignore_errors=True)
