"""Reviewed table for C14/U1: variants of `expr::Function` that are injective (one-to-one) on their SQL domain,
as unary functions of their first and only argument.  One reason per line.  A variant listed by
`Function::is_bijection` that is not in INJECTIVE is a violation; a variant in neither table is UNDECIDED.

Injectivity is meant over the mathematical / SQL value domain.  Collisions created by floating-point rounding
(exp, ln, log, sqrt of two adjacent doubles) are declared "not decided" in DESIGN.md §3/C14.
"""

INJECTIVE = {
    "Opposite": "x -> -x is an involution on integers and floats",
    "Not": "boolean negation is an involution",
    "Exp": "strictly increasing on the reals",
    "Ln": "strictly increasing on (0, +inf); NULL/error elsewhere (NULLs are exempt from uniqueness)",
    "Log": "strictly increasing on (0, +inf); NULL/error elsewhere",
    "Sqrt": "strictly increasing on [0, +inf); NULL/error elsewhere",
    "Md5": "cryptographic hash: collisions are not producible by data in practice (accepted by the design)",
    "CastAsText": "distinct booleans / integers / floats (shortest round-trip rendering) / dates render as distinct text",
}

# Reviewed NOT injective, with a colliding pair (the failing input of the finding)
NOT_INJECTIVE = {
    "CastAsInteger": "CAST(1.2 AS INTEGER) = CAST(1.4 AS INTEGER) = 1; CAST('1' AS INTEGER) = CAST('01' AS INTEGER)",
    "CastAsFloat": "CAST('1' AS FLOAT) = CAST('1.0' AS FLOAT) = 1.0; CAST(9007199254740992 AS FLOAT) = CAST(9007199254740993 AS FLOAT)",
    "CastAsBoolean": "CAST(1 AS BOOLEAN) = CAST(2 AS BOOLEAN) = true (three distinct integers cannot map one-to-one into two booleans)",
    "CastAsDate": "CAST(TIMESTAMP '2020-01-01 10:00:00' AS DATE) = CAST(TIMESTAMP '2020-01-01 11:00:00' AS DATE)",
    "CastAsTime": "CAST(TIMESTAMP '2020-01-01 10:00:00' AS TIME) = CAST(TIMESTAMP '2020-01-02 10:00:00' AS TIME)",
    "CastAsDateTime": "CAST('2020-01-01' AS DATETIME) = CAST('2020-01-01 00:00:00' AS DATETIME)",
    "Unhex": "UNHEX('0a') = UNHEX('0A') (hex digits are case-insensitive)",
    "Abs": "abs(-1) = abs(1)",
    "Sin": "periodic",
    "Cos": "periodic and even",
    "Lower": "lower('A') = lower('a')",
    "Upper": "upper('A') = upper('a')",
    "CharLength": "char_length('ab') = char_length('cd')",
    "Ceil": "ceil(0.2) = ceil(0.4)",
    "Floor": "floor(0.2) = floor(0.4)",
    "Round": "round(0.2) = round(0.4)",
    "Trunc": "trunc(0.2) = trunc(0.4)",
    "Sign": "sign(1) = sign(2)",
    "IsNull": "two values only",
    "Quarter": "four values only",
    "Date": "two timestamps of the same day",
    "Dayname": "seven values only",
    "ExtractEpoch": "sub-second timestamps collide after truncation",
    "ExtractYear": "component extraction",
    "ExtractMonth": "component extraction",
    "ExtractDay": "component extraction",
    "ExtractHour": "component extraction",
    "ExtractMinute": "component extraction",
    "ExtractSecond": "component extraction",
    "ExtractMicrosecond": "component extraction",
    "ExtractMillisecond": "component extraction",
    "ExtractDow": "component extraction",
    "ExtractWeek": "component extraction",
    "UnixTimestamp": "sub-second timestamps collide after truncation",
}

# Zero-argument functions whose value differs on every row (the only ones `Function::is_unique` may accept)
ROW_UNIQUE = {
    "Random": "a fresh pseudo-random double per row (collisions have probability ~2^-53 per pair; accepted by the design)",
    "Newid": "a fresh UUID per row",
}
