"""C17 — dialect translation emits valid target-dialect SQL with the same meaning (per-dialect tables E3d, E4d, E5d, E6, + E7–E9 of C08).

For each of the eight translators (PostgreSQL, SQLite, MySQL, MS SQL, BigQuery, Hive, Databricks, Redshift):
  E3d every operator that can occur in a relation (produced by the SQL reader or constructed by the DP / privacy-unit rewriting)
      is rendered by a method that does not abort (translator override or trait default, resolved from the MIR);
  E4d the SQL function spelling the translator emits for an operator is read back as the same operator by the same dialect's
      reader (its try_function override first, then the generic function-name table);
  E5d XTranslator::dialect() is sqlparser's dialect of the same engine;
  E6  the quote character of the translator's identifiers is a delimited-identifier start of that dialect in sqlparser's source;
  E7/E8/E9 (shared with C08) node components, aliases and operand parentheses are rendered — translators that drop the CTE
      column list (BigQuery, Hive) rely on E8.
NOT decided: acceptance by the real engines, per-engine function semantics, results on databases.
"""
import glob
import os
import re

from . import facts
from . import translate as T
from .core import Src, Anchor, find, walk, show, path_of, is_call_to
from .mir import Mir
from .reach import Reach
from . import c08

LEVEL = "other"
EXHAUSTIVE = True

TRANSLATORS = {
    "postgresql::PostgreSqlTranslator": ("PostgreSqlDialect", "postgresql.rs"),
    "sqlite::SQLiteTranslator": (None, "sqlite.rs"),
    "mysql::MySqlTranslator": ("MySqlDialect", "mysql.rs"),
    "mssql::MsSqlTranslator": ("MsSqlDialect", "mssql.rs"),
    "bigquery::BigQueryTranslator": ("BigQueryDialect", "bigquery.rs"),
    "hive::HiveTranslator": ("HiveDialect", "hive.rs"),
    "databricks::DatabricksTranslator": ("DatabricksDialect", "databricks.rs"),
    "redshiftsql::RedshiftSqlTranslator": ("RedshiftSqlDialect", "redshift.rs"),
}


def rewrite_constructed(R, bv):
    """operator variants constructed (Expr::<builder> calls) in bodies reachable from the rewriting entry points."""
    seen, lp, _, _ = R.reach(["REWRITE"])
    out = set()
    rx = re.compile(r"^expr::(?:<impl expr::Expr>|Expr)::(\w+)$")
    g = R.g
    for i in seen:
        n = g.nodes[i]
        m = rx.match(n["p"])
        if m and m.group(1) in bv:
            out.add(bv[m.group(1)])
    return out


def dialect_reader(src, file, helpers_generic, bv):
    """{(name, flag): variants} of the translator's own try_function override (None when it has none)."""
    fs = [f for f in src.find_fns(name="try_function", file="dialect_translation/" + file) if (f.trait or "").startswith("QueryToRelationTranslator")]
    if not fs:
        return None
    helpers = {f.name: f for f in src.find_fns(file="dialect_translation/" + file) if (f.trait or "").startswith("QueryToRelationTranslator")}
    # trait-default helpers (try_ln, try_log, try_md5 ...)
    for f in src.fns:
        if f.file == "dialect_translation/mod.rs" and (f.self_ty or "") == "trait QueryToRelationTranslator" and f.name not in helpers:
            helpers[f.name] = f
    tab, default = T.function_name_table(fs[0])
    if tab is None:
        return {}
    out = {}
    for (nm, flag), a in tab.items():
        hs = T.heads(a["body"], helpers)
        out[(nm, flag)] = {bv.get(h, T.snake_to_variant(h)) for h in hs if not h.startswith("?")} or {"?"}
    return out


def e24(rep, src):
    """Dialects that cannot give a CTE a column list spell the projection of a JOIN themselves: left fields from the left input, right fields from the right one."""
    rep.rule(
        "E24",
        "every `join_projection` override (dialect_translation/*.rs) qualifies the fields it takes from `join.left()` with `Join::left_name()` and those from `join.right()` with `Join::right_name()`, "
        "left fields first (the items are zipped with `join.schema()`, which lists the left fields first)",
        floor=4,
        necessary="`_LEFT_.score AS field_k` for a field of the right input returns the left values when both inputs have such a column and is refused by the engine otherwise: "
        "not the same result / output column as the other dialects",
    )

    def root(e):
        """the `join.left()` / `join.right()` at the root of an iterator chain -> 'left' | 'right' | None"""
        while True:
            while e["k"] in ("ref", "paren"):
                e = e["e"]
            if e["k"] == "mcall":
                if e["m"] in ("left", "right") and not e["args"] and e["recv"]["k"] == "path":
                    return e["m"]
                e = e["recv"]
            else:
                return None

    n_over = 0
    for f in src.find_fns(name="join_projection"):
        if not f.file.startswith("dialect_translation/") or not f.body or f.test or f.file.endswith("/mod.rs"):
            continue
        n_over += 1
        short = f.file.split("/")[-1][:-3]
        from .canon import canon_view

        from .canon import inline_local_closures

        f = canon_view(inline_local_closures(f), src, helpers=False)  # a local closure `|side, column| self.expr(&Expr::qcol(side, column))` is a helper like any other; `let left_columns = join.left()..map(..); left_columns.chain(right_columns)` is read through
        # scopes that iterate over one input: closures of an iterator chain rooted at join.left() / join.right(), and `for x in join.left()..` loops
        scopes = []
        for m in find(f.body, "mcall"):
            for a in m["args"]:
                if a["k"] == "closure" and root(m["recv"]) is not None:
                    scopes.append((root(m["recv"]), a["body"]))
        for lp in find(f.body, "for"):
            if root(lp["e"]) is not None:
                scopes.append((root(lp["e"]), lp["body"]))
        quals, order = 0, []
        def src_order(n):  # source order = order in which the items are produced (chain receiver before its argument, first loop before the second)
            if isinstance(n, list):
                for x in n:
                    yield from src_order(x)
            elif isinstance(n, dict):
                if "k" in n:
                    yield n
                keys = [k_ for k_ in n if k_ not in ("k", "l")]
                if n.get("k") == "mcall":
                    keys = ["recv"] + [k_ for k_ in keys if k_ != "recv"]
                elif n.get("k") == "for":
                    keys = ["pat", "e", "body"]
                for k_ in keys:
                    if isinstance(n.get(k_), (dict, list)):
                        yield from src_order(n[k_])

        for c in src_order(f.body):
            if c.get("k") != "call":
                continue
            p = path_of(c["f"]) or ""
            if not p.endswith("qcol") or not c["args"]:
                continue
            inside = [(sd, body) for sd, body in scopes if any(c is y for y in walk(body))]
            side = min(inside, key=lambda t: sum(1 for _ in walk(t[1])))[0] if inside else None  # the innermost scope
            q = c["args"][0]
            qp = path_of(q["f"]) if q["k"] == "call" else None
            qside = "left" if (qp or "").endswith("left_name") else "right" if (qp or "").endswith("right_name") else None
            key = "%s::join_projection@%s" % (short, side or "?")
            quals += 1
            rep.instance("E24", key, {"translator": short, "fields_of": side, "qualified_with": qp})
            if side is None or qside is None:
                rep.undecidable("E24", key, "cannot read which input the fields come from / which qualifier is used (`%s`)" % show(c, 60), f.where())
                continue
            if side != qside:
                rep.violation("E24", key, "%s::join_projection qualifies the fields of join.%s() with Join::%s_name(): the %s columns are read from the other input" % (short, side, qside, side), "src/%s:%d" % (f.file, c["l"]))
            if not order or order[-1] != side:
                order.append(side)
        if quals >= 2:
            key = "%s::join_projection@order" % short
            rep.instance("E24", key, {"translator": short, "order": order})
            if order != ["left", "right"]:
                rep.violation("E24", key, "%s::join_projection lists the fields in the order %s, but the aliases come from join.schema() (left fields first)" % (short, order), f.where())
        if quals < 2:
            rep.undecidable("E24", "%s::join_projection" % short, "expected the fields of both inputs to be qualified through Expr::qcol(..), found %d such call(s)" % quals, f.where())
    if n_over == 0:
        rep.instance("E24", "no-override", {"overrides": 0}, nontrivial=False)


def e28(rep, src):
    """BigQuery has no bare UNION / INTERSECT / EXCEPT: the set quantifier it is given must be spelled ALL or DISTINCT."""
    from .core import find, show

    rep.rule(
        "E28",
        "BigQueryTranslator::set_operation: the `set_quantifier` of the `SetExpr::SetOperation` it builds is, on every arm of the local def-use chain that computes it, `SetQuantifier::All` "
        "(for the input `All` only) or `SetQuantifier::Distinct` (for every other input)",
        floor=2,
        necessary="BigQuery rejects `SELECT .. UNION SELECT ..` without ALL or DISTINCT (syntax error): a relation whose set node has the default quantifier `None` is translated into SQL the target "
        "dialect does not accept; ALL rendered as DISTINCT (or the converse) changes the rows returned",
    )
    fs = [f for f in src.find_fns(name="set_operation", self_ty="BigQueryTranslator") if f.file == "dialect_translation/bigquery.rs" and f.body and not f.test]
    key = "BigQueryTranslator::set_operation"
    if len(fs) != 1:
        rep.violation("E28", key, "BigQueryTranslator no longer overrides `set_operation`: the trait default copies the quantifier of the relation, `None` included (bare UNION)", "src/dialect_translation/bigquery.rs")
        return
    f = fs[0]
    lits = [n for n in find(f.body, "struct") if show(n["path"], 0).split("::")[-1] == "SetOperation"]
    if len(lits) != 1:
        rep.undecidable("E28", key, "expected one `SetExpr::SetOperation { .. }` literal, found %d" % len(lits), f.where())
        return
    fld = [fl for fl in lits[0]["fields"] if fl.get("name") == "set_quantifier"]
    if len(fld) != 1:
        rep.undecidable("E28", key, "the SetOperation literal has no `set_quantifier` field", f.where())
        return
    lets = {}
    for st in find(f.body, "let"):
        if st.get("init") is not None and st["pat"].get("k") == "ident":
            lets.setdefault(st["pat"]["name"], []).append(st["init"])
    params = [p["pat"]["name"] for p in f.params if not p.get("self") and p["pat"]["k"] == "ident"]

    def leaves(e, pat, depth=0):
        """[(input pattern or None, leaf expression)] of the value of e"""
        while e["k"] in ("paren",):
            e = e["e"]
        if depth > 6:
            return [(pat, e)]
        if e["k"] == "block" and e["stmts"] and e["stmts"][-1]["k"] == "expr" and not e["stmts"][-1].get("semi"):
            return leaves(e["stmts"][-1]["e"], pat, depth + 1)
        if e["k"] == "match":
            out = []
            for a in e["arms"]:
                out += leaves(a["body"], show(a["pat"], 0) + (" if .." if a.get("guard") else ""), depth + 1)
            return out
        if e["k"] == "if":
            import re as _re

            c = show(e["cond"], 0).replace(" ", "")
            # which input the two branches stand for, when the condition is a plain test of the input against `All`
            if _re.fullmatch(r"matches!\(\w+,[\w:]*\bAll\)", c) or _re.fullmatch(r"\w+==[\w:]*\bAll", c):
                tags = ("[is] ::All", "[is not] ::other")
            elif _re.fullmatch(r"!matches!\(\w+,[\w:]*\bAll\)", c) or _re.fullmatch(r"\w+!=[\w:]*\bAll", c):
                tags = ("[is not] ::other", "[is] ::All")
            else:
                tags = ("?if " + c[:60], "?else of " + c[:60])
            out = leaves(e["then"], tags[0], depth + 1)
            if e.get("else") is not None:
                out += leaves(e["else"], tags[1], depth + 1)
            else:
                out.append((pat, e))
            return out
        if e["k"] in ("path", "ident"):
            nm = show(e, 0)
            if nm in lets and len(lets[nm]) == 1:
                return leaves(lets[nm][0], pat, depth + 1)
        return [(pat, e)]

    lv = leaves(fld[0]["e"], None)
    rep.instance("E28", key, {"fn": key, "set_quantifier": show(fld[0]["e"], 80), "leaves": [[p, show(x, 60)] for p, x in lv]})
    for i, (pat, x) in enumerate(lv):
        txt = show(x, 0)
        last = txt.split("::")[-1]
        k = "%s@%s" % (key, (pat or "value").split("::")[-1])
        rep.instance("E28", k, {"input": pat, "emitted": txt})
        if x["k"] not in ("path", "ident") or last not in ("All", "Distinct") or txt in params:
            rep.violation("E28", k, "for input `%s` the quantifier handed to BigQuery is `%s`, not SetQuantifier::All / SetQuantifier::Distinct: a bare `UNION` (quantifier None) or a *ByName form is a syntax error in BigQuery" % (pat, show(x, 80)), f.where())
            continue
        pat_last = (pat or "").split(" if ")[0].split("::")[-1]
        if (pat_last == "All") != (last == "All") and pat is not None and not pat.startswith("?"):
            rep.violation("E28", k, "for input `%s` BigQuery is given `%s`: ALL and DISTINCT are exchanged (duplicates are dropped or kept against the relation's quantifier)" % (pat, txt), f.where())


def run(rep):
    rep.explanation = (
        "Per-dialect table agreement. The renderer side (operator variant -> translator method (override or default) -> SQL spelling) is read from the type-resolved MIR; the reader side "
        "(SQL name -> operator) from the syn AST of each dialect's try_function and of sql/expr.rs; dialect pairing and identifier quoting are checked against sqlparser's own source in the cargo registry. "
        "Decides that every operator that can occur in a relation is rendered without abort, under a spelling the same dialect reads back as the same operator, with identifiers quoted by a character the dialect "
        "accepts. Acceptance by the real engines and per-engine semantics are NOT decided."
    )
    src = Src(facts.src_facts())
    R = Reach()
    mir = R.mir
    fn, names, helpers, bv = c08.reader_tables(src)
    prod = c08.producible_variants(src, helpers, bv)
    rew = rewrite_constructed(R, bv)
    scope = prod | rew
    defs, trs = T.default_methods(mir), T.translators(mir)
    unbuildable = set()
    cb = mir.by_path.get("data_type::function::cast")
    if cb:
        for tv, info in (T.dispatch(mir, cb, "data_type::DataType") or {}).items():
            if info["abort"]:
                unbuildable.add("CastAs" + tv)
    rep.extra["operators_in_scope"] = {"from_reader": len(prod), "from_rewriting": sorted(rew - prod), "unbuildable": sorted(unbuildable & scope)}

    rep.rule(
        "E3d",
        "for every translator and every operator in scope, the method that renders it (override or trait default) exists and does not abort",
        floor=400,
        necessary="translating a relation that uses the operator to that dialect panics instead of producing SQL",
    )
    rep.rule(
        "E4d",
        "for every translator that can also read (7 dialects): an operator rendered as the function call NAME(..) is read back as the same operator by that dialect's try_function / the generic function table",
        floor=200,
        necessary="reading the translated query back with the same dialect yields another relation (or fails)",
    )
    observations = []
    for tkey, (dialect, sp_file) in TRANSLATORS.items():
        tpath = "dialect_translation::" + tkey
        short = tkey.split("::")[1]
        file = tkey.split("::")[0] + ".rs"
        if tpath not in trs and short != "SQLiteTranslator":
            rep.error("translator %s has no RelationToQueryTranslator impl in the MIR facts" % tpath)
            continue
        own = dialect_reader(src, file, helpers, bv) if dialect else None
        for enum, meth in ((T.FUNC_ENUM, "function"), (T.AGG_ENUM, "aggregate")):
            body, _ = T.resolved_method(trs, defs, tpath, meth)
            d = T.dispatch(mir, body, enum)
            if d is None:
                raise Anchor("no switch on %s in %s" % (enum, body["path"]))
            for v, info in sorted(d.items()):
                if v not in scope or v in unbuildable:
                    continue
                key = "%s|%s::%s" % (short, enum.rsplit("::", 1)[-1], v)
                mths = [T.rtq_method(c) for c in info["calls"] if T.rtq_method(c)]
                aborts = info["abort"]
                how = None
                mb = None
                if not aborts and mths:
                    mb, how = T.resolved_method(trs, defs, tpath, mths[0])
                    if mb is not None:
                        ab = T.aborting_blocks(mir, mb)
                        if 0 in ab:  # the whole body aborts
                            aborts = True
                rep.instance("E3d", key, {"translator": short, "operator": v, "method": mths[:1], "resolved": how, "aborts": aborts})
                if aborts:
                    rep.violation("E3d", key, "%s cannot translate %s: %s aborts" % (short, v, ("method `%s`" % mths[0]) if mths else "the dispatch arm"), "%s:%d" % ((mb or body)["file"], (mb or body)["line"]))
                    continue
                if mb is None or dialect is None:
                    continue
                sp = T.spelling(mir, mb)
                if sp[0] != "fn":
                    rep.instance("E4d", key, {"translator": short, "operator": v, "rendered_as": list(sp)[:2]}, nontrivial=False)
                    continue
                name, distinct = sp[1], sp[2]
                if name in c08.KEYWORD_FUNCTIONS:
                    rep.instance("E4d", key, {"translator": short, "operator": v, "rendered_as": name, "read_by": "keyword syntax"}, nontrivial=False)
                    continue
                cands = None
                src_of = None
                if own:
                    for k in ((name.lower(), True if distinct else False), (name.lower(), None)):
                        if k in own and not (distinct and k[1] is None and False):
                            cands, src_of = own[k], "dialect"
                            break
                if cands is None:
                    for k in ((name.lower(), True if distinct else False), (name.lower(), None), (name.lower(), False)):
                        if distinct and k[1] is not True:
                            continue
                        if k in names:
                            cands, src_of = names[k], "generic"
                            break
                rep.instance("E4d", key, {"translator": short, "operator": v, "rendered_as": name + (" DISTINCT" if distinct else ""), "read_back_as": sorted(cands) if cands else None, "table": src_of})
                if cands is None:
                    rep.violation("E4d", key, "%s renders %s as %s(..)%s but its reader has no entry for \"%s\"" % (short, v, name, " DISTINCT" if distinct else "", name.lower()), "%s:%d" % (mb["file"], mb["line"]))
                elif v not in cands and "?" not in cands:
                    observations.append({"translator": short, "operator": v, "rendered_as": name, "read_back_as": sorted(cands)})
                    rep.violation("E4d", key + "@readback", "%s renders %s as %s(..) but reads \"%s\" back as %s: the relation read back computes another function (other column type)" % (short, v, name, name.lower(), sorted(cands)), "%s:%d" % (mb["file"], mb["line"]))

    rep.extra["read_back_as_another_operator"] = observations

    # ---------------- E5d / E6
    rep.rule("E5d", "XTranslator::dialect() returns sqlparser's dialect of the same engine (associated type D and constructor)", floor=7, necessary="reading back with another engine's lexer rejects or mis-tokenises the dialect's own quoting and syntax")
    rep.rule(
        "E6",
        "the quote character used by the translator's `identifier` (literal passed to ast::Ident::with_quote, trait default '\"') satisfies is_delimited_identifier_start of its dialect as written in sqlparser's source",
        floor=8,
        necessary="identifiers quoted with a character the dialect does not treat as a delimiter are lexed as something else: reserved words and special characters do not survive",
    )
    lock = open(os.path.join(facts.REPO if hasattr(facts, "REPO") else "/repo", "Cargo.lock")).read() if os.path.exists("/repo/Cargo.lock") else ""
    from .core import REPO

    lock = open(os.path.join(REPO, "Cargo.lock")).read()
    mver = re.search(r'name = "sqlparser"\nversion = "([^"]+)"', lock)
    ver = mver.group(1) if mver else "0.46.0"
    sp_dirs = glob.glob(os.path.expanduser("~/.cargo/registry/src/*/sqlparser-%s/src/dialect" % ver))
    if not sp_dirs:
        rep.error("sqlparser-%s source not found in the cargo registry (oracle for E6)" % ver)
        sp_dirs = [None]
    rep.extra["sqlparser_version"] = ver
    default_quote = None
    # the trait default identifier(): inside the macro-defined trait; read the char literal from the MIR of the default method
    db = defs.get("identifier")
    if db:
        for b in [db] + [mir.by_path[c] for c in mir.closures_of.get(db["path"], []) if c in mir.by_path]:
            for bl in b["blocks"]:
                t = bl["t"]
                if t[0] == "call":
                    for a in t[2]:
                        if a[0] == "k" and isinstance(a[1], str) and re.match(r"^'.'$", a[1]):
                            default_quote = a[1][1]
    for tkey, (dialect, sp_file) in TRANSLATORS.items():
        short = tkey.split("::")[1]
        file = "dialect_translation/" + tkey.split("::")[0] + ".rs"
        # E5d
        if dialect:
            impls = [it for (f_, m_, it) in src.impls if f_ == file and (it.get("trait") or "").startswith("QueryToRelationTranslator")]
            dty = None
            ctor = None
            for it in impls:
                for sub in it["items"]:
                    if sub["k"] == "type" and sub["name"] == "D":
                        dty = sub["ty"]
                    if sub["k"] == "fn" and sub["name"] == "dialect":
                        for x in walk(sub["body"]):
                            if x["k"] == "struct":
                                ctor = x["path"]["p"]
                            elif x["k"] == "path" and x["p"].endswith("Dialect"):
                                ctor = ctor or x["p"]
            rep.instance("E5d", short, {"translator": short, "type_D": dty, "constructed": ctor, "expected": dialect})
            if dty != dialect or (ctor or "").rsplit("::", 1)[-1] != dialect:
                rep.violation("E5d", short, "%s reads with %s / %s, expected %s" % (short, dty, ctor, dialect), "src/" + file)
        # E6
        q = None
        fs = [f for f in src.find_fns(name="identifier", file=file) if (f.trait or "").startswith("RelationToQueryTranslator")]
        if fs:
            lets = {}
            for st in find(fs[0].body, "let"):  # anywhere in the method (also inside the closure that maps the components)
                if st["k"] == "let" and st["pat"]["k"] in ("ident", "typed") and st.get("init") is not None and st["init"]["k"] == "lit" and st["init"]["t"] == "char":
                    nm = st["pat"]["name"] if st["pat"]["k"] == "ident" else st["pat"]["pat"]["name"]
                    lets[nm] = st["init"]["v"]
            for c in find(fs[0].body, "call"):
                if is_call_to(c, "Ident::with_quote") and c["args"]:
                    a = c["args"][0]
                    if a["k"] == "lit" and a["t"] == "char":
                        q = a["v"]
                    elif a["k"] == "path" and a["p"] in lets:
                        q = lets[a["p"]]
            if q is None:
                rep.undecidable("E6", short, "cannot read the quote character of %s::identifier" % short, fs[0].where())
                continue
        else:
            q = default_quote
        ok = None
        if sp_dirs[0]:
            ok = sqlparser_accepts(os.path.join(sp_dirs[0], sp_file), os.path.join(sp_dirs[0], "mod.rs"), q)
        rep.instance("E6", short, {"translator": short, "quote": q, "own_override": bool(fs), "dialect_source": sp_file, "accepted": ok})
        if q is None:
            rep.undecidable("E6", short, "no quote character found (trait default not readable)", "src/" + file)
        elif ok is False:
            rep.violation("E6", short, "%s quotes identifiers with %r, which sqlparser's %s does not accept as a delimited-identifier start" % (short, q, sp_file), "src/" + file)
        elif ok is None:
            rep.undecidable("E6", short, "cannot evaluate is_delimited_identifier_start of %s" % sp_file, "src/" + file)

    # ---------------- shared structural rules
    c08.e7_e8(rep, src)
    c08.e9(rep, src)
    c08.e12(rep, src)
    c08.e13(rep, src)
    c08.e14(rep, src)
    c08.e17(rep, src)
    c08.e18(rep, src)
    c08.e19(rep, src)
    c08.e20(rep, src)
    c08.e21(rep, src)
    c08.e22(rep, src)
    c08.e23(rep, src)
    e24(rep, src)
    e28(rep, src)
    rep.assume("the reader entry of a dialect is QueryToRelationTranslator::try_function (its override, else the trait default which special-cases log / ln / md5 and defers to sql/expr.rs)")
    rep.assume("sqlparser source in ~/.cargo/registry is the version pinned in /repo/Cargo.lock")


def sqlparser_accepts(dialect_file, mod_file, ch):
    """Evaluate `fn is_delimited_identifier_start(&self, ch)` of the dialect (falling back to the trait default in mod.rs) on ch."""
    for path in (dialect_file, mod_file):
        if not os.path.exists(path):
            continue
        doc = facts.single_file_facts(path)
        s = Src(doc)
        fs = [f for f in s.fns if f.name == "is_delimited_identifier_start" and f.body is not None]
        if path == mod_file:
            fs = [f for f in fs if (f.self_ty or "").startswith("trait ")]
        if not fs:
            continue
        r = _eval_bool(fs[0].body, ch)
        if r is not None:
            return r
    return None


def _eval_bool(e, ch):
    k = e["k"]
    if k == "block":
        st = e["stmts"]
        if len(st) == 1 and st[0]["k"] == "expr":
            return _eval_bool(st[0]["e"], ch)
        return None
    if k == "binary":
        if e["op"] == "||":
            a, b = _eval_bool(e["lhs"], ch), _eval_bool(e["rhs"], ch)
            return None if a is None or b is None else (a or b)
        if e["op"] == "&&":
            a, b = _eval_bool(e["lhs"], ch), _eval_bool(e["rhs"], ch)
            return None if a is None or b is None else (a and b)
        if e["op"] == "==":
            l, r = e["lhs"], e["rhs"]
            if l["k"] == "path" and r["k"] == "lit" and r["t"] == "char":
                return r["v"] == ch
            if r["k"] == "path" and l["k"] == "lit" and l["t"] == "char":
                return l["v"] == ch
    if k == "macro" and e["name"] == "matches":
        toks = e.get("tokens", "")
        return ("'%s'" % ch) in toks
    if k == "lit" and e["t"] == "bool":
        return bool(e["v"])
    return None
