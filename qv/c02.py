"""C02 — no un-noised path from protected tables to a DP / published result.

Rules T1–T4 of DESIGN.md §3/C02: the rewriting-rule table, the setter↔rewriter dispatch,
the acceptance sets of the two public entry points, and "a protected table is never public".
Everything is a finite table in rewriting/rewriting_rule.rs and rewriting/mod.rs; the check is
exhaustive over it.
"""
from . import facts
from .core import Src, Anchor, find, walk, walk_guards, show, path_of, last_seg, is_call_to, strip_generics

LEVEL = "other"
EXHAUSTIVE = True

PROPS = ["Private", "SyntheticData", "PrivacyUnitPreserving", "DifferentiallyPrivate", "Published", "Public"]
SHORT = {"Private": "Priv", "SyntheticData": "SD", "PrivacyUnitPreserving": "PUP", "DifferentiallyPrivate": "DP", "Published": "Pubd", "Public": "Pub"}
KINDS = ["table", "map", "reduce", "join", "set", "values"]
RR = "rewriting/rewriting_rule.rs"


def prop_name(n):
    """`Property::X` path -> 'X' (None if not a Property path)."""
    p = path_of(n)
    if p is None:
        return None
    segs = n["segs"]
    if len(segs) >= 2 and segs[-2] == "Property" and segs[-1] in PROPS:
        return segs[-1]
    return None


def params_kind(n):
    """`Parameters::None` / `Parameters::PrivacyUnit(..)` -> kind name."""
    if n["k"] == "path" and len(n["segs"]) >= 2 and n["segs"][-2] == "Parameters":
        return n["segs"][-1]
    if n["k"] == "call":
        f = n["f"]
        if f["k"] == "path" and len(f["segs"]) >= 2 and f["segs"][-2] == "Parameters":
            return f["segs"][-1]
    return None


def vec_elems(n):
    if n["k"] == "macro" and n["name"] == "vec":
        return n.get("args", []) if "args" in n else None
    if n["k"] == "array":
        return n["elems"]
    if is_call_to(n, "Vec::new"):
        return []
    return None


class Rule:
    def __init__(self, kind, inputs, output, params, guards, node, fn):
        self.kind, self.inputs, self.output, self.params, self.guards, self.node, self.fn = kind, inputs, output, params, guards, node, fn

    def text(self):
        return "%s: [%s] -> %s (%s)" % (self.kind, ", ".join(SHORT[i] for i in self.inputs), SHORT[self.output], self.params)

    def key(self):
        return "%s:[%s]->%s" % (self.kind, ",".join(SHORT[i] for i in self.inputs), SHORT[self.output])

    def where(self):
        return "src/%s:%d" % (RR, self.node["l"])


def guard_mentions(guards, needle, polarity=None):
    for g in guards:
        if g[0] == "if":
            if needle in show(g[1], 0) and (polarity is None or g[2] == polarity):
                return True
        if g[0] == "arm":
            # `match &self.synthetic_data { Some(sd) => <here>, None => .. }`: the Some arm is the branch where the option is present
            m, arm = g[1], g[1]["arms"][g[2]]
            if needle in show(m["e"], 0):
                is_some = any(p["k"] == "tuplestruct" and p["path"]["segs"][-1] == "Some" for p in walk(arm["pat"]))
                is_lit = needle.split("::")[-1] in show(arm["pat"], 0)
                pol = True if (is_some or is_lit) else None
                if pol is not None and (polarity is None or pol == polarity):
                    return True
    return False


def option_guards(body, node):
    """pseudo `if` guards for a node that sits in a closure run only for the payload of an Option:
    `self.synthetic_data.as_ref().map(|sd| <node>)` (also and_then / into_iter().map / iter().for_each ..) executes <node> only when the option is Some."""
    out = []

    def rec(n, stack):
        if n is node:
            for i, anc in enumerate(stack):
                if anc.get("k") == "closure" and i > 0:
                    call = stack[i - 1]
                    if call.get("k") == "mcall" and call["m"] in ("map", "and_then", "for_each", "filter_map", "flat_map", "map_or", "map_or_else", "into_iter", "iter") and any(a is anc for a in call["args"]):
                        r = call["recv"]
                        while r.get("k") == "mcall" and r["m"] in ("as_ref", "as_deref", "iter", "into_iter", "clone", "cloned", "as_mut"):
                            r = r["recv"]
                        if r.get("k") in ("field", "path", "mcall"):
                            out.append(("if", r, True))
            return True
        if isinstance(n, dict):
            for v in n.values():
                if isinstance(v, (dict, list)) and rec(v, stack + [n] if "k" in n else stack):
                    return True
        elif isinstance(n, list):
            for x in n:
                if rec(x, stack):
                    return True
        return False

    rec(body, [])
    return tuple(out)


def extract_rules(src, rep):
    rules = []
    fns = src.find_fns(file=RR, trait_re=r"^SetRewritingRulesVisitor", self_ty_re=r"^RewritingRulesSetter")
    byname = {f.name: f for f in fns}
    for k in KINDS:
        if k not in byname:
            raise Anchor("impl SetRewritingRulesVisitor for RewritingRulesSetter: method `%s` not found" % k)
    from .canon import canon_view

    for k in KINDS:
        from .canon import inline_local_closures

        f = canon_view(inline_local_closures(byname[k]), src, lets=True)  # parameter locals, local closures (`let pu_parameters = || Parameters::PrivacyUnit(..)`) and private helper methods of the setter are read through
        byname[k] = f
        for n, guards in walk_guards(f.body):
            if is_call_to(n, "RewritingRule::new"):
                a = n["args"]
                if len(a) != 3:
                    rep.undecidable("T1", "%s@arity" % k, "RewritingRule::new with %d arguments" % len(a), "src/%s:%d" % (RR, n["l"]))
                    continue
                el = vec_elems(a[0])
                ins = None if el is None else [prop_name(e) for e in el]
                out = prop_name(a[1])
                a2 = a[2]
                for _ in range(3):  # `let parameters = Parameters::PrivacyUnit(..);` shared by several rows (`parameters.clone()`)
                    while a2["k"] == "mcall" and a2["m"] == "clone" and not a2["args"]:
                        a2 = a2["recv"]
                    if a2["k"] == "path" and len(a2["segs"]) == 1:
                        ls = [l for l in find(f.body, "let") if l["pat"]["k"] == "ident" and l["pat"]["name"] == a2["segs"][0] and not l["pat"].get("mut") and l.get("init") is not None]
                        if len(ls) == 1:
                            a2 = ls[0]["init"]
                            continue
                    break
                pk = params_kind(a2)
                if ins is None or None in ins or out is None or pk is None:
                    rep.undecidable(
                        "T1",
                        "%s@%s" % (k, show(n, 80)),
                        "rule is not built from literal Property / Parameters constructors: %s" % show(n),
                        "src/%s:%d" % (RR, n["l"]),
                    )
                    continue
                rules.append(Rule(k, ins, out, pk, tuple(guards) + option_guards(f.body, n), n, f))
    return rules, byname


SAFE_FOR_PUBLISHED = {"Published", "DifferentiallyPrivate", "Public"}
SAFE_BESIDE_PUP = {"PrivacyUnitPreserving", "Published", "DifferentiallyPrivate", "Public"}


def t1(rep, rules):
    rep.rule(
        "T1",
        "label non-interference of every RewritingRule::new row of RewritingRulesSetter: (i) Public <= all inputs Public; (ii) Published <= inputs in {Published, DP, Public}; "
        "(iii) DP only at Reduce from [PUP] with DifferentialPrivacy parameters; (iv) SyntheticData only from SyntheticData inputs, SyntheticData parameters, under `synthetic_data` present; "
        "(v) PUP needs a PUP input (or a Table leaf), other inputs in {PUP, Published, DP, Public}, PrivacyUnit parameters; (vi) Private only as a Table output, never an input; "
        "(vii) PUP->PUP at Reduce and PUPxPUP at Join only under Strategy::Hard; arity = node arity",
        floor=30,
        necessary="a row violating (i)-(vi) is a derivation that labels data derived from protected rows as safe without a DP aggregation in between",
    )
    arity = {"table": 0, "values": 0, "map": 1, "reduce": 1, "join": 2, "set": 2}
    for r in rules:
        rep.instance("T1", r.key() + "#" + str(r.node["l"]), r.text() + " @" + r.where())
        bad = []
        if len(r.inputs) != arity[r.kind]:
            bad.append("arity %d for a %s node" % (len(r.inputs), r.kind))
        if "Private" in r.inputs:
            bad.append("(vi) Private used as an input label")
        if r.output == "Public":
            if any(i != "Public" for i in r.inputs):
                bad.append("(i) output Public with a non-Public input")
            if r.params != "None":
                bad.append("(i) Public rule with parameters %s" % r.params)
        elif r.output == "Published":
            if not r.inputs:
                bad.append("(ii) a leaf cannot be Published")
            if any(i not in SAFE_FOR_PUBLISHED for i in r.inputs):
                bad.append("(ii) output Published with an input outside {Published, DP, Public}")
        elif r.output == "DifferentiallyPrivate":
            if r.kind != "reduce" or r.inputs != ["PrivacyUnitPreserving"] or r.params != "DifferentialPrivacy":
                bad.append("(iii) DP output must be Reduce: [PUP] -> DP with DifferentialPrivacy parameters")
        elif r.output == "SyntheticData":
            if any(i != "SyntheticData" for i in r.inputs):
                bad.append("(iv) output SyntheticData with a non-SyntheticData input")
            if r.params != "SyntheticData":
                bad.append("(iv) SyntheticData rule without SyntheticData parameters")
            if not guard_mentions(r.guards, "synthetic_data", True):
                bad.append("(iv) SyntheticData rule not guarded by the presence of synthetic data")
        elif r.output == "PrivacyUnitPreserving":
            if r.params != "PrivacyUnit":
                bad.append("(v) PUP rule without PrivacyUnit parameters")
            if r.kind == "values":
                bad.append("(v) a Values leaf has no privacy unit")
            if r.kind != "table":
                if "PrivacyUnitPreserving" not in r.inputs:
                    bad.append("(v) PUP output without a PUP input")
                if any(i not in SAFE_BESIDE_PUP for i in r.inputs):
                    bad.append("(v) PUP output with an input outside {PUP, Published, DP, Public}")
            hard_needed = (r.kind == "reduce") or (r.kind == "join" and r.inputs == ["PrivacyUnitPreserving"] * 2)
            if hard_needed and not guard_mentions(r.guards, "Strategy::Hard", True):
                bad.append("(vii) %s rule not guarded by Strategy::Hard" % r.key())
        elif r.output == "Private":
            if r.kind != "table":
                bad.append("(vi) Private output on a non-Table node")
        for b in bad:
            rep.violation("T1", r.key(), b + " — " + r.text(), r.where())


# ---------------------------------------------------------------- T2: simulate the Rewriter's match


def pat_matches_prop(p, prop):
    k = p["k"]
    if k in ("wild", "ident"):
        return True
    if k == "path":
        return prop_name(p) == prop
    if k == "or":
        return any(pat_matches_prop(c, prop) for c in p["cases"])
    if k == "ref":
        return pat_matches_prop(p["pat"], prop)
    return None


def pat_matches_inputs(p, inputs):
    k = p["k"]
    if k in ("wild", "ident"):
        return True
    if k == "ref":
        return pat_matches_inputs(p["pat"], inputs)
    if k == "or":
        return any(pat_matches_inputs(c, inputs) for c in p["cases"])
    if k == "slice":
        el = p["elems"]
        if any(e["k"] == "rest" for e in el):
            i = [e["k"] for e in el].index("rest")
            head, tail = el[:i], el[i + 1 :]
            if len(head) + len(tail) > len(inputs):
                return False
            ok = all(pat_matches_prop(a, b) for a, b in zip(head, inputs))
            if tail:
                ok = ok and all(pat_matches_prop(a, b) for a, b in zip(tail, inputs[-len(tail) :]))
            return ok
        if len(el) != len(inputs):
            return False
        return all(pat_matches_prop(a, b) for a, b in zip(el, inputs))
    return None


def pat_matches_params(p, kind):
    k = p["k"]
    if k in ("wild", "ident"):
        return True
    if k == "ref":
        return pat_matches_params(p["pat"], kind)
    if k == "or":
        return any(pat_matches_params(c, kind) for c in p["cases"])
    if k == "path":
        return len(p["segs"]) >= 2 and p["segs"][-2] == "Parameters" and p["segs"][-1] == kind
    if k == "tuplestruct":
        pp = p["path"]
        return len(pp["segs"]) >= 2 and pp["segs"][-2] == "Parameters" and pp["segs"][-1] == kind
    return None


def scrutinee_roles(e):
    """The Rewriter matches on a tuple of accessor calls of the rule: map each position to inputs/output/parameters."""
    elems = e["elems"] if e["k"] == "tuple" else [e]
    roles = []
    for x in elems:
        if x["k"] == "mcall" and x["m"] in ("inputs", "output", "parameters") and not x["args"]:
            roles.append(x["m"])
        else:
            roles.append(None)
    return roles


def arm_matches(pat, roles, rule):
    if pat["k"] == "or":
        rs = [arm_matches(c, roles, rule) for c in pat["cases"]]
        if any(r is True for r in rs):
            return True
        if any(r is None for r in rs):
            return None
        return False
    if pat["k"] in ("wild", "ident"):
        return True
    elems = pat["elems"] if pat["k"] == "tuple" else [pat]
    if len(elems) != len(roles):
        return None
    res = True
    for p, role in zip(elems, roles):
        if role == "inputs":
            m = pat_matches_inputs(p, rule.inputs)
        elif role == "output":
            m = pat_matches_prop(p, rule.output)
        elif role == "parameters":
            m = pat_matches_params(p, rule.params)
        else:
            m = None
        if m is None:
            return None
        res = res and m
    return res


def is_default_pat(pat):
    return pat["k"] in ("wild", "ident")


def mcalls_in(n):
    return [x for x in walk(n) if x["k"] == "mcall"]


def recv_root(n):
    """Leftmost receiver of a method chain."""
    while True:
        if n["k"] == "mcall":
            n = n["recv"]
        elif n["k"] in ("try", "field", "ref", "unary", "index"):
            n = n["e"]
        else:
            return n


def t2(rep, src, rules):
    rep.rule(
        "T2",
        "setter<->rewriter agreement: every rule row is dispatched by `impl RewriteVisitor for Rewriter` to an explicit arm that applies the matching mechanism "
        "(PUP->DP: DpParameters::reduce and composition of its event; ->PUP: the PrivacyUnitTracking method of the same node kind and side; Table SD: SyntheticData::table); "
        "only rows whose output is Public/Published/SyntheticData/Private may reach the pass-through default arm",
        floor=30,
        necessary="a PUP/DP row that reaches the pass-through arm rebuilds the original node over the rewritten input: the aggregate is released un-noised / the unit columns are lost",
    )
    fns = src.find_fns(file=RR, trait_re=r"^RewriteVisitor", self_ty_re=r"^Rewriter")
    from .canon import canon_view

    # canonical form: `if let (pattern) = (inputs, output, parameters) { .. } else { .. }` as the two-arm match, a named scrutinee (`let signature = (..); match signature`)
    # and private constructor helpers (`self.privacy_unit_tracking(pu, strategy)` = PrivacyUnitTracking::new(..)) read through
    byname = {f.name: canon_view(f, src, iflet=True) for f in fns}
    for k in KINDS:
        if k not in byname:
            raise Anchor("impl RewriteVisitor for Rewriter: method `%s` not found" % k)
    # locate the dispatch match of each method
    dispatch = {}
    for k in KINDS:
        f = byname[k]
        ms = []
        for m in find(f.body, "match"):
            roles = scrutinee_roles(m["e"])
            if any(r is not None for r in roles):
                ms.append((m, roles))
        dispatch[k] = ms
    for r in rules:
        key = r.key()
        f = byname[r.kind]
        ms = dispatch[r.kind]
        needs_mechanism = r.output in ("PrivacyUnitPreserving", "DifferentiallyPrivate") or (r.kind == "table" and r.output == "SyntheticData")
        if r.kind in ("set", "values"):
            rep.instance("T2", key + "#" + str(r.node["l"]), {"rule": r.text(), "dispatch": "no dispatch (%s is rebuilt over the rewritten inputs)" % r.kind}, nontrivial=False)
            continue
        if len(ms) != 1:
            rep.undecidable("T2", "%s@dispatch" % r.kind, "expected one `match` over the rule's (inputs, output, parameters) in Rewriter::%s, found %d" % (r.kind, len(ms)), f.where())
            continue
        m, roles = ms[0]
        hit = None
        for i, a in enumerate(m["arms"]):
            if a.get("guard"):
                rep.undecidable("T2", "%s@guard%d" % (r.kind, i), "match arm with a guard in Rewriter::%s" % r.kind, "src/%s:%d" % (RR, a["l"]))
                hit = "undecided"
                break
            mm = arm_matches(a["pat"], roles, r)
            if mm is None:
                rep.undecidable("T2", "%s@arm%d" % (r.kind, i), "cannot simulate pattern %s" % show(a["pat"]), "src/%s:%d" % (RR, a["l"]))
                hit = "undecided"
                break
            if mm:
                hit = (i, a)
                break
        if hit == "undecided":
            continue
        if hit is None:
            rep.violation("T2", key, "no arm of Rewriter::%s matches rule %s" % (r.kind, r.text()), f.where())
            continue
        i, a = hit
        body = a["body"]
        default = is_default_pat(a["pat"])
        calls = mcalls_in(body)
        names = [c["m"] for c in calls]
        sample = {"rule": r.text(), "arm": i, "arm_line": a["l"], "default_arm": default, "calls": sorted(set(names))[:12]}
        rep.instance("T2", key + "#" + str(r.node["l"]), sample, nontrivial=needs_mechanism)
        where = "src/%s:%d" % (RR, a["l"])
        if not needs_mechanism:
            continue
        if default:
            rep.violation("T2", key, "rule %s falls into the pass-through default arm of Rewriter::%s" % (r.text(), r.kind), where)
            continue
        if r.output == "DifferentiallyPrivate":
            # the arm binds Parameters::DifferentialPrivacy(x) and calls x.reduce(reduce, <rewritten input>) and composes the event
            bound = [b for p in walk(a["pat"]) if p["k"] == "tuplestruct" and p["path"]["segs"][-1] == "DifferentialPrivacy" for b in walk(p) if b["k"] == "ident"]
            bn = bound[0]["name"] if bound else None
            ok_reduce = any(c["m"] == "reduce" and recv_root(c)["k"] == "path" and recv_root(c)["p"] == bn for c in calls)
            if not ok_reduce:
                rep.violation("T2", key, "the PUP->DP arm does not call DpParameters::reduce on its DifferentialPrivacy parameters", where)
            if "compose" not in names:
                rep.violation("T2", key, "the PUP->DP arm does not compose the event of the DP aggregation", where)
        elif r.output == "PrivacyUnitPreserving":
            if r.kind == "join":
                want = {(True, True): "join", (False, True): "join_left_published", (True, False): "join_right_published"}[
                    (r.inputs[0] == "PrivacyUnitPreserving", r.inputs[1] == "PrivacyUnitPreserving")
                ]
            else:
                want = r.kind
            is_put = lambda c: recv_root(c)["k"] == "path" or is_call_to(recv_root(c), "PrivacyUnitTracking::new")  # a named tracker, or the constructor itself once the local is read through
            put = [c for c in calls if c["m"] == want and is_put(c)]
            # the receiver must be a PrivacyUnitTracking value built in the arm
            built = [x for x in walk(body) if is_call_to(x, "PrivacyUnitTracking::new")]
            if not put or not built:
                rep.violation("T2", key, "rule %s is not rewritten by PrivacyUnitTracking::%s (calls in arm: %s)" % (r.text(), want, sorted(set(names))), where)
            others = {"join", "join_left_published", "join_right_published"} - {want}
            if r.kind == "join" and any(c["m"] in others and ((recv_root(c)["k"] == "path" and recv_root(c)["p"].startswith("privacy_unit_tracking")) or is_call_to(recv_root(c), "PrivacyUnitTracking::new")) for c in calls):
                rep.violation("T2", key, "rule %s is dispatched to the tracking method of the wrong side" % r.text(), where)
        elif r.kind == "table" and r.output == "SyntheticData":
            sdb = [b["name"] for p in walk(a["pat"]) if p["k"] == "tuplestruct" and p["path"]["segs"][-1] == "SyntheticData" for b in walk(p) if b["k"] == "ident"]
            if not any(c["m"] == "table" and recv_root(c)["k"] == "path" and recv_root(c)["p"] in sdb for c in calls):  # `.table(..)` on the value bound by the `Parameters::SyntheticData(x)` pattern of the arm
                rep.violation("T2", key, "Table SD rule is not rewritten by SyntheticData::table", where)
    # the pass-through arm must not be reachable by a protected table unchanged: Table PUP/SD never map to table.clone()
    f = byname["table"]
    for m, roles in dispatch["table"]:
        for i, a in enumerate(m["arms"]):
            outs = [p for p in walk(a["pat"]) if prop_name(p) in ("PrivacyUnitPreserving", "SyntheticData")]
            if outs and "clone" in [c["m"] for c in mcalls_in(a["body"])] and not any(c["m"] == "table" for c in mcalls_in(a["body"])):
                rep.violation("T2", "table:arm%d" % i, "Rewriter::table maps a PUP/SD rule to the unchanged table", "src/%s:%d" % (RR, a["l"]))
    # Set: both rewritten inputs are used and both events composed
    f = byname["set"]
    txt = show(f.body, 0)
    ps = [p for p in f.params if not p.get("self")]
    rewritten = [p["pat"]["name"] for p in ps if p["ty"].replace(" ", "") == "RelationWithDpEvent"]
    rep.instance("T2", "set@inputs", {"set_inputs": rewritten})
    if len(rewritten) != 2:
        rep.undecidable("T2", "set@params", "Rewriter::set: expected two RelationWithDpEvent parameters", f.where())
    else:
        from .flow import flows_into_return

        for nm in rewritten:
            if not flows_into_return(f, nm):
                rep.violation("T2", "set@" + nm, "Rewriter::set does not build its result from rewritten input `%s`" % nm, f.where())


def t3(rep, src):
    rep.rule(
        "T3",
        "acceptance sets: rewrite_with_differential_privacy keeps only roots labelled within {Public, Published, DifferentiallyPrivate, SyntheticData}; "
        "rewrite_as_privacy_unit_preserving within {Public, PrivacyUnitPreserving}; Private in neither; everything else maps to None",
        floor=2,
        necessary="accepting a Private or PUP-labelled root returns protected rows un-noised as the DP result",
    )
    allowed = {
        "rewrite_with_differential_privacy": {"Public", "Published", "DifferentiallyPrivate", "SyntheticData"},
        "rewrite_as_privacy_unit_preserving": {"Public", "PrivacyUnitPreserving"},
    }
    from .util_accept import acceptance, Undecided as _Und

    for name, ok in allowed.items():
        f = src.one_fn(name=name, file="rewriting/mod.rs")
        try:
            accepted, outside, stages = acceptance(f, src)  # the filter / filter_map / map chain over the candidates, evaluated for every root label
        except _Und as u:
            rep.undecidable("T3", name + "@filter", "cannot evaluate the acceptance filter of %s as a function of the root label: %s" % (name, u), f.where())
            continue
        rep.instance("T3", name, {"entry": name, "accepted": sorted(accepted), "stages": stages})
        for x in sorted(accepted - ok):
            rep.violation("T3", name + "@" + x, "%s accepts a root labelled %s" % (name, x), f.where())
        if outside:
            rep.violation("T3", name + "@rewrite", "a rewriting is produced outside the acceptance filter", f.where())


def t4(rep, rules):
    rep.rule(
        "T4",
        "a protected table is never public: in RewritingRulesSetter::table the Public rule is created only on the branch where the table is NOT found in the privacy unit, "
        "and the Private/PUP rules only where it is",
        floor=3,
        necessary="a Public rule for a table with a privacy unit makes every query over it publishable as is",
    )
    for r in rules:
        if r.kind != "table":
            continue
        if r.output in ("Public", "Private", "PrivacyUnitPreserving"):
            pol = None
            for g in r.guards:
                if g[0] == "if":
                    s = show(g[1], 0)
                    if "privacy_unit" in s and ("is_some" in s or "is_none" in s or "any(" in s or "contains" in s):
                        pol = g[2]
                        if "is_none" in s or s.lstrip().startswith("!"):
                            pol = not pol
            rep.instance("T4", r.key(), {"rule": r.text(), "found_in_privacy_unit_branch": pol})
            if pol is None:
                rep.violation("T4", r.key(), "table rule %s is not control-dependent on the privacy-unit membership test" % r.text(), r.where())
            elif r.output == "Public" and pol is True:
                rep.violation("T4", r.key(), "a table that HAS a privacy unit is given the Public rule", r.where())
            elif r.output == "PrivacyUnitPreserving" and pol is False:
                rep.violation("T4", r.key(), "a table WITHOUT privacy unit is given a PUP rule", r.where())


def t6(rep, src):
    rep.rule(
        "T6",
        "SyntheticData::table: the path of the produced (synthetic) table comes only from the declared synthetic-paths lookup and a missing entry is an error; "
        "the protected table's own path is used only as the lookup key (or in the error value), never as a fallback",
        floor=1,
        necessary="with a fallback to table.path() the 'synthetic' table IS the protected table: every SD-labelled derivation releases raw protected rows with a no-op privacy event",
    )
    from .canon import canon_view

    f = canon_view(src.one_fn(name="table", file="synthetic_data/mod.rs", self_ty="SyntheticData"), src, helpers=False)  # `let synthetic_path = <lookup>?;` used once is read through
    tparam = [p["pat"]["name"] for p in f.params if not p.get("self") and "Table" in p["ty"] and p["pat"]["k"] == "ident"]
    paths = [m for m in find(f.body, "mcall") if m["m"] == "path" and m["args"]]
    # the builder's .path(..) call: receiver chain rooted at Relation::table()
    paths = [m for m in paths if "Relation::table" in show(m["recv"], 0)]
    if len(paths) != 1 or not tparam:
        rep.undecidable("T6", "SyntheticData::table@path", "cannot find the `.path(..)` of the synthetic table builder", f.where())
        return
    arg = paths[0]["args"][0]
    tp = tparam[0]
    bad = []
    lookups = 0

    def visit(n, ctx):
        nonlocal lookups
        if not isinstance(n, dict) or "k" not in n:
            return
        if n["k"] == "path" and n["segs"] == [tp] and ctx not in ("key", "error"):
            bad.append("`%s` used outside the lookup key" % tp)
        c = ctx
        if n["k"] == "mcall":
            if n["m"] in ("get", "get_key_value", "contains_key") and "synthetic_paths" in show(n["recv"], 0):
                lookups += 1
                visit(n["recv"], ctx)
                for a in n["args"]:
                    visit(a, "key")
                return
            if n["m"] in ("ok_or", "ok_or_else", "expect"):
                visit(n["recv"], ctx)
                for a in n["args"]:
                    visit(a, "error")
                return
            if n["m"] in ("unwrap_or", "unwrap_or_else", "unwrap_or_default", "or", "or_else", "map_or", "map_or_else"):
                bad.append("fallback `.%s(..)` on the synthetic-path lookup" % n["m"])
        if n["k"] == "index" and "synthetic_paths" in show(n["e"], 0):
            lookups += 1
            visit(n["i"], "key")
            return
        from .core import children

        for ch in children(n):
            visit(ch, c)

    visit(arg, "top")
    # the VALUE of the entry is the synthetic path; its KEY is the protected table's own path: `get_key_value(k)` must be read through `.1`, never `.0`
    for x in walk(arg):
        if x["k"] == "mcall" and x["m"] == "get_key_value" and "synthetic_paths" in show(x["recv"], 0):
            proj = [y for y in walk(arg) if y["k"] == "field" and y["name"] in ("0", "1") and any(z is x for z in walk(y["e"]))]
            keys_used = [y for y in proj if y["name"] == "0"]
            if keys_used or not proj:
                bad.append("the path is the KEY of the synthetic-paths entry (the protected table's own path), not its value")
        if x["k"] == "mcall" and x["m"] in ("keys", "into_keys") and "synthetic_paths" in show(x["recv"], 0):
            bad.append("the path is taken from the keys of synthetic_paths (the protected tables' own paths)")
    # names bound earlier from the table's path would hide the flow: resolve one level of lets
    rep.instance("T6", "SyntheticData::table@path", {"path_argument": show(arg, 200), "lookups": lookups, "problems": bad})
    if lookups == 0:
        bad.append("the path does not come from a synthetic_paths lookup")
    for b in bad:
        rep.violation("T6", "SyntheticData::table@path", b + ": " + show(arg, 160), "src/synthetic_data/mod.rs:%d" % paths[0]["l"])


def run(rep):
    rep.explanation = (
        "Static table proof over rewriting/rewriting_rule.rs and rewriting/mod.rs (syn AST of the current tree). "
        "Decides: every RewritingRule row respects the label lattice (T1), every row is dispatched by the Rewriter to the mechanism it names (T2), "
        "the two public entry points accept only safe root labels (T3), protected tables never get the Public rule (T4), the rule setter and the privacy-unit tracker agree on which tables are protected (T5), "
        "the synthetic replacement of a table never falls back to the table itself (T6). "
        "Does NOT decide that the DP aggregation itself is private (C01/C03/C04) nor column-level lineage inside the produced relation."
    )
    src = Src(facts.src_facts())
    rules, _ = extract_rules(src, rep)
    t1(rep, rules)
    t2(rep, src, rules)
    t3(rep, src)
    t4(rep, rules)
    from .c05 import t5

    t5(rep, src)
    t6(rep, src)
    rep.extra["rule_table"] = [r.text() for r in rules]
    rep.assume("rustc accepts the tree (the syn facts are parsed from the same files the build uses)")
    rep.assume("RewritingRule values are only created by RewritingRulesSetter (checked: RewritingRule::new call sites outside tests)")
    # who-may-call: RewritingRule::new outside the setter (non-test)
    rep.rule(
        "T0",
        "RewritingRule::new is called only inside impl SetRewritingRulesVisitor for RewritingRulesSetter, or in a private one-expression constructor helper of RewritingRulesSetter that is "
        "called only from that impl (its rows are read through at each call: they are rows of the table above) - non-test code",
        floor=30,
    )
    for r in rules:
        rep.instance("T0", "row:" + r.key(), None)

    def setter_fn(g):
        return g.file == RR and (g.trait or "").startswith("SetRewritingRulesVisitor") and (g.self_ty or "").startswith("RewritingRulesSetter")

    for f in src.fns:
        if f.test:
            continue
        for n in find(f.body or {}, "call"):
            if is_call_to(n, "RewritingRule::new"):
                inside = setter_fn(f)
                if not inside and f.file == RR and (f.self_ty or "").startswith("RewritingRulesSetter") and not f.trait and (f.node.get("vis") or "") in ("", "pub(self)"):
                    # a constructor helper: one expression (so that the rule extraction inlines it) and no caller outside the setter's visitor impl
                    b_ = f.body
                    one = b_ is not None and len(b_["stmts"]) == 1 and b_["stmts"][0]["k"] == "expr"
                    callers = [g for g in src.fns if not g.test and g.body and g is not f and any(x["k"] == "mcall" and x["m"] == f.name for x in walk(g.body))]
                    inside = one and callers and all(setter_fn(g) for g in callers)
                if not inside:
                    rep.violation("T0", f.qual, "RewritingRule::new called outside the rule setter: the rule table is no longer closed", "src/%s:%d" % (f.file, n["l"]))
