"""C18 — total on the supported fragment: errors, never panics (inventory rules P1, P2, E1/E2).

An *inventory* by instantiation-aware reachability from the public entry points (parse, render, type,
rewrite): every explicit abort (todo!/unimplemented!/panic!/unreachable!), every unchecked i64 arithmetic
operation and every hole in the two implementation dispatch tables that is reachable is a violation; the
ones present on the pinned tree were triaged once into known_findings.json (each entry names the input
construct that is routed to the abort) — anything new is reported.
NOT decided: unwrap()/expect() on results of internal fallible calls, slice indexing, assert!-stated
constructor preconditions, termination and stack depth.
"""
import json
import os
import re
from collections import defaultdict

from .reach import Reach, FLOORS

LEVEL = "other"
EXHAUSTIVE = True
SCOPE = ["PARSE", "RENDER", "TYPE", "REWRITE"]
ABORT_MACROS = ("todo", "unimplemented", "unreachable", "panic")
PANIC_FN = re.compile(r"^(core|std)::panicking::|^std::rt::begin_panic|^core::panic::")
UNCHECKED_INT = re.compile(r"^core::num::<impl i64>::(abs|pow|neg|div_euclid|rem_euclid|next_power_of_two|isqrt|saturating_div|wrapping_div|wrapping_rem|overflowing_div|overflowing_rem|wrapping_div_euclid|wrapping_rem_euclid|ilog|ilog2|ilog10)$")


def nclo(path):
    """Def path with closure indices erased: keys must survive the removal / addition of an unrelated closure in the same function."""
    return re.sub(r"\{closure#\d+\}", "{closure}", path)


class _Und(Exception):
    pass


I64 = (-(2 ** 63), 2 ** 63 - 1)


def _p6(rep):
    from .core import Src, show, path_of, find
    from . import facts as _f

    src = Src(_f.src_facts())
    IV = "data_type/intervals.rs"
    impl = [f for f in src.find_fns(file=IV) if (f.self_ty or "").replace(" ", "") == "Intervals<i64>" and (f.trait or "").replace(" ", "") == "Values<i64>"]
    fns = {f.name: f for f in impl}
    for need in ("values_len", "into_values", "values", "max_value_len"):
        if need not in fns:
            raise _Und("impl Values<i64> for Intervals<i64>::%s not found" % need)
    # (a) into_values enumerates only under the length test
    iv = fns["into_values"]
    enum_calls = [m for m in find(iv.body, "mcall") if m["m"] == "values" and path_of(m["recv"]) == "self"]
    from .core import walk_guards

    from .canon import canon_view

    def is_len_test(c):
        """`self.values_len()` is Some(l) with l < (or <=) self.max_value_len(): map(..).unwrap_or(false) / map_or(false, ..) / is_some_and(..)"""
        while c["k"] == "paren":
            c = c["e"]
        if c["k"] != "mcall":
            return False
        clo = None
        if c["m"] == "unwrap_or" and len(c["args"]) == 1 and show(c["args"][0], 0).strip() == "false" and c["recv"]["k"] == "mcall" and c["recv"]["m"] == "map" and len(c["recv"]["args"]) == 1:
            clo, base = c["recv"]["args"][0], c["recv"]["recv"]
        elif c["m"] == "map_or" and len(c["args"]) == 2 and show(c["args"][0], 0).strip() == "false":
            clo, base = c["args"][1], c["recv"]
        elif c["m"] == "is_some_and" and len(c["args"]) == 1:
            clo, base = c["args"][0], c["recv"]
        if clo is None or clo["k"] != "closure" or show(base, 0).replace(" ", "") != "self.values_len()" or len(clo["params"]) != 1 or clo["params"][0]["k"] != "ident":
            return False
        b = clo["body"]
        while b["k"] == "block" and len(b["stmts"]) == 1 and b["stmts"][0]["k"] == "expr":
            b = b["stmts"][0]["e"]
        if b["k"] != "binary":
            return False
        l, r, o = show(b["lhs"], 0).replace(" ", "").lstrip("*"), show(b["rhs"], 0).replace(" ", "").lstrip("*"), b["op"].strip()
        prm, cap = clo["params"][0]["name"], "self.max_value_len()"
        return (o in ("<", "<=") and l == prm and r == cap) or (o in (">", ">=") and r == prm and l == cap)

    ok_guard = False
    ivc = canon_view(iv, src, helpers=False)  # `let max_len = self.max_value_len();` used once is read through
    enum_calls = [m for m in find(ivc.body, "mcall") if m["m"] == "values" and path_of(m["recv"]) == "self"]
    for x, guards in walk_guards(ivc.body):
        if x["k"] == "mcall" and x["m"] == "values" and path_of(x["recv"]) == "self":
            for g in guards:
                if g[0] == "if" and g[2] is True and is_len_test(g[1]):
                    ok_guard = True
                if g[0] == "arm":
                    # `match self.values_len() { Some(len) if len < self.max_value_len() => <enumerate>, _ => self }`
                    mm, arm = g[1], g[1]["arms"][g[2]]
                    pt, gd = arm["pat"], arm.get("guard")
                    if show(mm["e"], 0).replace(" ", "") == "self.values_len()" and pt["k"] == "tuplestruct" and pt["path"]["segs"][-1] == "Some" and len(pt["elems"]) == 1 and pt["elems"][0]["k"] == "ident" and gd is not None and gd["k"] == "binary":
                        v = pt["elems"][0]["name"]
                        l, r, o = show(gd["lhs"], 0).replace(" ", "").lstrip("*"), show(gd["rhs"], 0).replace(" ", "").lstrip("*"), gd["op"].strip()
                        cap = "self.max_value_len()"
                        if (o in ("<", "<=") and l == v and r == cap) or (o in (">", ">=") and r == v and l == cap):
                            ok_guard = True
    rep.instance("P6", "Intervals<i64>::into_values@guard", {"enumerations": len(enum_calls), "guarded_by_length_test": ok_guard})
    if enum_calls and not ok_guard:
        rep.violation("P6", "Intervals<i64>::into_values@guard", "self.values() is materialised without the test `values_len() < max_value_len()`", iv.where())
    ml = fns["max_value_len"]
    if show(ml.body, 0).replace(" ", "") not in ("{self.capacity}",):
        rep.undecidable("P6", "Intervals<i64>::max_value_len", "max_value_len is not `self.capacity`: %s" % show(ml.body, 60), ml.where())
        return
    # (b) values_len on the grid
    vl = fns["values_len"]
    CAP = 128
    pts = [I64[0], I64[0] + 1, -(10 ** 12), -1000, -200, -129, -128, -127, -1, 0, 1, 10, 127, 128, 129, 200, 1000, 10 ** 12, I64[1] - 1, I64[1]]
    cases = bad = 0
    worst = None
    for lo in pts:
        for hi in pts:
            if lo > hi:
                continue
            cases += 1
            try:
                v = _eval_len(vl, lo, hi, CAP)
            except _Und as u:
                rep.undecidable("P6", "Intervals<i64>::values_len", "cannot evaluate values_len: %s" % u, vl.where())
                return
            except OverflowError as o:
                bad += 1
                worst = worst or "min=%d max=%d: %s" % (lo, hi, o)
                continue
            need = min(hi - lo, CAP)
            if v is not None and v < need:
                bad += 1
                worst = worst or "min=%d max=%d: values_len = %d but the range has %d values (enumerated when below the capacity %d)" % (lo, hi, v, hi - lo + 1, CAP)
    rep.instance("P6", "Intervals<i64>::values_len", {"grid_cases": cases, "unsound_or_overflowing": bad})
    if bad:
        rep.violation("P6", "Intervals<i64>::values_len", "values_len under-reports the number of values or overflows on %d of %d grid cases, e.g. %s" % (bad, cases, worst), vl.where())


def _eval_len(fn, lo, hi, cap):
    """Evaluate the body of values_len with self.min()? = lo, self.max()? = hi, self.capacity = cap.  Values are (int, type)."""
    from .core import show, path_of

    RANGE = {"i64": I64, "i128": (-(2 ** 127), 2 ** 127 - 1), "usize": (0, 2 ** 64 - 1), "u64": (0, 2 ** 64 - 1), "i32": (-(2 ** 31), 2 ** 31 - 1), "u128": (0, 2 ** 128 - 1), "isize": I64}

    def chk(v, t, what):
        a, b = RANGE.get(t, I64)
        if not (a <= v <= b):
            raise OverflowError("%s overflows %s" % (what, t))
        return (v, t)

    def ev(e, env):
        k = e["k"]
        if k == "paren":
            return ev(e["e"], env)
        if k == "lit" and e.get("t") == "int":
            return (int(e["v"]), (e.get("suffix") or "i64"))
        if k == "path":
            if e["p"] in env:
                return env[e["p"]]
            if e["p"] in ("i64::MAX", "std::i64::MAX"):
                return (I64[1], "i64")
            if e["p"] in ("i64::MIN", "std::i64::MIN"):
                return (I64[0], "i64")
            raise _Und("name `%s`" % e["p"])
        if k == "field" and path_of(e["e"]) == "self" and (e.get("name") or e.get("f")) == "capacity":
            return (cap, "usize")
        if k == "try":
            return ev(e["e"], env)
        if k == "ref":
            return ev(e["e"], env)
        if k == "unary":
            v = ev(e["e"], env)
            op = e["op"].strip()
            if op == "*":
                return v
            if op == "-":
                return chk(-v[0], v[1], "negation")
            raise _Und("unary %s" % op)
        if k == "cast":
            v = ev(e["e"], env)
            t = str(e["ty"]).replace(" ", "")
            a, b = RANGE.get(t, (None, None))
            if a is None:
                raise _Und("cast to %s" % t)
            x = v[0]
            if not (a <= x <= b):  # `as` wraps
                span = b - a + 1
                x = (x - a) % span + a
            return (x, t)
        if k == "binary" and e["op"].strip() in ("+", "-", "*"):
            a, b = ev(e["lhs"], env), ev(e["rhs"], env)
            t = a[1] if a[1] == b[1] or e["rhs"]["k"] == "lit" else a[1]
            op = e["op"].strip()
            r = a[0] + b[0] if op == "+" else (a[0] - b[0] if op == "-" else a[0] * b[0])
            return chk(r, t, "`%s`" % show(e, 50))
        if k == "mcall":
            m = e["m"]
            if m in ("min", "max") and not e["args"] and path_of(e["recv"]) == "self":
                return (lo if m == "min" else hi, "i64")
            r = ev(e["recv"], env)
            a = [ev(x, env) for x in e["args"]]
            if m == "clamp" and len(a) == 2:
                return (max(a[0][0], min(a[1][0], r[0])), r[1])
            if m == "min" and len(a) == 1:
                return (min(r[0], a[0][0]), r[1])
            if m == "max" and len(a) == 1:
                return (max(r[0], a[0][0]), r[1])
            if m in ("saturating_sub", "saturating_add") and len(a) == 1:
                x = r[0] - a[0][0] if m == "saturating_sub" else r[0] + a[0][0]
                lo_, hi_ = RANGE.get(r[1], I64)
                return (max(lo_, min(hi_, x)), r[1])
            if m in ("wrapping_sub", "wrapping_add") and len(a) == 1:
                x = r[0] - a[0][0] if m == "wrapping_sub" else r[0] + a[0][0]
                lo_, hi_ = RANGE.get(r[1], I64)
                return ((x - lo_) % (hi_ - lo_ + 1) + lo_, r[1])
            if m == "abs_diff" and len(a) == 1:
                return (abs(r[0] - a[0][0]), "u64")
            if m in ("clone", "to_owned", "into", "unsigned_abs") and not a:
                return (abs(r[0]), "u64") if m == "unsigned_abs" else r
            raise _Und("method `%s`" % m)
        if k == "call":
            p = path_of(e["f"]) or ""
            if p == "Some" and len(e["args"]) == 1:
                return ev(e["args"][0], env)
            if p.split("::")[-1] in ("from", "try_from") and len(e["args"]) == 1:
                return ev(e["args"][0], env)
            raise _Und("call `%s`" % p)
        if k == "block":
            env = dict(env)
            val = None
            for st in e["stmts"]:
                if st["k"] == "let" and st.get("init") is not None:
                    pt = st["pat"]
                    while pt["k"] == "typed":
                        pt = pt["pat"]
                    if pt["k"] != "ident":
                        raise _Und("pattern")
                    env[pt["name"]] = ev(st["init"], env)
                elif st["k"] == "expr":
                    val = ev(st["e"], env)
                    if st.get("semi"):
                        val = None
            if val is None:
                raise _Und("no value")
            return val
        raise _Und("expression `%s`" % show(e, 60))

    v = ev(fn.body, {})
    return v[0]


def abort_calls(mir, body):
    """(block index, macro, line) for diverging calls into the panic machinery coming from an abort macro."""
    out = []
    for bi, cal, args, dst, tgt, line, macs, raw in mir.calls(body):
        if cal is None or tgt is not None:
            continue
        if not PANIC_FN.search(cal["path"]):
            continue
        mm = [x for x in macs if x in ABORT_MACROS]
        asserts = [x for x in macs if x.startswith(("assert", "debug_assert"))]
        if asserts:
            continue  # assert!-stated preconditions are not in this rule
        if mm:
            out.append((bi, mm[0], line))
    return out


def preds_of(body):
    P = defaultdict(list)
    for i, bl in enumerate(body["blocks"]):
        if bl["c"]:
            continue
        t = bl["t"]
        k = t[0]
        succ = []
        if k == "goto":
            succ = [t[1]]
        elif k == "drop":
            succ = [t[2]]
        elif k == "call":
            succ = [t[4]] if t[4] is not None else []
        elif k == "assert":
            succ = [t[4]]
        elif k == "switch":
            succ = [x[1] for x in t[2]] + [t[3]]
        for s in succ:
            P[s].append(i)
    return P


def variant_chain(body, bi, P, depth=6):
    """Walk back through unique predecessors collecting the enum variants that select this block."""
    chain = []
    cur = bi
    steps = 0
    while steps < 40 and len(chain) < depth:
        steps += 1
        ps = sorted(set(P.get(cur, [])))
        if len(ps) != 1:
            # several predecessors: or-pattern arms of one switch all leading here?
            sw = [p for p in ps if body["blocks"][p]["t"][0] == "switch"]
            if len(set(ps)) >= 1 and len(sw) == len(ps) and len(set(ps)) == 1:
                pass
            else:
                break
        p = ps[0]
        t = body["blocks"][p]["t"]
        if t[0] == "switch" and t[4]:
            en = t[4].rsplit("::", 1)[-1]
            if en == "ControlFlow":
                cur = p
                continue
            names = [v for (v, b) in t[2] if b == cur]
            if names:
                chain.append("%s::%s" % (en, "|".join(sorted(names))))
            elif t[3] == cur:
                chain.append("%s::_" % en)
        cur = p
    return list(reversed(chain))


def run(rep):
    rep.explanation = (
        "Inventory by reachability over the instantiation-aware call graph (rustc MIR): explicit aborts (P1), unchecked i64 arithmetic (P2) and dispatch holes of the "
        "function/aggregate implementation tables (E1/E2) reachable from the parse, render, type and rewrite entry points. Every site present on the pinned tree is a known finding "
        "(unsupported construct -> abort instead of Err); any new site is a violation. unwrap()/expect(), indexing, assert! preconditions, termination are NOT decided."
    )
    R = Reach()
    mir, g = R.mir, R.g
    seen, lp, sup, stale = R.reach(SCOPE)
    for nm in SCOPE:
        n = len(R.roots(nm))
        if n < FLOORS[nm]:
            rep.error("entry set %s has %d roots, below the floor %d" % (nm, n, FLOORS[nm]))
    rep.extra["reachable"] = {"instances": len(seen), "local_bodies": len(lp), "of_local_bodies": len(mir.bodies), "resolution_failures": g.failures}
    rep.extra["suppressed_edges"] = [list(e) for e in sup]
    rep.assume("reachability: calls through fn pointers are resolved at the reification site; dyn calls to the vtables created in reachable code for the same dyn type and method; drop glue not followed")
    for s in stale:
        rep.error("edge suppression no longer valid: %s" % s)

    # ---------------- P1
    rep.rule(
        "P1",
        "no todo!/unimplemented!/panic!/unreachable! in a function body reachable from the public entry points (keyed by function + macro + the enum variants that select the aborting arm)",
        floor=100,
        necessary="each such arm turns an input construct (the enum variant that selects it) into a process abort instead of an error value",
    )
    total_sites = 0
    counts = defaultdict(int)
    old_counts = defaultdict(int)
    for b in mir.bodies:
        sites = abort_calls(mir, b)
        if not sites:
            continue
        total_sites += len(sites)
        if b["path"] not in lp:
            continue
        P = preds_of(b)
        for (bi, mac, line) in sites:
            chain0 = variant_chain(b, bi, P)
            # one report per input construct: an arm `A | B | C => todo!()` aborts on three constructs, whether it is written as one arm or as three
            last = chain0[-1] if chain0 else None
            alts = [chain0]
            if last and "::" in last and "|" in last.split("::", 1)[1]:
                en, vs = last.split("::", 1)
                alts = [chain0[:-1] + ["%s::%s" % (en, v)] for v in vs.split("|")]
            for chain in alts:
                # the key names the variants that SELECT the abort; a default arm (`_ => todo!()`, or the `else` of an `if matches!(..)`) selects nothing by name:
                # `match f { A => .., _ => todo!() }` and `if !matches!(f, A) { todo!() }` are the same construct
                named = [c for c in chain if not c.endswith("::_")]
                base = "%s|%s|%s" % (nclo(b["path"]), mac, ">".join(named) if named else "-")
                counts[base] += 1
                key = base if counts[base] == 1 else "%s#%d" % (base, counts[base])
                if os.environ.get("QV_P1_KEYMAP"):
                    old_base = "%s|%s|%s" % (nclo(b["path"]), mac, ">".join(chain) if chain else "-")
                    old_counts[old_base] += 1
                    with open(os.environ["QV_P1_KEYMAP"], "a") as fh:
                        fh.write(json.dumps({"old": old_base if old_counts[old_base] == 1 else "%s#%d" % (old_base, old_counts[old_base]), "new": key}) + "\n")
                where = "%s:%d" % (b["file"], line)
                rep.instance("P1", key, {"fn": b["path"], "macro": mac, "selected_by": chain, "where": where})
                rep.violation(
                    "P1",
                    key,
                    "%s!() reachable (%s) via %s" % (mac, " > ".join(named) if named else "unconditional in this path", " -> ".join(x[:90] for x in R.chain(seen, lp[b["path"]])[-4:])),
                    where,
                )
    rep.extra["explicit_abort_sites_in_crate"] = total_sites

    # ---------------- P2
    rep.rule(
        "P2",
        "no overflow-checked i64 arithmetic (+ - * / % neg, i64::abs/pow) in reachable bodies on values that are not provably small: every site must be in the reviewed safe table or is reported",
        floor=8,
        necessary="schema bounds may be i64::MIN/MAX: unchecked arithmetic on them panics in debug builds and wraps in release builds",
    )
    from .c18_tables import SAFE_ARITH

    n_in_fn = defaultdict(int)  # per function with closure indices erased: `f::{closure#2}` and `f::{closure#3}` share their ordinals
    for b in mir.bodies:
        if b["path"] not in lp:
            continue
        for bi, bl in enumerate(b["blocks"]):
            t = bl["t"]
            site = None
            if t[0] == "assert" and (t[3].startswith("overflow") or t[3] in ("divzero", "remzero")):
                # operand type: find the checked binary op feeding the assert condition in this block
                ty = None
                for st in bl["s"]:
                    rv = st[1]
                    if rv[0] in ("bin", "un"):
                        for o in rv[2:]:
                            if isinstance(o, list) and o and o[0] in ("c", "m"):
                                ty = mir.ty(b, o[1][0])
                            elif isinstance(o, list) and o and o[0] == "k":
                                ty = ty or mir.types[o[2]]
                if t[3] in ("divzero", "remzero"):
                    # the divisor is tested: operand of the Eq comparison
                    for st in bl["s"]:
                        if st[1][0] == "bin" and st[1][1] == "Eq":
                            o = st[1][2]
                            if o[0] in ("c", "m"):
                                ty = mir.ty(b, o[1][0])
                if ty is None or not ty.startswith(("i64", "(i64")):
                    continue
                site = (t[3], t[5])
            elif t[0] == "call" and isinstance(t[1], int) and UNCHECKED_INT.search(mir.callees[t[1]]["path"]):
                site = ("call:" + mir.callees[t[1]]["path"].rsplit("::", 1)[-1], t[5])
            if site is None:
                continue
            op, line = site
            base = "%s|%s" % (nclo(b["path"]), op)
            n_in_fn[base] += 1
            key = base if n_in_fn[base] == 1 else "%s#%d" % (base, n_in_fn[base])
            where = "%s:%d" % (b["file"], line)
            safe = SAFE_ARITH.get(base)
            rep.instance("P2", key, {"fn": b["path"], "op": op, "where": where, "reviewed_safe": safe})
            if safe:
                continue
            rep.violation("P2", key, "unchecked i64 %s in reachable code" % op, where)
    known_fns = {nclo(pth) for pth in mir.by_path}
    for k in SAFE_ARITH:
        fn = k.split("|")[0]
        if fn not in known_fns:
            rep.error("stale entry in the reviewed arithmetic table: %s" % k)

    # ---------------- P4 ill-formed size intervals (assert!(min <= max) in Intervals::union_interval)
    rep.rule(
        "P4",
        "the size interval built by Map/Reduce/Join/Set/Values::new is well-formed (lower <= upper) for every stub input of the C07/Z2 grid (size terms extracted from the constructors and evaluated symbolically): "
        "Integer::from_interval(lo, hi) with lo > hi violates the assert!(min <= max) of Intervals::union_interval",
        floor=6,
        necessary="building the relation (parsing a query with that LIMIT/OFFSET/operator over inputs of those sizes) panics instead of returning a relation or an error",
    )
    from .core import Report as _R, Src as _S
    from . import facts as _facts
    from .c07 import Z2 as _Z2

    scratch = _R("C07", rep.tier)
    try:
        z = _Z2(scratch, _S(_facts.src_facts()))
        z.run()
        for r in scratch.rules.values():
            for _ in range(r["instances"]):
                pass
        n_cases = sum(r["instances"] for r in scratch.rules.values())
        rep.instance("P4", "size-grid", {"constructors": ["Map", "Reduce", "Join", "Set", "Values"], "grid_points": z.points, "cases": n_cases, "ill_formed": len(z.illformed)})
        for k in ("Map", "Reduce", "Join", "Set", "Values"):
            rep.instance("P4", k + "::new", None)
        for key, (ctx, lo, hi, where) in sorted(z.illformed.items()):
            rep.violation("P4", key, "%s: the declared size would be [%s, %s] (lower > upper): Integer::from_interval panics" % (ctx, lo, hi), where)
        for v in scratch.violations:
            if v["msg"].startswith("UNDECIDED"):
                rep.undecidable("P4", v["key"], v["msg"][11:], v["where"])
    except Exception as e:  # Anchor etc.
        rep.error("P4 could not evaluate the size terms: %s" % e)

    # ---------------- P5 refusals that must not be unwrapped
    rep.rule(
        "P5",
        "refusals that are part of the design are not turned into panics: in bodies reachable from the entry points the Result of `Variant::try_empty` (Err for Id / Enum / Function / Any and every composite holding one) "
        "never flows directly into Result::unwrap / expect (MIR def-use through moves)",
        floor=1,
        necessary="`SELECT a FROM t WHERE FALSE` on a table with an Id or Enum column panicked in DataType::filter_by_value (fixed defect): a refusal by design must stay a value",
    )
    NO_UNWRAP = re.compile(r"as data_type::Variant>::try_empty$|^data_type::Variant::try_empty$")
    UNWRAP = re.compile(r"(Result|Option)::<.*>::(unwrap|expect)$|::(unwrap|expect)$")
    for b in mir.bodies:
        if b["path"] not in lp:
            continue
        defcall, moves = {}, {}
        for bl in b["blocks"]:
            for st in bl["s"]:
                dst, rv = st[0], st[1]
                if dst[1] == "" and rv[0] == "use" and rv[1][0] in ("m", "c") and rv[1][1][1] == "":
                    moves[dst[0]] = rv[1][1][0]
            t = bl["t"]
            if t[0] == "call" and isinstance(t[1], int) and t[3][1] == "":
                defcall[t[3][0]] = (mir.callees[t[1]], t[5])
        users = {}
        for bl in b["blocks"]:
            t = bl["t"]
            if t[0] == "call" and isinstance(t[1], int) and t[2] and t[2][0][0] in ("m", "c"):
                cur, hops = t[2][0][1][0], 0
                while cur in moves and hops < 10:
                    cur, hops = moves[cur], hops + 1
                users.setdefault(cur, []).append((mir.callees[t[1]], t[5]))
        for loc, (cal, line) in defcall.items():
            if not (NO_UNWRAP.search(cal["path"]) or NO_UNWRAP.search(cal.get("orig", "") or "")):
                continue
            key = "%s|try_empty" % b["path"]
            us = [u for u, _l in users.get(loc, [])]
            bad = [u["path"] for u in us if UNWRAP.search(u["path"]) and ("Result" in u["path"] or "Option" in u["path"])]
            rep.instance("P5", key, {"in": b["path"], "result_used_by": [u["path"][-50:] for u in us][:4]})
            if bad:
                rep.violation("P5", key, "the Result of try_empty is unwrapped (%s): types without an empty form (Id, Enum, Any, structs holding one) panic here" % bad[0][-40:], "%s:%d" % (b["file"], line))

    # ---------------- P6 bounded enumeration of integer ranges
    rep.rule(
        "P6",
        "Intervals<i64>::into_values materialises `a..=b` only under `values_len() < max_value_len()`; values_len (evaluated symbolically on a grid of bounds incl. i64::MIN/MAX, "
        "ranges far from zero, capacity 128) never overflows and is >= min(max - min, capacity): a range reported short really has at most `capacity` values",
        floor=2,
        necessary="a wide range reported as short is enumerated into a Vec: `SELECT id, age + 1 FROM t WHERE age > 10` on an unbounded integer column panicked with 'capacity overflow' "
        "(fixed defect: both bounds were clamped separately), narrower ones allocate gigabytes",
    )
    try:
        _p6(rep)
    except Exception as e:  # Anchor etc.
        rep.error("P6 could not evaluate values_len: %s" % e)

    # ---------------- P8 every destructured clause of a sqlparser node is read
    rep.rule(
        "P8",
        "src/sql/*: every name bound when a sqlparser AST node is taken apart (`let ast::Select { .. } = ..`, `ast::X { a, b, .. } =>`, `ast::X(a)`) is read afterwards - in the function for a `let`, "
        "in the arm (guard included) for a match arm; an ignored component is written `name: _` or `_name`",
        floor=120,
        necessary="'unsupported constructs are reported as errors': a clause that is bound and never read is neither compiled nor refused - `SELECT a FROM t DISTRIBUTE BY a` is accepted and silently "
        "means `SELECT a FROM t` when the guard tests another clause twice",
    )
    from .core import Src as _Src8, walk as _walk8, find as _find8, show as _show8, pat_binds as _binds8
    from . import facts as _facts8

    src8 = _Src8(_facts8.src_facts())

    def _reads(nodes, name):
        for nd in nodes:
            for x in _walk8(nd):
                if x.get("k") == "path" and x["segs"][0] == name:
                    return True
                if x.get("k") == "macro" and name in _show8(x, 0):
                    return True
        return False

    for f in src8.fns:
        if f.test or not f.body or not f.file.startswith("sql/"):
            continue
        for st in _walk8(f.body):
            if st.get("k") == "let" and st["pat"]["k"] in ("struct", "tuplestruct") and st["pat"]["path"]["segs"][0] == "ast":
                for b in _binds8(st["pat"]):
                    key = "%s|%s.%s" % (f.qual, "::".join(st["pat"]["path"]["segs"]), b)
                    rep.instance("P8", key, None, nontrivial=False)
                    if not b.startswith("_") and not _reads([f.body], b):
                        rep.violation("P8", key, "`%s` of %s is bound in %s and never read: the clause is neither compiled nor refused" % (b, "::".join(st["pat"]["path"]["segs"]), f.qual), "src/%s:%d" % (f.file, st["l"]))
        for m in _find8(f.body, "match"):
            for a in m["arms"]:
                pats = a["pat"]["cases"] if a["pat"]["k"] == "or" else [a["pat"]]
                for pt in pats:
                    if pt["k"] in ("struct", "tuplestruct") and pt["path"]["segs"][0] == "ast":
                        for b in _binds8(pt):
                            key = "%s|%s.%s" % (f.qual, "::".join(pt["path"]["segs"]), b)
                            rep.instance("P8", key, None, nontrivial=False)
                            if not b.startswith("_") and not _reads([a["body"], a.get("guard") or {}], b):
                                rep.violation("P8", key, "`%s` of %s is bound in an arm of %s and never read: the component is neither compiled nor refused" % (b, "::".join(pt["path"]["segs"]), f.qual), "src/%s:%d" % (f.file, a["l"]))

    # P8 (cont.): the payload of an optional clause taken with `if let Some(x) = <clause>` and never read: its cases are not told apart (`DISTINCT ON (..)` compiled as DISTINCT)
    for f in src8.fns:
        if f.test or not f.body or not f.file.startswith("sql/"):
            continue
        for n8 in _find8(f.body, "if"):
            c8 = n8["cond"]
            if c8["k"] != "letcond" or c8["pat"]["k"] != "tuplestruct" or c8["pat"]["path"]["segs"][-1] != "Some":
                continue
            for b in _binds8(c8["pat"]):
                key = "%s|if-let Some(%s)=%s" % (f.qual, b, _show8(c8["e"], 40).replace(" ", ""))
                rep.instance("P8", key, None, nontrivial=False)
                if not b.startswith("_") and not _reads([n8["then"]], b):
                    rep.violation("P8", key, "`%s` is bound by `if let Some(%s) = %s` in %s and never read: the cases of the clause are not told apart (neither compiled nor refused)" % (b, b, _show8(c8["e"], 40), f.qual), "src/%s:%d" % (f.file, n8["l"]))

    # ---------------- P9 a rule of a node has one input label per child
    rep.rule(
        "P9",
        "rewriting/rewriting_rule.rs: every row `RewritingRule::new(vec![inputs..], output, parameters)` built by RewritingRulesSetter::{table, map, reduce, join, set, values} has exactly as many input "
        "labels as the method has child parameters (`Arc<RelationWithRewritingRules>`): 0 / 1 / 1 / 2 / 2 / 0",
        floor=30,
        necessary="the eliminator and the selector read `rule.inputs()[0]` and `[1]` of a binary node: a Set row with one input makes every rewriting of a query with UNION panic "
        "(index out of bounds) as soon as synthetic data is provided",
    )
    from . import c02 as _c02

    class _Quiet:  # extract_rules reports unreadable rows under C02/T1; here they only fail to count
        def undecidable(self, *a, **k):
            pass

    rows9, setters9 = _c02.extract_rules(src8, _Quiet())
    for r in rows9:
        fn9 = [f for f in src8.find_fns(file=_c02.RR, trait_re=r"^SetRewritingRulesVisitor", self_ty_re=r"^RewritingRulesSetter") if f.name == r.kind][0]
        arity = sum(1 for p in fn9.params if not p.get("self") and "RelationWithRewritingRules" in (p.get("ty") or ""))
        key = "%s:[%s]->%s(%s)" % (r.kind, ",".join(r.inputs), r.output, r.params)
        rep.instance("P9", key, {"node": r.kind, "children": arity, "inputs": len(r.inputs)}, nontrivial=False)
        if len(r.inputs) != arity:
            rep.violation("P9", key, "a rule of RewritingRulesSetter::%s has %d input label(s) for a node with %d child(ren): the eliminator / selector index one label per child" % (r.kind, len(r.inputs), arity), "src/%s:%d" % (_c02.RR, r.node["l"]))

    # ---------------- P10 float images are brought back into the finite floats
    rep.rule(
        "P10",
        "data_type/function.rs: every closure given to a PartitionnedMonotonic constructor over a Float domain that computes with an operation able to leave the finite floats "
        "(+ - * /, exp, ln, log*, sqrt, powf, powi, cbrt, sinh, cosh, tan, recip, mul_add) ends with `.clamp(lo, <f64 as Bound>::max())`",
        floor=9,
        necessary="the image of an interval is computed at its corners: `0^-1`, `f64::MAX^2`, `MAX + MAX` are +inf, the next interval operation gives inf - inf = NaN, and Intervals::union_interval "
        "asserts min <= max: the DP rewriting of VARIANCE / STDDEV (sum(pow(..))) panics instead of answering",
    )
    from .canon import inline_value_helpers as _inl10, value_helpers as _vh10

    vh10 = _vh10(src8, "data_type/function.rs")
    UNBOUNDED_M = {"exp", "exp2", "exp_m1", "ln", "ln_1p", "log", "log2", "log10", "sqrt", "cbrt", "powf", "powi", "sinh", "cosh", "tan", "recip", "mul_add", "hypot"}
    per10 = {}
    for f in src8.fns:
        if f.file != "data_type/function.rs" or f.test or not f.body:
            continue
        for c in _find8(f.body, "call"):
            pth = "::".join((c["f"].get("segs") or [])) if c["f"]["k"] == "path" else ""
            if "PartitionnedMonotonic" not in pth or not c["args"]:
                continue
            dom10 = _show8(c["args"][0], 0)
            for hc in [x for x in _walk8(c["args"][0]) if x.get("k") == "call" and not x["args"] and x["f"]["k"] == "path" and len(x["f"]["segs"]) == 1]:
                # the pieces factored out into a private zero-argument helper (`float_quadrants()`): read its body for the element type
                dom10 += " ".join(_show8(h.body, 0) for h in src8.fns if h.file == "data_type/function.rs" and not h.self_ty and h.name == hc["f"]["segs"][0] and h.body)
            for hl in [x for x in _walk8(c["args"][0]) if x.get("k") == "path" and len(x["segs"]) == 1]:
                dom10 += " ".join(_show8(l_["init"], 0) for l_ in _find8(f.body, "let") if l_["pat"].get("k") == "ident" and l_["pat"]["name"] == hl["segs"][0] and l_.get("init") is not None)
            if "Float" not in dom10:
                continue
            for a in c["args"][1:]:
                if a["k"] != "closure":
                    continue
                a = _inl10(a, vh10)  # `|x, y| clamp_float(x + y)`: a one-expression private helper is the expression it names
                ops = [x for x in _walk8(a["body"]) if (x.get("k") == "binary" and x["op"].strip() in ("+", "-", "*", "/")) or (x.get("k") == "mcall" and x["m"] in UNBOUNDED_M)]
                if not ops:
                    continue
                tail = a["body"]
                while True:
                    if tail["k"] == "paren":
                        tail = tail["e"]
                    elif tail["k"] == "block" and tail["stmts"] and tail["stmts"][-1]["k"] == "expr" and not tail["stmts"][-1].get("semi"):
                        tail = tail["stmts"][-1]["e"]
                    else:
                        break
                n10 = per10[f.qual] = per10.get(f.qual, 0) + 1
                key = "%s@float-image%s" % (f.qual, "" if n10 == 1 else "#%d" % n10)
                hi = _show8(tail["args"][1], 0).replace(" ", "") if tail["k"] == "mcall" and tail["m"] == "clamp" and len(tail["args"]) == 2 else None
                ok = hi is not None and ("Bound>::max()" in hi or hi in ("f64::MAX", "std::f64::MAX", "core::f64::MAX"))
                rep.instance("P10", key, {"fn": f.qual, "operation": _show8(ops[0], 40), "clamped_to": hi})
                if not ok:
                    rep.violation("P10", key, "%s computes `%s` on floats and returns it without `.clamp(.., <f64 as Bound>::max())`: an infinite corner value becomes a NaN bound later" % (f.qual, _show8(ops[0], 40)), "src/%s:%d" % (f.file, a["l"]))

    # ---------------- P7 fallible images behind the Optional wrapper
    rep.rule(
        "P7",
        "range propagation is total: in the implementation tables of expr/implementation.rs (thread-local table and the default arm of `function`) every constructor `data_type::function::<f>()` "
        "whose result is registered WITHOUT `Optional::new(..)` is in the reviewed list, or the `super_image` of its concrete type cannot answer Err (no `Err(..)`, `?` or unwrap in the impl)",
        floor=8,
        necessary="Map::schema_exprs / Reduce::schema_aggregate unwrap `super_image`: an implementation that can refuse a set (nullable argument, value outside the domain) and is not wrapped turns "
        "`SELECT md5(nullable_col)` into a panic while the relation is built",
    )
    REVIEWED_UNWRAPPED = {
        "cast": "only CastAsText: every type converts to text (the other casts are wrapped)",
        "coalesce": "Coalesce computes the union of its arguments' types: total",
        "concat": "Pointwise over text(any): arguments are converted to text",
        "random": "nullary", "pi": "nullary", "newid": "nullary", "current_date": "nullary", "current_time": "nullary", "current_timestamp": "nullary",
    }
    from .core import Src as _Src7, find as _find7, show as _show7
    from . import facts as _facts7

    src7 = _Src7(_facts7.src_facts())
    seen_un = {}
    for name in ("expr::implementation::FUNCTION_IMPLEMENTATIONS::__rust_std_internal_init_fn", "expr::implementation::function"):
        b = mir.by_path.get(name)
        if b is None:
            rep.error("P7: anchor lost: %s" % name)
            continue
        ctor = {}
        for bl in b["blocks"]:
            t = bl["t"]
            if t[0] == "call" and isinstance(t[1], int) and t[3][1] == "":
                pth = mir.callees[t[1]]["path"]
                if pth.startswith("data_type::function::") and pth.count("::") == 2:
                    ctor[t[3][0]] = (pth.rsplit("::", 1)[-1], mir.types[b["locals"][t[3][0]]])
        for bl in b["blocks"]:
            t = bl["t"]
            if t[0] == "call" and isinstance(t[1], int) and t[2] and t[2][0][0] in ("m", "c") and t[2][0][1][0] in ctor:
                pth = mir.callees[t[1]]["path"]
                c, ty = ctor[t[2][0][1][0]]
                if "Optional" in pth:
                    seen_un.setdefault((c, ty), []).append("wrapped")
                elif "Arc" in pth:
                    seen_un.setdefault((c, ty), []).append("bare")
    n_bare = 0
    for (c, ty), how in sorted(seen_un.items()):
        nb = how.count("bare")
        if not nb:
            continue
        n_bare += 1
        key = "implementation|%s" % c
        total = None
        tname = ty.rsplit("::", 1)[-1].split("<")[0]
        impls = [f for f in src7.find_fns(name="super_image", file="data_type/function.rs") if (f.self_ty or "").split("<")[0] == tname and (f.trait or "").startswith("Function")]
        if len(impls) == 1:
            body = impls[0].body
            total = not list(_find7(body, "try")) and not any((x["k"] == "call" and (_show7(x["f"], 0) == "Err")) for x in _find7(body, "call")) and not any(x["m"] in ("unwrap", "expect") for x in _find7(body, "mcall"))
        rep.instance("P7", key, {"constructor": c, "type": ty, "registered_bare": nb, "wrapped": how.count("wrapped"), "reviewed": REVIEWED_UNWRAPPED.get(c), "super_image_total": total})
        if c in REVIEWED_UNWRAPPED and nb <= 1:
            continue
        if total is True:
            continue
        rep.violation("P7", key, "data_type::function::%s() (%s) is registered without the Optional wrapper%s and its super_image can answer Err: the unwrap in Map::schema_exprs panics" % (c, tname, " %d times" % nb if nb > 1 else ""), "src/expr/implementation.rs")
    if n_bare < 5:
        rep.error("P7: only %d bare registrations found (table not read?)" % n_bare)

    # ---------------- E1 / E2 dispatch exhaustiveness
    rep.rule(
        "E1",
        "expr::implementation::function and ::aggregate route no variant of expr::function::Function / expr::aggregate::Aggregate to unreachable!() "
        "(MIR switch facts: variants not listed in an explicit arm fall to the aborting default)",
        floor=2,
        necessary="Expr::super_image / the schema of any relation using that operator panics",
    )
    for fn, enum in (("expr::implementation::function", "expr::function::Function"), ("expr::implementation::aggregate", "expr::aggregate::Aggregate")):
        b = mir.by_path.get(fn)
        if not b:
            rep.error("anchor lost: %s" % fn)
            continue
        aborts = {bi for (bi, mac, line) in abort_calls(mir, b)}
        # blocks that lead to an abort through gotos only
        changed = True
        lead = set(aborts)
        while changed:
            changed = False
            for i, bl in enumerate(b["blocks"]):
                if i in lead:
                    continue
                t = bl["t"]
                if t[0] == "goto" and t[1] in lead and not bl["s"]:
                    lead.add(i)
                    changed = True
        variants = None
        handled = set()
        holes = set()
        sw = [bl["t"] for bl in b["blocks"] if bl["t"][0] == "switch" and bl["t"][4] == enum]
        if not sw:
            rep.error("no switch on %s in %s" % (enum, fn))
            continue
        variants = sw[0][5]
        # a variant is handled if some switch sends it to a non-aborting block; the default of the *last* switch is the hole
        for t in sw:
            for (v, tb) in t[2]:
                if tb not in lead:
                    handled.add(v)
        # variants never listed explicitly anywhere and the final default aborts
        final_default_aborts = any(t[3] in lead for t in sw)
        listed = {v for t in sw for (v, tb) in t[2]}
        for v in variants:
            if v in handled:
                continue
            # not handled explicitly: goes to a default; it is a hole if the chain of defaults ends in an abort
            if final_default_aborts:
                holes.add(v)
        rep.instance("E1", fn, {"fn": fn, "variants": len(variants), "handled": len(handled), "holes": sorted(holes)})
        for v in sorted(holes):
            rep.violation("E1", "%s|%s" % (fn, v), "variant %s::%s has no implementation: dispatch reaches unreachable!()" % (enum.rsplit("::", 1)[-1], v), "%s:%d" % (b["file"], b["line"]))
