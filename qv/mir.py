"""Helpers over the MIR facts: bodies, resolved call graph, reachability, block walks."""
import re
from collections import defaultdict, deque


class Mir:
    def __init__(self, doc):
        self.doc = doc
        self.bodies = doc["bodies"]
        self.callees = doc["callees"]
        self.types = doc["types"]
        self.trait_impls = doc["trait_impls"]
        self.by_path = {}
        for b in self.bodies:
            self.by_path.setdefault(b["path"], b)
        self._edges = None
        # closures defined (lexically) inside a body
        self.closures_of = defaultdict(list)
        for b in self.bodies:
            if b["kind"] == "Closure":
                self.closures_of[b["parent"]].append(b["path"])

    # ---------------------------------------------------------------- iteration
    def calls(self, body):
        """Yield (block_index, callee_dict_or_None, args, dest, target, line, macs, raw) for each call terminator."""
        for bi, bl in enumerate(body["blocks"]):
            t = bl["t"]
            if t[0] == "call":
                c = t[1]
                callee = self.callees[c] if isinstance(c, int) else None
                yield bi, callee, t[2], t[3], t[4], t[5], t[6], t

    def ty(self, body, local):
        return self.types[body["locals"][local]]

    # ---------------------------------------------------------------- call graph
    def edges(self):
        """caller path -> set of callee body paths (local bodies only), following
        resolved callees, every local impl of an unresolved trait method, closures
        *created* in the body (a closure created in a reachable body is assumed callable),
        and function items passed as values."""
        if self._edges is not None:
            return self._edges
        E = defaultdict(set)
        for b in self.bodies:
            p = b["path"]
            for bl in b["blocks"]:
                for st in bl["s"]:
                    rv = st[1]
                    if rv[0] == "agg" and rv[1].startswith("closure:"):
                        E[p].add(rv[1][len("closure:"):])
                    self._fn_consts(rv, E[p])
                t = bl["t"]
                if t[0] == "call":
                    c = t[1]
                    if isinstance(c, int):
                        cal = self.callees[c]
                        if cal["resolved"]:
                            if cal["local"]:
                                E[p].add(cal["path"])
                        else:
                            for imp in self.trait_impls.get(cal["orig"], []):
                                E[p].add(imp)
                            if cal["local"] and cal["path"] in self.by_path:
                                E[p].add(cal["path"])  # default method body
                    for a in t[2]:
                        if a[0] == "k" and isinstance(a[1], str) and a[1].startswith("fn:"):
                            E[p].add(a[1][3:])
        self._edges = E
        return E

    def _fn_consts(self, rv, acc):
        def visit(x):
            if isinstance(x, list):
                if len(x) >= 2 and x[0] == "k" and isinstance(x[1], str) and x[1].startswith("fn:"):
                    acc.add(x[1][3:])
                else:
                    for y in x:
                        visit(y)

        visit(rv)

    def reachable(self, roots, suppressed=None, stop=None):
        """BFS over edges(); returns {path: predecessor path or None}. `suppressed` is a set
        of (caller, callee) pairs that are not followed; `stop` a set of paths not expanded."""
        E = self.edges()
        suppressed = suppressed or set()
        stop = stop or set()
        seen = {}
        dq = deque()
        for r in roots:
            if r in self.by_path and r not in seen:
                seen[r] = None
                dq.append(r)
        while dq:
            p = dq.popleft()
            if p in stop:
                continue
            for q in sorted(E.get(p, ())):
                if (p, q) in suppressed:
                    continue
                if q in self.by_path and q not in seen:
                    seen[q] = p
                    dq.append(q)
        return seen

    def chain(self, seen, p, maxlen=12):
        out = [p]
        while seen.get(p) is not None and len(out) < maxlen:
            p = seen[p]
            out.append(p)
        return list(reversed(out))

    def find_bodies(self, regex):
        r = re.compile(regex)
        return [b for b in self.bodies if r.search(b["path"])]
