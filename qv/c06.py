"""C06 — range propagation is sound (claimed for the function table of data_type/function.rs).

Rules of DESIGN.md §3/C06:
  M   every closure given to PartitionnedMonotonic::{univariate, bivariate, piecewise_*, periodic_univariate, from_*} is
      monotone in each non-boolean coordinate separately on every declared piece, and the pieces cover the declared domain
      (abstract interpretation of the closure AST with the reviewed transfer table qv/c06_rules.py);
  P   the constructors themselves wire (domain, partition, value) as the argument assumes (added: the premise "pieces cover
      the set" lives in their partition closures);
  A   aggregate images hull the element set before arithmetic / use the list size with the right polarity;
  O2  super_image takes the least and the greatest value over all corners of every box;
  O   Optional / Extended fall back to the co-domain, Polymorphic maps unions and dispatches value and image alike,
      the expression visitors pass arguments in order.
P, A, O2, O are structural and live in qv/util_c06.py.
"""
import math

from . import facts
from .core import Src, Anchor, find, walk, show, path_of, is_call_to
from .c06_rules import Interp, Env, AV, C, I, D, S, N, U, INF, TABLE, periodic, _rs

LEVEL = "other"
EXHAUSTIVE = True

FN = "data_type/function.rs"
CTORS = {"univariate": 1, "bivariate": 2, "piecewise_univariate": 1, "piecewise_bivariate": 2, "periodic_univariate": 1, "from_intervals": None, "from_partitions": None}
PIECEWISE = ("piecewise_univariate", "piecewise_bivariate", "periodic_univariate", "from_partitions")
TYPES = ("Integer", "Float", "Boolean", "Text", "Date", "Time", "DateTime", "Duration", "Bytes")
NUMERIC = ("Integer", "Float")


class Undec(Exception):
    pass


def const_value(n):
    v = Interp(0).eval(n, Env([], [], {}))
    p = v.point()
    if p is None:
        raise Undec("bound `%s` does not fold to a numeric constant" % show(n, 60))
    return p


def parse_intervals(n):
    """`data_type::Float::from_min(0.0)` ... -> (element type, lo, hi); lo/hi None for a non-numeric type."""
    if n["k"] in ("ref",):
        return parse_intervals(n["e"])
    if n["k"] == "mcall" and n["m"] == "clone":
        return parse_intervals(n["recv"])
    if n["k"] != "call" or n["f"]["k"] != "path" or len(n["f"]["segs"]) < 2 or n["f"]["segs"][-2] not in TYPES:
        raise Undec("piece `%s` is not a literal Intervals constructor" % show(n, 60))
    ty, m, a = n["f"]["segs"][-2], n["f"]["segs"][-1], n["args"]
    num = ty in NUMERIC
    if m in ("default", "full") and not a:
        return (ty, -INF, INF) if num else (ty, None, None)
    if not num:
        raise Undec("piece `%s`: only the full domain is understood for %s" % (show(n, 60), ty))
    if m == "from_min" and len(a) == 1:
        return (ty, const_value(a[0]), INF)
    if m == "from_max" and len(a) == 1:
        return (ty, -INF, const_value(a[0]))
    if m == "from_interval" and len(a) == 2:
        return (ty, const_value(a[0]), const_value(a[1]))
    if m == "from_value" and len(a) == 1:
        v = const_value(a[0])
        return (ty, v, v)
    if m in ("from", "from_range") and len(a) == 1 and a[0]["k"] == "range":
        r = a[0]
        if r.get("hi") is not None and not r.get("incl"):
            raise Undec("piece `%s` is a half-open range (Intervals::from_range panics on it)" % show(n, 60))
        return (ty, -INF if r.get("lo") is None else const_value(r["lo"]), INF if r.get("hi") is None else const_value(r["hi"]))
    raise Undec("piece constructor `%s` is not understood" % show(n, 60))


def parse_box(n, arity):
    if arity == 1 and n["k"] != "tuple":
        return [parse_intervals(n)]
    if n["k"] == "tuple":
        return [parse_intervals(e) for e in n["elems"]]
    if n["k"] == "call" or n["k"] == "mcall":
        return [parse_intervals(n)]
    raise Undec("domain `%s` is not a tuple of Intervals" % show(n, 60))


def closure_params(c, ctor):
    ps = c["params"]
    if ctor in ("from_intervals", "from_partitions"):
        if len(ps) != 1:
            raise Undec("value closure of %s must take one tuple" % ctor)
        p = ps[0]["pat"] if ps[0]["k"] == "typed" else ps[0]
        ps = p["elems"] if p["k"] == "tuple" else [p]
    out = []
    for p in ps:
        if p["k"] == "typed":
            p = p["pat"]
        if p["k"] == "ident":
            out.append(p["name"])
        elif p["k"] == "wild":
            out.append(None)
        else:
            raise Undec("closure parameter pattern `%s`" % show(p, 40))
    return out


class Site:
    def __init__(self, fn, node, ctor):
        self.fn, self.node, self.ctor = fn, node, ctor
        self.where = "src/%s:%d" % (fn.file, node["l"])
        self.key = None
        self.types = None
        self.pieces = None
        self.err = None


def find_sites(src):
    sites = []
    for f in src.fns:
        if f.test or f.body is None:
            continue
        inside_impl = (f.self_ty or "").startswith("PartitionnedMonotonic")
        for n in find(f.body, "call"):
            p = n["f"]
            if p["k"] != "path" or len(p["segs"]) < 2 or p["segs"][-2] != "PartitionnedMonotonic":
                continue
            m = p["segs"][-1]
            if m in CTORS or (m == "new" and not inside_impl):
                sites.append(Site(f, n, m))
    return sites


def fn_key(f):
    if f.self_ty is None and f.file == FN:
        return "function::%s" % f.name
    return f.qual


HELPER_FNS = {}  # private free functions of data_type/function.rs, by name (filled by rule_m)
SRC = [None]  # the Src being read (set by rule_m)
VALUE_HELPERS = {}  # one-expression private helpers with parameters (canon.value_helpers), filled by rule_m / rule_s
from .canon import inline_value_helpers, value_helpers


def resolve(n, fn):
    """follow `let name = <init>;` of the enclosing function for an argument given by name (extracted closure / domain); a call `helper()` of a private
    zero-argument function of the file whose body is one expression (a table of pieces factored out) is read as that expression."""
    for _ in range(4):
        if n["k"] == "ref":
            n = n["e"]
            continue
        if n["k"] == "call" and not n["args"] and n["f"]["k"] == "path" and len(n["f"]["segs"]) == 1 and n["f"]["segs"][0] in HELPER_FNS:
            h = HELPER_FNS[n["f"]["segs"][0]]
            b = h.body
            while b["k"] == "block" and len(b["stmts"]) == 1 and b["stmts"][0]["k"] == "expr":
                b = b["stmts"][0]["e"]
            if b["k"] != "block":
                n = b
                continue
            break
        if n["k"] != "path" or len(n["segs"]) != 1:
            break
        lets = [x for x in find(fn.body, "let") if x["pat"]["k"] in ("ident", "typed") and (x["pat"] if x["pat"]["k"] == "ident" else x["pat"]["pat"]).get("name") == n["segs"][0] and x.get("init")]
        if len(lets) != 1:
            break
        n = lets[0]["init"]
    return n


def _imported_consts(fn, src):
    """bare names of std::f64::consts the function may use: `use std::f64::consts::{PI, TAU};` in its body or at the top of its file"""
    import re as _re
    from . import c06_rules as _r

    uses = [st["item"]["src"] for st in (fn.body.get("stmts", []) if fn.body else []) if st.get("k") == "item" and st["item"].get("k") == "use"]
    uses += [t[2]["src"] for t in src.items if t[0] == fn.file and isinstance(t[2], dict) and t[2].get("k") == "use"]
    out = set()
    for u in uses:
        u = u.replace(" ", "")
        if "f64::consts::" in u:
            out |= {x for x in _re.findall(r"[A-Z][A-Z_0-9]*", u.split("consts::", 1)[1]) if x in _r.CONSTS and x not in ("MAX", "MIN")}
    return out


def extract(site):
    n, ctor = site.node, site.ctor
    from . import c06_rules as _r

    _r.BARE_CONSTS.clear()
    _r.BARE_CONSTS.update(_imported_consts(site.fn, SRC[0]))
    if ctor == "new" or len(n["args"]) != 2:
        raise Undec("PartitionnedMonotonic::%s with an arbitrary partition closure" % ctor)
    arity = CTORS[ctor]
    dom = resolve(n["args"][0], site.fn)
    if ctor in PIECEWISE:
        if dom["k"] != "array":
            raise Undec("the pieces of %s are not an array literal: %s" % (ctor, show(dom, 60)))
        boxes = [parse_box(resolve(e, site.fn), arity or (len(e["elems"]) if e["k"] == "tuple" else 1)) for e in dom["elems"]]
    else:
        boxes = [parse_box(dom, arity or (len(dom["elems"]) if dom["k"] == "tuple" else 1))]
    if not boxes:
        raise Undec("no piece")
    types = [t for (t, _, _) in boxes[0]]
    for b in boxes:
        if [t for (t, _, _) in b] != types:
            raise Undec("pieces of different element types")
    site.types = types
    site.pieces = [[(lo, hi) for (_, lo, hi) in b] for b in boxes]
    site.closure = inline_value_helpers(resolve(n["args"][1], site.fn), VALUE_HELPERS)  # `|x, y| clamp_float(x + y)`: a one-expression private helper is the expression it names


# ---------------------------------------------------------------------------------------------------------------- cover


def cells(points):
    ps = sorted(set(points))
    out = []
    for i, p in enumerate(ps):
        if abs(p) != INF:
            out.append(("pt", p, p))
        if i + 1 < len(ps):
            out.append(("open", p, ps[i + 1]))
    return out


def cell_in(c, iv):
    lo, hi = iv
    return lo <= c[1] and c[2] <= hi


def uncovered(pieces):
    """Atomic cells of the declared domain (coordinate-wise union of the pieces, as from_partitions computes it) that lie in no piece."""
    k = len(pieces[0])
    axes = []
    for i in range(k):
        cs = cells([b[i][0] for b in pieces] + [b[i][1] for b in pieces])
        axes.append([c for c in cs if any(cell_in(c, b[i]) for b in pieces)])
    bad = []

    def rec(i, acc):
        if i == k:
            if not any(all(cell_in(acc[j], b[j]) for j in range(k)) for b in pieces):
                bad.append(list(acc))
            return
        for c in axes[i]:
            rec(i + 1, acc + [c])

    rec(0, [])
    return bad


def cell_str(c):
    return "{%g}" % c[1] if c[0] == "pt" else "(%g, %g)" % (c[1], c[2])


# ---------------------------------------------------------------------------------------------------------------- rule M


def analyse(site, piece):
    k = len(site.types)
    if site.closure["k"] == "path" and len(site.closure["segs"]) == 2 and site.closure["segs"][0] in ("f64", "f32", "i64", "i32", "u64", "bool", "str", "String") and site.ctor not in ("from_intervals", "from_partitions"):
        # a point-free method path `f64::max` / `i64::saturating_add` / `f64::ceil` is the closure |x0, ..| x0.method(x1, ..)
        l = site.closure.get("l", 0)
        ps = [{"k": "ident", "name": "x%d" % i, "l": l} for i in range(k)]
        site.closure = {
            "k": "closure",
            "l": l,
            "params": ps,
            "body": {"k": "mcall", "l": l, "m": site.closure["segs"][1], "recv": {"k": "path", "l": l, "p": "x0", "segs": ["x0"]}, "args": [{"k": "path", "l": l, "p": "x%d" % i, "segs": ["x%d" % i]} for i in range(1, k)]},
        }
    if site.closure["k"] != "closure":
        raise Undec("the value function `%s` is not a closure literal" % show(site.closure, 60))
    names = closure_params(site.closure, site.ctor)
    if len(names) != k:
        raise Undec("closure takes %d parameters for %d coordinates" % (len(names), k))
    it = Interp(k)
    regions, vars = [], {}
    for i, (nm, (lo, hi)) in enumerate(zip(names, piece)):
        reg = None if lo is None else (lo, hi, False, False)
        regions.append(reg)
        if nm is not None:
            vars[nm] = AV([I if j == i else C for j in range(k)], reg, i)
    return it.eval(site.closure["body"], Env(names, regions, vars))


def piece_str(site, piece):
    return " x ".join("%s%s" % (t, "" if lo is None else "[%g, %g]" % (lo, hi)) for t, (lo, hi) in zip(site.types, piece))


def rule_m(rep, src):
    SRC[0] = src
    VALUE_HELPERS.clear()
    VALUE_HELPERS.update(value_helpers(src, FN))
    HELPER_FNS.clear()
    HELPER_FNS.update({f.name: f for f in src.fns if f.file == FN and not f.self_ty and not f.test and f.body and not [p for p in f.params if not p.get("self")] and (f.node.get("vis") or "") != "pub"})
    rep.rule(
        "M",
        "every closure passed to a PartitionnedMonotonic constructor (outside tests) is, on every declared piece, monotone in each non-boolean coordinate for fixed others "
        "(classes Const/Inc/Dec/SepMono inferred with the reviewed transfer table qv/c06_rules.py); the pieces cover the declared domain; periodic sites tile exactly one period of a periodic closure",
        floor=60,
        necessary="super_image evaluates the closure only at the corners of each box: if the closure is not separately monotone on a piece, or a part of the domain is in no piece, "
        "an interior argument produces a value outside the hull of the corner values and the propagated range excludes it",
    )
    sites = find_sites(src)
    if not sites:
        raise Anchor("no PartitionnedMonotonic constructor call found outside tests")
    seen = {}
    table = []
    for s in sites:
        base = fn_key(s.fn)
        try:
            extract(s)
        except Undec as e:
            s.err = str(e)
        suffix = "[%s]" % ",".join(s.types) if s.types else "[?]"
        key = base + suffix
        seen[key] = seen.get(key, 0) + 1
        if seen[key] > 1:
            key += "#%d" % seen[key]
        s.key = key
        if s.err:
            rep.instance("M", key, {"site": key, "at": s.where, "undecided": s.err})
            rep.undecidable("M", key, s.err, s.where)
            continue
        exempt = [t == "Boolean" for t in s.types]
        row = {"site": key, "ctor": s.ctor, "at": s.where, "closure": show(s.closure, 100), "pieces": []}
        rep.instance("M", key, row, nontrivial=not all(exempt))
        table.append(row)
        if all(exempt):
            row["pieces"].append("all coordinates boolean: corners are all points (exempt)")
            continue
        for piece in s.pieces:
            ps = piece_str(s, piece)
            try:
                v = analyse(s, piece)
            except Undec as e:
                rep.undecidable("M", key, str(e), s.where)
                row["pieces"].append({"piece": ps, "undecided": str(e)})
                break
            row["pieces"].append({"piece": ps, "mono": list(v.mono)})
            for i, m in enumerate(v.mono):
                if exempt[i]:
                    continue
                why = "; ".join(dict.fromkeys(v.why)) or "no rule of the table concludes"
                if m == U:
                    rep.undecidable("M", key, "closure `%s` on piece %s, coordinate %d: %s" % (show(s.closure, 80), ps, i, why), s.where)
                elif m == N:
                    rep.violation("M", key, "closure `%s` is not shown monotone in coordinate %d on the declared piece %s: %s" % (show(s.closure, 80), i, ps, why), s.where)
        # cover
        if s.ctor in PIECEWISE and all(t in NUMERIC for t in s.types):
            bad = uncovered(s.pieces)
            if bad:
                rep.violation("M", key, "the declared pieces do not cover the declared domain (their coordinate-wise union): e.g. %s is in no piece" % " x ".join(cell_str(c) for c in bad[0]), s.where)
        elif s.ctor in PIECEWISE and len(s.pieces) > 1:
            rep.undecidable("M", key, "several pieces over a non-numeric element type", s.where)
        if s.ctor == "periodic_univariate":
            ivs = sorted(p[0] for p in s.pieces)
            lo, hi = ivs[0][0], max(p[1] for p in ivs)
            contiguous = all(abs(ivs[q][1] - ivs[q + 1][0]) < 1e-12 for q in range(len(ivs) - 1))
            names = closure_params(s.closure, s.ctor) if s.closure["k"] == "closure" else [None]
            per = periodic(s.closure["body"], names[0]) if s.closure["k"] == "closure" and names[0] else None
            row["period"] = {"declared": hi - lo, "closure": per}
            if abs(lo) == INF or abs(hi) == INF or not contiguous:
                rep.violation("M", key, "the pieces of a periodic function must be contiguous bounded intervals tiling one period", s.where)
            elif per is None:
                rep.undecidable("M", key, "cannot establish the period of the closure `%s`" % show(s.closure, 60), s.where)
            elif per != 0.0:
                q = (hi - lo) / per
                if abs(q - round(q)) > 1e-9 or round(q) < 1:
                    rep.violation("M", key, "the pieces span %.6g but the closure has period %.6g: f(x + span) != f(x), the shifted set is evaluated at the wrong phase" % (hi - lo, per), s.where)
    rep.extra["monotone_sites"] = table
    rep.extra["transfer_table"] = {k: "%s — %s" % v for k, v in sorted(TABLE.items())}
    return sites


def o3(rep, src):
    """DataType::flatten_optional: List(Optional(T)) -> Optional(List(T)).  The visitor carries a flag "an Optional was found below".
    The flag component is computed with the symbolic evaluator (util_symex), so destructuring, named locals and early returns are transparent."""
    from .core import find, walk, show, path_of, pat_binds
    from .util_symex import Ev, desugar_returns

    rep.rule(
        "O3",
        "FlattenOptionalVisitor: the flag 'an Optional was found below' returned by every method is the disjunction (||) of the flags of ALL its children (true for `optional`, false only for `primitive`); "
        "flatten_optional wraps the flattened type in Optional exactly when the flag is set",
        floor=8,
        necessary="function::Optional::super_image relies on flatten_optional to make the image of a list / struct of nullable values nullable: a dropped flag declares a NULL-able result non-nullable",
    )
    fns = {f.name: f for f in src.find_fns(file="data_type/mod.rs", self_ty="FlattenOptionalVisitor") if (f.trait or "").startswith("Visitor")}
    if len(fns) < 8:
        rep.undecidable("O3", "FlattenOptionalVisitor", "impl Visitor<(bool, DataType)> for FlattenOptionalVisitor not found (methods: %s)" % sorted(fns), "src/data_type/mod.rs")
        return

    def first(t):
        """flag component of a (flag, type) term"""
        if t[0] == "tuple" and len(t[1]) == 2:
            return t[1][0]
        if t[0] == "phi":
            return ("phi", tuple(first(x) for x in t[1]))
        return ("tproj", 0, t)

    def simp(t):
        """reduce `.0` / `.1` (field or positional projection) on literal tuple terms"""
        if not isinstance(t, tuple):
            return t
        if t and t[0] == "field" and len(t) == 3 and isinstance(t[1], tuple):
            b = simp(t[1])
            if b[0] == "tuple" and str(t[2]).isdigit() and int(t[2]) < len(b[1]):
                return simp(b[1][int(t[2])])
            return ("field", b, t[2])
        if t and t[0] == "tproj" and len(t) == 3 and isinstance(t[2], tuple):
            b = simp(t[2])
            if b[0] == "tuple" and t[1] < len(b[1]):
                return simp(b[1][t[1]])
            return ("tproj", t[1], b)
        return tuple(simp(x) if isinstance(x, tuple) else x for x in t)

    def disj(t):
        """atoms of a pure disjunction, None when another connective occurs"""
        t = simp(t)
        if t[0] == "bin" and t[1] in ("||", "|"):
            a, b = disj(t[2]), disj(t[3])
            return None if a is None or b is None else a | b
        if t[0] == "bin" and t[1] in ("&&", "&"):
            return None
        if t[0] == "phi":
            return None
        return {t}

    for nm, f in sorted(fns.items()):
        key = "FlattenOptionalVisitor::" + nm
        ev = Ev()
        env, child_flags, vec_param = {}, [], None
        for p_ in f.params:
            if p_.get("self"):
                continue
            ty = p_["ty"].replace(" ", "")
            pn = pat_binds(p_["pat"])
            if ty == "(bool,DataType)":
                fl = ("var", "flag(%s)" % (pn[0] if pn else "?"))
                ev.bind(p_["pat"], ("tuple", (fl, ("var", "type(%s)" % (pn[0] if pn else "?")))), env)
                child_flags.append(fl)
            elif ty.startswith("Vec<") and "(bool,DataType)" in ty:
                ev.bind(p_["pat"], ("var", "$children"), env)
                vec_param = pn[0] if pn else None
            else:
                ev.bind(p_["pat"], ("var", "$other"), env)
        tail = desugar_returns(f.body)
        folds = [m for m in find(tail, "mcall") if m["m"] == "fold" and len(m["args"]) == 2 and m["args"][1]["k"] == "closure"]
        if vec_param is not None:
            # the flag is folded over the children: evaluate the step on a symbolic accumulator and element
            if len(folds) != 1:
                rep.undecidable("O3", key, "the children are not folded once: %s" % show(f.body, 120), f.where())
                continue
            fo = folds[0]
            init = ev.eval(fo["args"][0], dict(env))
            cl = fo["args"][1]
            e2 = dict(env)
            acc = ("tuple", (("var", "flag(acc)"), ("var", "type(acc)")))
            el = ("tuple", (("var", "$name"), ("tuple", (("var", "flag(child)"), ("var", "type(child)")))))
            if len(cl["params"]) != 2:
                rep.undecidable("O3", key, "fold step with %d parameters" % len(cl["params"]), f.where())
                continue
            ev.bind(cl["params"][0], acc, e2)
            ev.bind(cl["params"][1], el, e2)
            body = desugar_returns(cl["body"]) if cl["body"]["k"] == "block" else cl["body"]
            step = ev.block(body, e2) if body["k"] == "block" else ev.eval(body, e2)
            flag, want = simp(first(step)), {("var", "flag(acc)"), ("var", "flag(child)")}
            rep.instance("O3", key, {"method": nm, "children_flags": ["flag(acc)", "flag(child)"], "flag": repr(flag)[:120]})
            if simp(first(init)) != ("lit", False):
                rep.violation("O3", key, "the fold over the children does not start from the flag `false`", f.where())
            got = disj(flag)
            if got is None or not want <= got or (got - want):
                rep.violation("O3", key, "the flag `%s` does not take the disjunction of all children flags (flag(acc), flag(child))" % (repr(flag)[:80]), f.where())
            continue
        res = ev.block(tail, env)
        flag = simp(first(res))
        rep.instance("O3", key, {"method": nm, "children_flags": [c[1] for c in child_flags], "flag": repr(flag)[:120]})
        if nm == "optional":
            if flag != ("lit", True):
                rep.violation("O3", key, "`optional` must report that an Optional was found (flag true), found `%s`" % (repr(flag)[:60]), f.where())
            continue
        if not child_flags:
            if flag != ("lit", False):
                rep.violation("O3", key, "a node without children reports the flag `%s`" % (repr(flag)[:60]), f.where())
            continue
        got = disj(flag)
        if got is None or not set(child_flags) <= got or (got - set(child_flags)):
            rep.violation("O3", key, "the flag `%s` does not take the disjunction of all children flags (%s)" % (repr(flag)[:80], ", ".join(c[1] for c in child_flags)), f.where())
    # flatten_optional itself: Optional(flat) exactly under the flag
    g = src.one_fn(name="flatten_optional", file="data_type/mod.rs", self_ty="DataType")
    body = desugar_returns(g.body)
    ifs = [x for x in find(body, "if")]
    ok = False
    if len(ifs) == 1:
        c = ifs[0]["cond"]
        neg = False
        while c["k"] == "unary" and c["op"].strip() == "!":
            c, neg = c["e"], not neg
        th, el = ifs[0]["then"], ifs[0].get("else") or {"k": "block", "stmts": []}
        if neg:
            th, el = el, th
        ok = any(is_call_to(x, "DataType::optional") for x in find(th, "call")) and not any(is_call_to(x, "DataType::optional") for x in find(el, "call"))
    rep.instance("O3", "DataType::flatten_optional", {"body": show(g.body, 140)})
    if not ok:
        rep.violation("O3", "DataType::flatten_optional", "flatten_optional does not wrap the flattened type in Optional exactly when the flag is set", g.where())


SIBLING_EXCEPTIONS = {
    "cast": "each arm converts from another source type (integer -> float, float -> integer): different operations by design",
    "extract_epoch": "each arm starts from another temporal type (Duration, Date, DateTime) and needs another conversion to seconds",
}


def rule_s(rep, src):
    """Sibling implementations of one SQL function (one PartitionnedMonotonic per argument type) compute the same operator."""
    import re

    rep.rule(
        "S",
        "sibling agreement: within one `pub fn <name>()` of data_type/function.rs, the closures given to the PartitionnedMonotonic constructors of the different argument types are the same operator "
        "after normalising saturating_*/clamp (reviewed exceptions: cast, extract_epoch)",
        floor=10,
        necessary="an arm that computes another operator (max in one arm of `least`) is monotone, so its range is 'sound' for the wrong function: the value and the range of the SQL function disagree for that argument type",
    )

    SAT = {"saturating_add": "+", "saturating_sub": "-", "saturating_mul": "*", "saturating_div": "/", "wrapping_add": "+", "wrapping_sub": "-", "wrapping_mul": "*"}

    def simp(e):
        """AST normal form: single-expression blocks and parentheses removed, `.clamp(..)` stripped, saturating_x(a, b) -> a x b."""
        while True:
            if e["k"] == "block" and len(e["stmts"]) == 1 and e["stmts"][0]["k"] == "expr" and not e["stmts"][0].get("semi"):
                e = e["stmts"][0]["e"]
            elif e["k"] == "paren":
                e = e["e"]
            elif e["k"] == "mcall" and e["m"] == "clamp":
                e = e["recv"]
            else:
                break
        if e["k"] == "mcall" and e["m"] in SAT and len(e["args"]) == 1:
            return {"k": "binary", "op": SAT[e["m"]], "lhs": simp(e["recv"]), "rhs": simp(e["args"][0]), "l": e.get("l", 0)}
        if e["k"] == "binary":
            return dict(e, lhs=simp(e["lhs"]), rhs=simp(e["rhs"]))
        if e["k"] == "mcall":
            return dict(e, recv=simp(e["recv"]), args=[simp(a) for a in e["args"]])
        return e

    def norm(cl):
        t = show(simp(cl["body"]), 0)
        ps = [p.get("name") or show(p, 0) for p in cl["params"]]
        for i, p in enumerate(ps):
            t = re.sub(r"\b%s\b" % re.escape(p), "p%d" % i, t)
        return t.replace(" ", "").replace("(", "").replace(")", "")

    vh = value_helpers(src, "data_type/function.rs")
    for f in src.find_fns(file="data_type/function.rs"):
        if f.self_ty or f.node.get("vis") != "pub":
            continue
        cls = []
        for c in find(f.body, "call"):
            p = path_of(c["f"]) or ""
            if p.startswith("PartitionnedMonotonic::"):
                cls += [norm(inline_value_helpers(a, vh)) for a in c["args"] if a["k"] == "closure"]
        if len(cls) < 2:
            continue
        key = "function::" + f.name
        u = sorted(set(cls))
        rep.instance("S", key, {"fn": f.name, "arms": len(cls), "operators": u, "exception": SIBLING_EXCEPTIONS.get(f.name)}, nontrivial=f.name not in SIBLING_EXCEPTIONS)
        if len(u) > 1 and f.name not in SIBLING_EXCEPTIONS:
            rep.violation("S", key, "the arms of %s compute different operators: %s" % (f.name, u), f.where())


def rule_t(rep, src):
    """Products of interval sets (the domains and partitions of multivariate functions) are combined coordinate by coordinate."""
    import re as _re

    rep.rule(
        "T",
        "data_type/product.rs, `impl IntervalsProduct for Term<Intervals<B>, Next>`: `union` / `intersection` return Term::from_value_next(self.value OP other.value, self.next.OP(&other.next)) "
        "- the same operation on the head coordinate and, recursively, on the tail (clones and borrows aside)",
        floor=2,
        necessary="the partition of a bivariate function is `set ∩ piece` computed with this intersection: if the tail coordinate is not intersected, x / y with y in [-2, 3] is treated as monotone across the "
        "pole y = 0 and only its corners are evaluated ([1,2] / [-2,3] typed [-1, 0.667])",
    )
    PF = "data_type/product.rs"
    fs = [f for f in src.find_fns(file=PF) if (f.self_ty or "").replace(" ", "").startswith("Term<Intervals<B>,Next>") and (f.trait or "").startswith("IntervalsProduct") and f.name in ("union", "intersection")]
    if len(fs) != 2:
        raise Anchor("impl IntervalsProduct for Term<Intervals<B>, Next>::{union, intersection}: found %d" % len(fs))
    norm = lambda e: _re.sub(r"\.clone\(\)|&|\s", "", show(e, 0))
    from .canon import canon_view

    for f0 in fs:
        f = canon_view(f0, src, helpers=False)  # `let head = ..; let tail = ..; Term::from_value_next(head, tail)` is read through
        key = "Term<Intervals<B>, Next>::%s" % f.name
        other = [p["pat"]["name"] for p in f.params if not p.get("self")]
        t = f.body
        while t["k"] == "block" and len(t["stmts"]) == 1 and t["stmts"][0]["k"] == "expr":
            t = t["stmts"][0]["e"]
        ok = False
        got = show(t, 120)
        if t["k"] == "call" and (path_of(t["f"]) or "").split("::")[-1] == "from_value_next" and len(t["args"]) == 2 and other:
            o = other[0]
            a, b = norm(t["args"][0]), norm(t["args"][1])
            ok = a in ("self.value.%s(%s.value)" % (f.name, o), "%s.value.%s(self.value)" % (o, f.name)) and b in ("self.next.%s(%s.next)" % (f.name, o), "%s.next.%s(self.next)" % (o, f.name))
        rep.instance("T", key, {"fn": f.name, "returns": got})
        if not ok:
            rep.violation("T", key, "%s of a product is not the coordinate-wise %s of head and tail: %s" % (f.name, f.name, got), f.where())


def rule_d(rep, src):
    """Domain guard of the two `super_image`s that compute a range from the set: Pointwise and PartitionnedMonotonic."""
    from .core import walk_guards, path_of, find
    from .util_terms import desugar_early_returns

    rep.rule(
        "D",
        "`impl Function for Pointwise / PartitionnedMonotonic`::super_image answer Ok(range) only for a set inside the function's domain: the set is converted with "
        "`set.into_data_type(&self.domain())?` and then either (a) the Ok result is conditioned on `converted_set.is_subset_of(&self.domain())` (inline, or through the private "
        "`checked_image(set, image)` whose Ok is so conditioned), or (b) the conversion itself is the guard, which it is only while the injections refuse an image outside their "
        "co-domain (C12/J2 d-f: super_image -> intervals_image -> checked_image, both ends tested, identity included).  Neither (a) nor (b) is a violation; one of the two is enough",
        floor=2,
        necessary="a partitioned function clips the set to its pieces: outside the domain (ln on [-1, 1]) the value function answers an error, i.e. NULL behind the Optional wrapper, "
        "while the clipped image is returned as if it were the image of the whole set - not optional; only the Err of super_image makes the wrapper fall back on option(co_domain)",
    )
    FN = "data_type/function.rs"
    indirect = None
    for ty in ("Pointwise", "PartitionnedMonotonic"):
        fs = [f for f in src.find_fns(name="super_image", file=FN) if (f.self_ty or "").startswith(ty) and (f.trait or "").startswith("Function")]
        key = "%s::super_image" % ty
        if len(fs) != 1:
            rep.undecidable("D", key, "expected one `impl Function for %s`::super_image, found %d" % (ty, len(fs)), "src/" + FN)
            continue
        f = fs[0]
        setp = [p["pat"]["name"] for p in f.params if not p.get("self")][0]
        conv = None
        for st in f.body["stmts"]:
            if st["k"] == "let" and st["pat"]["k"] == "ident" and st.get("init") is not None:
                t = show(st["init"], 0).replace(" ", "")
                if t in ("&%s.into_data_type(&self.domain())?" % setp, "%s.into_data_type(&self.domain())?" % setp):
                    conv = st["pat"]["name"]
        body = desugar_early_returns(f.body)
        oks = [(x, g) for x, g in walk_guards(body, into_closures=False) if x["k"] == "call" and path_of(x["f"]) == "Ok"]
        direct = False
        how = None

        def guarded(guards, var, recv="self"):
            for g in guards:
                if g[0] != "if":
                    continue
                c, pol = g[1], g[2]
                while c["k"] == "unary" and c["op"] == "!":
                    c, pol = c["e"], not pol
                if pol and show(c, 0).replace(" ", "") == "%s.is_subset_of(&%s.domain())" % (var, recv):
                    return True
            return False

        if conv is not None:
            if oks and all(guarded(g, conv) for _, g in oks):
                direct, how = True, "inline test"
            else:
                tail = body["stmts"][-1]["e"] if body["stmts"] and body["stmts"][-1]["k"] == "expr" else None
                if tail is not None and tail["k"] == "mcall" and path_of(tail["recv"]) == "self" and tail["args"] and path_of(tail["args"][0]) == conv and not oks:
                    hs = [h for h in src.find_fns(name=tail["m"], file=FN) if (h.self_ty or "").startswith(ty) and not h.trait]
                    if len(hs) == 1:
                        hp = [p["pat"]["name"] for p in hs[0].params if not p.get("self")]
                        hoks = [(x, g) for x, g in walk_guards(desugar_early_returns(hs[0].body), into_closures=False) if x["k"] == "call" and path_of(x["f"]) == "Ok"]
                        if hp and hoks and all(guarded(g, hp[0]) for _, g in hoks):
                            direct, how = True, "through self.%s" % tail["m"]
        rep.instance("D", key, {"impl": ty, "converted_set": conv, "direct_guard": how})
        if conv is None:
            rep.violation("D", key, "%s::super_image does not convert its argument with `%s.into_data_type(&self.domain())?`: a set of another variant (or outside the domain) is not refused" % (ty, setp), f.where())
            continue
        if direct:
            continue
        if indirect is None:
            from . import c12
            from .core import Report

            scratch = Report("C12", "quick")
            try:
                c12.j2(scratch, src, c12.impl_pairs(src))
                from .core import load_known, msg_sig

                # the recorded C12/J2 findings (X -> Text answers Text::full() unchecked) are not counted: the full Text type lies outside a *restricted* text
                # domain only, and the partitioned / pointwise functions on Text are declared on the full type (rule M reads their domains)
                listed = {(k["rule"], k["key"]): k for k in load_known()["findings"] if k["property"] == "C12"}
                indirect = [
                    "%s: %s" % (v["key"], v["msg"][:160])
                    for v in scratch.violations
                    if (v["key"].startswith("Base::checked_image") or v["key"].startswith("Base::intervals_image") or v["key"].endswith("::super_image"))
                    and not (("J2", v["key"]) in listed and listed[("J2", v["key"])].get("msg_sig") in (None, msg_sig(v["msg"])))
                ]
            except Exception as e:
                indirect = ["the injection guards cannot be read (%s)" % e]
        if indirect:
            rep.violation(
                "D",
                key,
                "%s::super_image no longer tests `%s.is_subset_of(&self.domain())` and the conversion it relies on instead does not refuse images outside the co-domain (%d injection guard(s) missing, e.g. %s)"
                % (ty, conv, len(indirect), indirect[0]),
                f.where(),
            )


def run(rep):
    from . import util_c06 as u

    rep.explanation = (
        "Static proof over the function table of data_type/function.rs (syn AST of the current tree). Decides, for every PartitionnedMonotonic constructor call, that the closure is "
        "separately monotone on each declared piece and that the pieces cover the domain (M, abstract interpretation with a reviewed transfer table), that the constructors wire partition "
        "and value as assumed (P), that aggregate images hull the element set and use the list size with the right polarity (A), that super_image hulls all corners of every box (O2), and that "
        "the Optional/Extended/Polymorphic wrappers and the expression visitors are conservative (O). Does NOT decide: numeric adequacy of hand-written aggregate bounds (std/var), floating-point "
        "rounding inside the corner evaluation, which implementation Polymorphic selects for a value versus its set beyond the shared iteration order, exactness of Pointwise (it runs the closure)."
    )
    src = Src(facts.src_facts())
    rule_m(rep, src)
    u.rule_p(rep, src)
    u.rule_a(rep, src)
    u.rule_o2(rep, src)
    u.rule_o(rep, src)
    rule_s(rep, src)
    o3(rep, src)
    rule_d(rep, src)
    rule_t(rep, src)
    from .util_enum import n1

    n1(rep, src)
    rep.assume("closures are pure functions of their parameters (no interior mutability): an expression that mentions no parameter is a constant")
    rep.assume("f64::MIN/MAX and i64::MIN/MAX are the ends of the abstract line: saturation/clamping at them is monotone; NaN and rounding are out of scope")
    rep.assume("division at a divisor range touching 0 is reported (pole); the panic it also causes is C18's")
