"""Builder-term extractor shared by C01 and C09.

Two layers, both purely syntactic over the syn facts (nothing is executed):

* `builder_table(src)` — the constructor table of `Expr::<snake>(..)` builders, read from the
  `impl_*_function_constructors!` / `impl_aggregation_constructors!` invocations of expr/mod.rs
  (snake name -> (Function variant, arity)), plus the hand-written `Expr::divide`, whose body is
  checked to be `case(|r| >= EPSILON, Function::Divide(l, r), 0)`.
* `Interp` — a small symbolic evaluator of Rust function bodies for the idioms the DP rewriting is
  written in: lets with shadowing, tuple patterns, iterator chains over slices of tuples
  (`iter/copied/map/zip/collect/fold`), `HashMap` collected from pairs and indexed, `format!` names,
  `vec!`/`push`/`extend`, `if`/`match` with assignments to outer variables, closures, builder calls.
  Locals are identified by binding, never by name; values are hashable tuples:

    ("num", Fraction) ("bool", b) ("str", pieces) ("p", name) ("e", coll, i) ("tup", vals)
    ("seq", elem) ("list", vals) ("cat", parts) ("map", key, val)
    ("app", name, args)          any other call / operator (receiver first)
    ("x", Variant, args)         an `Expr::…` builder node; ("x","val",(v,)) / ("x","col",(name,))
    ("clo", idx) ("ite", c, a, b) ("match", scrut, ((keys, v), …)) ("fold", seq, init, body, id) ("acc", id)
    ("proj", v, i) ("opaque", kind, line)

  `("e", coll, i)` is component i of *the generic element* of the collection parameter `coll`
  (i = None for scalar elements): provenance through tuple shuffles is positional.
The normaliser that compares extracted terms with specification terms is in util_algebra.py.
"""
import re
from fractions import Fraction

from .core import Anchor, show, strip_generics

TRANSPARENT = {
    "clone", "cloned", "copied", "iter", "into_iter", "as_str", "to_string", "to_owned", "into", "as_slice",
    "as_ref", "deref", "to_vec", "borrow", "by_ref", "iter_mut", "as_mut",
}
PAIR_CTORS = {"DpRelation::new"}
UNIT = ("tup", ())


def snake(name):
    s = re.sub(r"(?<=[a-z0-9])(?=[A-Z])", "_", name)
    s = re.sub(r"(?<=[A-Z])(?=[A-Z][a-z])", "_", s)
    return s.lower()


def builder_table(src):
    """snake constructor name -> (Variant, arity or None for n-ary / aggregate)."""
    arity = {"nullary": 0, "unary": 1, "binary": 2, "ternary": 3, "quaternary": 4, "nary": None}
    table = {}
    seen = 0
    for (_f, _m, it) in src.find_items("macro", file="expr/mod.rs"):
        m = re.match(r"impl_(\w+)_function_constructors$", it.get("name") or "")
        if m and m.group(1) in arity and "args" in it:
            seen += 1
            for a in it["args"]:
                if a["k"] == "path" and len(a["segs"]) == 1:
                    table[snake(a["segs"][0])] = (a["segs"][0], arity[m.group(1)])
        elif it.get("name") == "impl_aggregation_constructors" and "args" in it:
            for a in it["args"]:
                if a["k"] == "path" and len(a["segs"]) == 1:
                    table[snake(a["segs"][0])] = (a["segs"][0], 1)
    if seen < 4:
        raise Anchor("impl_*_function_constructors! invocations not found in expr/mod.rs")
    for nm in ("val", "col"):
        if not src.find_fns(name=nm, self_ty="Expr", file="expr/mod.rs"):
            raise Anchor("Expr::%s not found" % nm)
    return table


def check_divide(src, table):
    """`Expr::divide(l, r)` must denote l / r guarded only against a (near-)zero denominator.
    Returns (ok, description)."""
    fd = src.one_fn(name="divide", self_ty="Function", file="expr/mod.rs")
    ed = src.one_fn(name="divide", self_ty="Expr", file="expr/mod.rs")
    it = Interp(src, table, file="expr/mod.rs")
    v = it.run_fn(fd)
    l, r = ("p", _pname(fd, 0)), ("p", _pname(fd, 1))
    ok1 = (
        v[0] == "app" and v[1] == "Function::new" and len(v[2]) == 2 and v[2][0] == ("p", "function::Function::Divide")
        and tuple(x[2][0] if x[0] == "app" and x[1] == "Arc::new" and len(x[2]) == 1 else x for x in (elems_of(v[2][1]) or ())) == (l, r)
    )
    it = Interp(src, table, file="expr/mod.rs")
    w = it.run_fn(ed)
    l, r = ("p", _pname(ed, 0)), ("p", _pname(ed, 1))
    eps = ("x", "val", (("p", "EPSILON"),))
    div = ("app", "Expr::from", (("app", "Function::divide", (l, r)),))
    want = ("x", "Case", (("x", "Or", (("x", "GtEq", (r, eps)), ("x", "LtEq", (r, ("app", "neg", (eps,)))))), div, ("x", "val", (num(0),))))
    def _from(t):  # `Expr::Function(f)` is what `Expr::from(f)` builds (impl From<Function> for Expr)
        if isinstance(t, tuple):
            if len(t) == 3 and t[0] == "app" and t[1] == "Expr::Function" and len(t[2]) == 1:
                return ("app", "Expr::from", (_from(t[2][0]),))
            return tuple(_from(x) for x in t)
        return t

    w = _from(w)
    ok2 = w == want and not it.returns  # an early `return` is another value of divide(l, r): the guarded quotient must be the only one
    desc = {"Function::divide": fmt(v), "Expr::divide": fmt(w)}
    if it.returns:
        desc["Expr::divide early returns"] = [fmt(x)[:200] for x in it.returns]
    return ok1 and ok2, desc


def _pname(fn, i):
    ps = [p for p in fn.params if not p.get("self")]
    return ps[i]["pat"]["name"]


def num(x):
    return ("num", Fraction(x))


def elems_of(v):
    """Elements of a literal list value (vec!/array/boxed slice), else None."""
    if v[0] == "list":
        return v[1]
    if v[0] == "app" and v[1] in ("into_vec", "<[_]>::into_vec", "Box::new") and len(v[2]) == 1:
        return elems_of(v[2][0])
    return None


def _ends_in_return(block):
    """`{ stmts; return X; }` -> (leading stmts, X) ; None otherwise."""
    if block is None or block.get("k") != "block" or not block["stmts"]:
        return None
    last = block["stmts"][-1]
    if last["k"] == "expr" and last["e"]["k"] == "return" and last["e"].get("e") is not None:
        return block["stmts"][:-1], last["e"]["e"]
    return None


def desugar_early_returns(block):
    """Body of a closure / function: `if c { ..; return a; } rest` (no else) == `if c { ..; a } else { rest }`, recursively;
    a trailing `return x;` is the value x.  Only statements of the top-level block are rewritten."""
    if block is None or block.get("k") != "block":
        return block
    stmts = block["stmts"]
    for i, st in enumerate(stmts):
        if st["k"] == "expr" and st["e"]["k"] == "if" and not st["e"].get("else") and st["e"]["cond"].get("k") != "letcond":
            r = _ends_in_return(st["e"]["then"])
            if r is not None and i < len(stmts) - 1:
                lead, val = r
                then_b = dict(st["e"]["then"], stmts=lead + [{"k": "expr", "e": val, "semi": False, "l": val.get("l", 0)}])
                rest = desugar_early_returns(dict(block, stmts=stmts[i + 1 :]))
                new_if = dict(st["e"], then=then_b)
                new_if["else"] = rest
                return dict(block, stmts=stmts[:i] + [{"k": "expr", "e": new_if, "semi": False, "l": st.get("l", 0)}])
    if stmts and stmts[-1]["k"] == "expr" and stmts[-1]["e"]["k"] == "return" and stmts[-1]["e"].get("e") is not None:
        return dict(block, stmts=stmts[:-1] + [{"k": "expr", "e": stmts[-1]["e"]["e"], "semi": False, "l": stmts[-1].get("l", 0)}])
    return block


class Env:
    def __init__(self, parent=None, branch=False):
        self.vars = {}
        self.parent = parent
        self.branch = branch
        self.over = {}

    def get(self, name):
        e = self
        while e is not None:
            if name in e.vars:
                return e.vars[name]
            if e.branch and name in e.over:
                return e.over[name]
            e = e.parent
        return None

    def let(self, name, v):
        self.vars[name] = v

    def assign(self, name, v):
        e = self
        while e is not None:
            if name in e.vars:
                e.vars[name] = v
                return
            if e.branch:
                e.over[name] = v
                return
            if e.parent is None:
                e.vars[name] = v
                return
            e = e.parent


def param_value(name, ty):
    """Initial symbolic value of a parameter from its declared type."""
    t = ty.replace(" ", "")
    m = re.match(r"^&?(?:mut)?(?:\[(.*)\]|Vec<(.*)>)$", t)
    if m:
        inner = m.group(1) if m.group(1) is not None else m.group(2)
        if inner.startswith("(") and inner.endswith(")"):
            depth, n = 0, 1
            for ch in inner[1:-1]:
                if ch in "(<[":
                    depth += 1
                elif ch in ")>]":
                    depth -= 1
                elif ch == "," and depth == 0:
                    n += 1
            return ("seq", ("tup", tuple(("e", name, i) for i in range(n))))
        return ("seq", ("e", name, None))
    return ("p", name)


class Interp:
    def __init__(self, src, builders, file=None, stop=(), inline_depth=2):
        self.src = src
        self.builders = builders
        self.file = file
        self.stop = set(stop)
        self.inline_depth = inline_depth
        self.closures = []
        self.returns = []  # values of `return e`
        self.lookups = []  # (map key value, looked-up key) for every HashMap index / get
        self.used_builders = set()
        self.unknown = []  # (description, line) constructs evaluated to an opaque value
        self.nfold = 0
        self.depth = 0
        self.params = []

    # ------------------------------------------------------------------ entry
    def run_fn(self, fn, args=None):
        env = Env()
        self.self_ty = strip_generics(fn.self_ty) if getattr(fn, "self_ty", None) else None  # `Self::f(..)` inside `impl T` is `T::f(..)`
        self.params = []
        i = 0
        for p in fn.params:
            if p.get("self"):
                env.let("self", ("p", "self"))
                self.params.append(("p", "self"))
                continue
            pat = p["pat"]
            nm = pat.get("name") if pat["k"] == "ident" else None
            v = args[i] if args is not None and i < len(args) else (param_value(nm, p["ty"]) if nm else ("opaque", "param", fn.line))
            i += 1
            self.params.append(v)
            self.bind(pat, v, env)
        return self.block(fn.body, env)

    # ------------------------------------------------------------------ patterns
    def bind(self, pat, v, env):
        k = pat["k"]
        if k == "ident":
            env.let(pat["name"], v)
            if pat.get("sub"):
                self.bind(pat["sub"], v, env)
        elif k == "tuple":
            for i, p in enumerate(pat["elems"]):
                self.bind(p, self.proj(v, i), env)
        elif k in ("ref", "typed"):
            self.bind(pat["pat"], v, env)
        elif k == "tuplestruct":
            pn = pat["path"]["p"]
            for i, p in enumerate(pat["elems"]):
                if len(pat["elems"]) == 1 and pn in ("Some", "Ok"):
                    self.bind(p, self.payload(pn, v), env)
                else:
                    self.bind(p, ("app", "field%d" % i, (("app", "as:" + pn, (v,)),)), env)
        elif k == "struct":
            for f in pat.get("fields", []):
                self.bind(f["pat"], ("app", "." + f["name"], (v,)), env)
        # wild, rest, lit, path, or, slice: nothing bound (or not supported: names stay free)

    def payload(self, ctor, v):
        if v[0] == "app" and v[1] == ctor and len(v[2]) == 1:
            return v[2][0]
        return ("app", "payload:" + ctor, (v,))

    def proj(self, v, i):
        if v[0] == "tup":
            return v[1][i] if i < len(v[1]) else ("opaque", "proj", 0)
        if v[0] == "ite":
            return ite(v[1], self.proj(v[2], i), self.proj(v[3], i))
        if v[0] == "match":
            return ("match", v[1], tuple((k, self.proj(x, i)) for k, x in v[2]))
        if v[0] == "app" and v[1] in PAIR_CTORS and len(v[2]) == 2:
            return v[2][i]
        return ("proj", v, i)

    # ------------------------------------------------------------------ statements
    def block(self, b, env, new_scope=True):
        if b is None:
            return UNIT
        if b["k"] != "block":
            return self.eval(b, env)
        e = Env(env) if new_scope else env
        val = UNIT
        stmts = b["stmts"]
        for i, s in enumerate(stmts):
            if s["k"] == "let":
                v = self.eval(s["init"], e) if s.get("init") is not None else ("opaque", "uninit", s["l"])
                ty = (s.get("ty") or "").replace(" ", "")
                if s["pat"]["k"] == "typed":
                    ty = s["pat"]["ty"].replace(" ", "")
                v = self.as_type(v, ty)
                self.bind(s["pat"], v, e)
            elif s["k"] == "expr":
                v = self.eval(s["e"], e)
                if not s.get("semi") and i == len(stmts) - 1:
                    val = v
            # items: ignored
        return val

    def as_type(self, v, ty):
        if ty.startswith("HashMap<") or ty.startswith("BTreeMap<"):
            if v[0] == "seq" and v[1][0] == "tup" and len(v[1][1]) == 2:
                return ("map", v[1][1][0], v[1][1][1])
            if v == ("app", "HashMap::new", ()):
                return v
        return v

    # ------------------------------------------------------------------ expressions
    def eval(self, n, env):
        k = n["k"]
        f = getattr(self, "e_" + k, None)
        if f is None:
            self.unknown.append((k, n.get("l", 0)))
            return ("opaque", k, n.get("l", 0))
        return f(n, env)

    def e_lit(self, n, env):
        t = n["t"]
        if t in ("int", "float"):
            s = str(n["v"]).replace("_", "")
            if s.endswith("."):
                s += "0"
            try:
                return ("num", Fraction(s))
            except (ValueError, ZeroDivisionError):
                return ("p", "lit:" + s)
        if t == "str":
            return ("str", (n["v"],))
        if t == "bool":
            return ("bool", bool(n["v"]))
        return ("p", "lit:" + str(n.get("v")))

    def e_path(self, n, env):
        if len(n["segs"]) == 1:
            v = env.get(n["segs"][0])
            if v is not None:
                return v
        return ("p", strip_generics(n["p"]))

    def e_block(self, n, env):
        return self.block(n, env)

    def e_expr(self, n, env):
        return self.eval(n["e"], env)

    def e_tuple(self, n, env):
        return ("tup", tuple(self.eval(x, env) for x in n["elems"]))

    def e_array(self, n, env):
        return ("list", tuple(self.eval(x, env) for x in n["elems"]))

    def e_ref(self, n, env):
        return self.eval(n["e"], env)

    def e_try(self, n, env):
        return self.eval(n["e"], env)

    def e_unary(self, n, env):
        v = self.eval(n["e"], env)
        if n["op"] == "*":
            return v
        if n["op"] == "-":
            if v[0] == "num":
                return ("num", -v[1])
            return ("app", "neg", (v,))
        return ("app", "not", (v,))

    def e_cast(self, n, env):
        return ("app", "as " + n["ty"].replace(" ", ""), (self.eval(n["e"], env),))

    def e_field(self, n, env):
        v = self.eval(n["e"], env)
        if n["name"].isdigit():
            return self.proj(v, int(n["name"]))
        return ("app", "." + n["name"], (v,))

    def e_binary(self, n, env):
        op = n["op"]
        if op.endswith("=") and op not in ("==", "!=", "<=", ">="):
            r = self.eval(n["rhs"], env)
            if n["lhs"]["k"] == "path" and len(n["lhs"]["segs"]) == 1:
                nm = n["lhs"]["segs"][0]
                env.assign(nm, ("app", op[:-1], (env.get(nm) or ("p", nm), r)))
            return UNIT
        return ("app", op, (self.eval(n["lhs"], env), self.eval(n["rhs"], env)))

    def e_assign(self, n, env):
        r = self.eval(n["rhs"], env)
        self.assign_pat(n["lhs"], r, env)
        return UNIT

    def assign_pat(self, lhs, v, env):
        if lhs["k"] == "path" and len(lhs["segs"]) == 1:
            env.assign(lhs["segs"][0], v)
        elif lhs["k"] == "tuple":
            for i, x in enumerate(lhs["elems"]):
                self.assign_pat(x, self.proj(v, i), env)
        else:
            self.unknown.append(("assignment to " + show(lhs, 40), lhs.get("l", 0)))

    def e_index(self, n, env):
        c = self.eval(n["e"], env)
        i = self.eval(n["i"], env)
        if c[0] == "map":
            self.lookups.append((c[1], i))
            return c[2]
        return ("app", "index", (c, i))

    def e_closure(self, n, env):
        self.closures.append((n, env))
        return ("clo", len(self.closures) - 1)

    def e_return(self, n, env):
        self.returns.append(self.eval(n["e"], env) if n.get("e") is not None else UNIT)
        return ("app", "diverge", ())

    def e_struct(self, n, env):
        fs = tuple((f["name"], self.eval(f["e"], env)) for f in n.get("fields", []) if "e" in f)
        return ("app", "struct:" + n["path"]["p"], tuple(x for _, x in fs))

    def e_letcond(self, n, env):
        v = self.eval(n["e"], env)
        mg = getattr(self, "map_gets", {}).get(id(v))
        pat = n["pat"]
        if mg is not None and mg[0] is v and pat["k"] == "tuplestruct" and pat["path"]["segs"][-1:] == ["Some"] and len(pat["elems"]) == 1:
            self.bind(pat["elems"][0], v[2][0], env)
            return ("app", "contains", (("seq", mg[1]), mg[2]))
        self.bind(n["pat"], v, env)
        return ("app", "iflet:" + show(n["pat"], 40), (v,))

    def e_macro(self, n, env):
        nm = n["name"]
        args = n.get("args")
        if nm == "format" and args and args[0]["k"] == "lit" and args[0]["t"] == "str":
            vals = [self.eval(a, env) for a in args[1:]]
            parts = re.split(r"(\{[^{}]*\})", args[0]["v"])
            out, vi = [], 0
            for p in parts:
                if p.startswith("{") and p.endswith("}"):
                    inner = p[1:-1].split(":")[0]
                    if inner == "" and vi < len(vals):
                        out.append(vals[vi])
                        vi += 1
                    elif inner and env.get(inner) is not None:
                        out.append(env.get(inner))
                    else:
                        out.append(("opaque", "fmtarg", n["l"]))
                elif p:
                    out.append(p)
            return mkstr(out)
        if nm == "vec":
            if args is not None:
                return ("list", tuple(self.eval(a, env) for a in args))
            return ("opaque", "vec", n["l"])
        if nm in ("todo", "unimplemented", "unreachable", "panic"):
            return ("app", "diverge", ())
        if nm in ("assert", "assert_eq", "debug_assert", "warn", "info", "debug", "trace", "error", "println", "eprintln"):
            if args and nm.startswith("assert"):
                return ("app", "assert", tuple(self.eval(a, env) for a in args[:2]))
            return UNIT
        self.unknown.append(("macro " + nm, n["l"]))
        return ("opaque", "macro:" + nm, n["l"])

    def e_if(self, n, env):
        ce = Env(env)
        c = self.eval(n["cond"], ce)
        te = Env(ce, branch=True)
        a = self.block(n["then"], te)
        ee = Env(env, branch=True)
        b = self.eval(n["else"], ee) if n.get("else") else UNIT
        for nm in sorted(set(te.over) | set(ee.over)):
            old = env.get(nm) or ("p", nm)
            env.assign(nm, ite(c, te.over.get(nm, old), ee.over.get(nm, old)))
        if c == ("bool", True):
            return a
        if c == ("bool", False):
            return b
        return ite(c, a, b)

    def e_match(self, n, env):
        s = self.eval(n["e"], env)
        mg = getattr(self, "map_gets", {}).get(id(s))
        if mg is not None and mg[0] is s and len(n["arms"]) == 2 and not any(a.get("guard") for a in n["arms"]):
            # `match m.get(k) { Some(p) => A, None => B }` reads as `if m.contains_key(k) { let p = m[k]; A } else { B }` (like the if-let form)
            some = [a for a in n["arms"] if a["pat"]["k"] == "tuplestruct" and a["pat"]["path"]["segs"][-1:] == ["Some"] and len(a["pat"]["elems"]) == 1]
            none = [a for a in n["arms"] if a not in some and (a["pat"]["k"] == "wild" or (a["pat"]["k"] in ("path", "ident") and show(a["pat"], 0).strip() == "None"))]
            if len(some) == 1 and len(none) == 1:
                c = ("app", "contains", (("seq", mg[1]), mg[2]))
                te = Env(env, branch=True)
                self.bind(some[0]["pat"]["elems"][0], s[2][0], te)
                a = self.eval(some[0]["body"], te)
                ee = Env(env, branch=True)
                b = self.eval(none[0]["body"], ee)
                for nm in sorted(set(te.over) | set(ee.over)):
                    old = env.get(nm) or ("p", nm)
                    env.assign(nm, ite(c, te.over.get(nm, old), ee.over.get(nm, old)))
                return ite(c, a, b)
        arms = []
        overs = []
        for a in n["arms"]:
            ae = Env(env, branch=True)
            self.bind_match_pat(a["pat"], s, ae)
            v = self.eval(a["body"], ae)
            arms.append((pat_keys(a["pat"]) + (("if " + show(a["guard"], 60),) if a.get("guard") else ()), v))
            overs.append(ae.over)
        names = sorted(set(x for o in overs for x in o))
        for nm in names:
            old = env.get(nm) or ("p", nm)
            env.assign(nm, ("match", s, tuple((arms[i][0], overs[i].get(nm, old)) for i in range(len(arms)))))
        return ("match", s, tuple(arms))

    def bind_match_pat(self, pat, s, env):
        if pat["k"] == "or":
            return
        self.bind(pat, s, env)

    def e_for(self, n, env):
        """`for x in xs { acc = f(acc, x) }` is the fold `xs.fold(acc, |acc, x| f(acc, x))`: loop-carried variables become fold terms
        (first pass finds which variables the body assigns, second pass evaluates the body with them bound to the accumulator)."""
        seq = self.eval(n["e"], env)
        probe = Env(env, branch=True)
        self.bind(n["pat"], elem_of(seq), probe)
        saved_unknown = list(self.unknown)
        self.block(n["body"], probe)
        carried = sorted(probe.over)
        if elem_of(seq) is None or not carried:
            for nm, v in probe.over.items():
                env.assign(nm, ("app", "foreach", (seq, v)))
            return UNIT
        self.unknown = saved_unknown
        le = Env(env, branch=True)
        self.bind(n["pat"], elem_of(seq), le)
        fids = {}
        for nm in carried:
            self.nfold += 1
            fids[nm] = self.nfold
            le.let(nm, ("acc", fids[nm]))
        self.block(n["body"], le)
        for nm in carried:
            init = env.get(nm) or ("p", nm)
            body = le.vars.get(nm, ("acc", fids[nm]))
            env.assign(nm, ("fold", seq, init, body, fids[nm]))
        return UNIT

    def e_while(self, n, env):
        self.unknown.append(("while loop", n["l"]))
        return ("opaque", "while", n["l"])

    e_loop = e_while

    def e_call(self, n, env):
        args = tuple(self.eval(a, env) for a in n["args"])
        f = n["f"]
        if f["k"] != "path":
            fv = self.eval(f, env)
            if fv[0] == "clo":
                return self.apply(fv, args)
            return ("app", "call", (fv,) + args)
        p = strip_generics(f["p"])
        segs = p.split("::")
        if len(segs) >= 2 and segs[0] == "Self" and getattr(self, "self_ty", None) and "::" not in self.self_ty and "<" not in self.self_ty:
            segs[0] = self.self_ty
            p = "::".join(segs)
        if len(segs) == 1:
            fv = env.get(segs[0])
            if fv is not None:
                if fv[0] == "clo":
                    return self.apply(fv, args)
                return ("app", "call", (fv,) + args)
        if len(segs) >= 2 and segs[-2] == "Expr":
            nm = segs[-1]
            if nm in ("val", "col") and len(args) == 1:
                self.used_builders.add(nm)
                return ("x", nm, args)
            if nm == "divide" and len(args) == 2:
                self.used_builders.add(nm)
                return ("x", "Divide", args)
            if nm in self.builders and (self.builders[nm][1] is None or self.builders[nm][1] == len(args)):
                self.used_builders.add(nm)
                return ("x", self.builders[nm][0], args)
        if p in ("f64::max", "f64::min", "f64::abs", "f64::sqrt", "f64::from") and args:
            return ("app", segs[-1], args)
        inl = self.try_inline(segs[-1], None, args, segs)
        if inl is not None:
            return inl
        return ("app", p, args)

    def e_mcall(self, n, env):
        m = n["m"]
        r = self.eval(n["recv"], env)
        # mutations of a local collection
        if m in ("push", "extend", "insert") and n["recv"]["k"] == "path" and len(n["recv"]["segs"]) == 1:
            args = tuple(self.eval(a, env) for a in n["args"])
            nm = n["recv"]["segs"][0]
            if m == "push" and len(args) == 1:
                env.assign(nm, cat(r, ("list", (args[0],))))
                return UNIT
            if m == "extend" and len(args) == 1:
                env.assign(nm, cat(r, args[0]))
                return UNIT
        if m in TRANSPARENT and not n["args"]:
            return r
        if m == "collect" and not n["args"]:
            tf = (n.get("turbofish") or "").replace(" ", "").lstrip(":").lstrip("<")
            return self.as_type(r, tf)
        if m == "map" and len(n["args"]) == 1 and n["args"][0]["k"] == "path" and len(n["args"][0]["segs"]) >= 2 and n["args"][0]["segs"][0] not in ("self",):
            # point-free `.map(Expr::from)` == `.map(|x| Expr::from(x))`
            fpath = n["args"][0]
            synth = {"k": "closure", "l": n.get("l", 0), "params": [{"k": "ident", "name": "%pf", "l": 0}],
                     "body": {"k": "call", "l": n.get("l", 0), "f": fpath, "args": [{"k": "path", "p": "%pf", "segs": ["%pf"], "l": 0}]}}
            mapped = self.map_seq(r, self.e_closure(synth, env))
            if mapped is not None:
                return mapped
        args = tuple(self.eval(a, env) for a in n["args"])
        if m == "map" and len(args) == 1 and args[0][0] == "clo":
            mapped = self.map_seq(r, args[0])
            if mapped is not None:
                return mapped
        if m == "zip" and len(args) == 1:
            a, b = elem_of(r), elem_of(args[0])
            if a is not None and b is not None:
                return ("seq", ("tup", (a, b)))
        if m == "chain" and len(args) == 1:
            return cat(r, args[0])
        if m == "fold" and len(args) == 2 and args[1][0] == "clo":
            el = elem_of(r)
            if el is not None:
                self.nfold += 1
                fid = self.nfold
                body = self.apply(args[1], (("acc", fid), el))
                return ("fold", r, args[0], body, fid)
        if r[0] == "map":
            if m == "keys" and not args:
                return ("seq", r[1])
            if m == "values" and not args:
                return ("seq", r[2])
            if m == "contains_key" and len(args) == 1:
                return ("app", "contains", (("seq", r[1]), args[0]))
            if m == "get" and len(args) == 1:
                self.lookups.append((r[1], args[0]))
                out = ("app", "Some", (r[2],))
                # remembered so that `if let Some(p) = m.get(k)` reads as `if m.contains_key(k) { let p = m[k]; .. }`
                self.map_gets = getattr(self, "map_gets", {})
                self.map_gets[id(out)] = (out, r[1], args[0])
                return out
        if m == "contains" and len(args) == 1:
            return ("app", "contains", (r, args[0]))
        if m == "unwrap" and not args and r[0] == "app" and r[1] in ("Some", "Ok") and len(r[2]) == 1:
            return r[2][0]
        if m == "name" and not args:
            # `<rel>.schema().field(c).unwrap().name()` / `<schema>[c].name()`: the name of the field looked up by name c
            x = r
            if x[0] == "app" and x[1] == "unwrap" and len(x[2]) == 1:
                x = x[2][0]
            if x[0] == "app" and x[1] == "field" and len(x[2]) == 2 and x[2][0][0] == "app" and x[2][0][1] == "schema":
                return x[2][1]
        inl = self.try_inline(m, r, args, None)
        if inl is not None:
            return inl
        return ("app", m, (r,) + args)

    # ------------------------------------------------------------------ closures, sequences, inlining
    def apply(self, clo, args):
        node, env = self.closures[clo[1]]
        ce = Env(env)
        for i, p in enumerate(node["params"]):
            self.bind(p, args[i] if i < len(args) else ("opaque", "arg", node["l"]), ce)
        return self.block(desugar_early_returns(node["body"]), ce) if node["body"]["k"] == "block" else self.eval(node["body"], ce)

    def map_seq(self, s, clo):
        if s[0] == "seq":
            return ("seq", self.apply(clo, (s[1],)))
        if s[0] == "list":
            return ("list", tuple(self.apply(clo, (x,)) for x in s[1]))
        if s[0] == "cat":
            parts = [self.map_seq(x, clo) for x in s[1]]
            if all(p is not None for p in parts):
                return ("cat", tuple(parts))
        if s[0] == "map":
            return ("seq", self.apply(clo, (("tup", (s[1], s[2])),)))
        if s[0] in ("app", "p", "proj") and s != ("app", "HashMap::new", ()):
            # an opaque collection (`self.group_by()`, `x.fields()`): its generic element is elem(<collection>)
            return ("seq", self.apply(clo, (("app", "elem", (s,)),)))
        return None

    def try_inline(self, name, recv, args, segs):
        if self.file is None or self.depth >= self.inline_depth or name in self.stop:
            return None
        cands = [f for f in self.src.find_fns(name=name, file=self.file) if f.body is not None and not f.trait]
        has_self = recv is not None
        cands = [f for f in cands if bool(f.params and f.params[0].get("self")) == has_self and len([p for p in f.params if not p.get("self")]) == len(args)]
        if len(cands) != 1:
            return None
        if segs is not None and len(segs) >= 2 and cands[0].self_ty and strip_generics(cands[0].self_ty) != segs[-2] and segs[-2] != "Self":
            return None
        if segs is not None and len(segs) == 1 and cands[0].self_ty:
            return None
        fn = cands[0]
        self.depth += 1
        saved_self_ty = getattr(self, "self_ty", None)
        self.self_ty = strip_generics(fn.self_ty) if fn.self_ty else saved_self_ty
        try:
            env = Env()
            i = 0
            for p in fn.params:
                if p.get("self"):
                    env.let("self", recv)
                else:
                    self.bind(p["pat"], args[i], env)
                    i += 1
            nret = len(self.returns)
            v = self.block(fn.body, env)
            if len(self.returns) > nret:  # early returns inside a helper: do not inline
                del self.returns[nret:]
                return None
            return v
        finally:
            self.depth -= 1
            self.self_ty = saved_self_ty


def pat_keys(pat):
    """Variant names matched by a match-arm pattern: ('Sum',) / ('Min','Max') / ('_',)."""
    k = pat["k"]
    if k == "or":
        out = ()
        for c in pat["cases"]:
            out += pat_keys(c)
        return out
    if k == "path":
        return (pat["segs"][-1],)
    if k in ("tuplestruct", "struct"):
        return (pat["path"]["segs"][-1],)
    if k in ("wild", "ident"):
        return ("_",)
    if k == "ref":
        return pat_keys(pat["pat"])
    return (show(pat, 40),)


def ite(c, a, b):
    if a == b:
        return a
    # `if !c { a } else { b }` is `if c { b } else { a }`: one normal form for the matchers
    while isinstance(c, tuple) and len(c) == 3 and c[0] == "app" and c[1] == "not" and len(c[2]) == 1:
        c, a, b = c[2][0], b, a
    return ("ite", c, a, b)


def mkstr(parts):
    out = []
    for p in parts:
        if isinstance(p, tuple) and p[0] == "str":
            ps = list(p[1])
        else:
            ps = [p]
        for q in ps:
            if isinstance(q, str) and out and isinstance(out[-1], str):
                out[-1] += q
            else:
                out.append(q)
    return ("str", tuple(out))


def cat(a, b):
    parts = []
    for x in (a, b):
        if x[0] == "cat":
            parts += list(x[1])
        elif x[0] == "list" and not x[1]:
            continue
        elif x[0] == "list" and parts and parts[-1][0] == "list":
            parts[-1] = ("list", parts[-1][1] + x[1])
        else:
            parts.append(x)
    if not parts:
        return ("list", ())
    if len(parts) == 1:
        return parts[0]
    return ("cat", tuple(parts))


def elem_of(s):
    if s[0] == "seq":
        return s[1]
    if s[0] == "map":
        return ("tup", (s[1], s[2]))
    if s[0] == "list" and len(s[1]) == 1:
        return s[1][0]
    if s[0] in ("p", "app", "proj", "list", "cat", "fold", "match", "ite"):
        return ("app", "elem", (s,))
    return None


def parts_of(s):
    """A collection value as a list of parts (`cat` flattened)."""
    return list(s[1]) if s[0] == "cat" else [s]


TAGS = {"num", "bool", "str", "p", "e", "tup", "seq", "list", "cat", "map", "app", "x", "clo", "ite", "match", "fold", "acc", "proj", "opaque"}


def subterms(v):
    """All sub-values of v (pre-order), v included."""
    stack = [v]
    while stack:
        x = stack.pop()
        if not isinstance(x, tuple) or not x:
            continue
        if isinstance(x[0], str) and x[0] in TAGS:
            yield x
            stack.extend(reversed(x[1:]))
        else:
            stack.extend(reversed(x))


def apps(v, name):
    return [x for x in subterms(v) if x[0] == "app" and x[1] == name]


def chain(v):
    """Builder chain `base.m1(a..).m2(b..)` -> (base, {method: [args tuple, ...]}) (order-insensitive view)."""
    calls = {}
    while v[0] == "app" and v[2] and not v[1].startswith("struct:") and "::" not in v[1]:
        calls.setdefault(v[1], []).append(v[2][1:])
        v = v[2][0]
    return v, calls


def fmt(v, depth=0):
    """Compact rendering of a value for messages and evidence."""
    if not isinstance(v, tuple) or not v:
        return str(v)
    k = v[0]
    if depth > 12:
        return "…"
    f = lambda x: fmt(x, depth + 1)
    if k == "num":
        return str(v[1])
    if k == "bool":
        return "true" if v[1] else "false"
    if k == "str":
        return '"' + "".join(p if isinstance(p, str) else "{" + f(p) + "}" for p in v[1]) + '"'
    if k == "p":
        return v[1]
    if k == "e":
        return "%s[i]%s" % (v[1], "" if v[2] is None else ".%d" % v[2])
    if k == "tup":
        return "(" + ", ".join(f(x) for x in v[1]) + ")"
    if k == "seq":
        return "[" + f(v[1]) + " …]"
    if k == "list":
        return "[" + ", ".join(f(x) for x in v[1]) + "]"
    if k == "cat":
        return " ++ ".join(f(x) for x in v[1])
    if k == "map":
        return "{" + f(v[1]) + ": " + f(v[2]) + " …}"
    if k == "app":
        if len(v[2]) == 2 and not v[1][:1].isalpha() and not v[1].startswith("."):
            return "(%s %s %s)" % (f(v[2][0]), v[1], f(v[2][1]))
        if v[1].startswith(".") and len(v[2]) == 1:
            return f(v[2][0]) + v[1]
        return "%s(%s)" % (v[1], ", ".join(f(x) for x in v[2]))
    if k == "x":
        if v[1] == "val":
            return f(v[2][0])
        if v[1] == "col":
            return "col(" + f(v[2][0]) + ")"
        return "%s(%s)" % (v[1], ", ".join(f(x) for x in v[2]))
    if k == "clo":
        return "<closure#%d>" % v[1]
    if k == "ite":
        return "if %s {%s} else {%s}" % (f(v[1]), f(v[2]), f(v[3]))
    if k == "match":
        return "match %s {%s}" % (f(v[1]), "; ".join("|".join(ks) + " => " + f(x) for ks, x in v[2]))
    if k == "fold":
        return "fold#%d(%s, init=%s, step=%s)" % (v[4], f(v[1]), f(v[2]), f(v[3]))
    if k == "acc":
        return "acc#%d" % v[1]
    if k == "proj":
        return "%s.%d" % (f(v[1]), v[2])
    if k == "opaque":
        return "<?%s@%s>" % (v[1], v[2])
    return str(v)
