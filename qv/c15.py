"""C15 — name resolution: exact match first, then the *unique* suffix match, never an arbitrary candidate.

Rules H1, H2 of DESIGN.md §3/C15 plus H3 (added): everything is carried by four small pieces of hierarchy.rs:
the fold of `Hierarchy::get_key_value` over the private enum `Found` (a three-state counter), `From<Found<T>> for Option<T>`,
the `or_else` chain exact-lookup -> suffix-search, and the 5-line predicate `is_suffix_of`.
The fold closure and the `From` impl are *simulated* on the three abstract states, so the rule is about the transition table,
not about the way it is written (if/else nesting, arm order, binding names are free).
"""
import re

from . import facts
from .core import Src, Anchor, find, walk, show, path_of, is_call_to, pat_binds

LEVEL = "other"
EXHAUSTIVE = True
HF = "hierarchy.rs"
STATES = ["Zero", "One", "More"]


class Undecided(Exception):
    pass


def tail_expr(block):
    """The value expression of a block / expression (a block must be `{ <expr> }` with optional leading lets that we refuse)."""
    n = block
    while n["k"] == "block":
        st = n["stmts"]
        if len(st) != 1 or st[0]["k"] != "expr" or st[0].get("semi"):
            raise Undecided("block with statements: %s" % show(n, 80))
        n = st[0]["e"]
    return n


def found_variant(p):
    """`Found::X` / `Self::X` / bare `X` path -> X."""
    if p is None:
        return None
    segs = p.get("segs") or []
    if segs and segs[-1] in STATES and (len(segs) == 1 or segs[-2] in ("Found", "Self")):
        return segs[-1]
    return None


def pat_state(p, state):
    """Does pattern p match abstract state?  -> (bool, payload_binding or None)"""
    k = p["k"]
    if k == "wild":
        return True, None
    if k == "ident":
        if found_variant({"segs": [p["name"]]}):
            return p["name"] == state, None
        return True, None
    if k == "path":
        v = found_variant(p)
        if v is None:
            raise Undecided("pattern %s" % show(p))
        return v == state, None
    if k == "tuplestruct":
        v = found_variant(p["path"])
        if v is None:
            raise Undecided("pattern %s" % show(p))
        if v != state:
            return False, None
        binds = pat_binds(p)
        return True, (binds[0] if len(binds) == 1 and len(p["elems"]) == 1 and p["elems"][0]["k"] == "ident" else "?")
    if k == "or":
        for c in p["cases"]:
            m, b = pat_state(c, state)
            if m:
                return True, b
        return False, None
    if k == "ref":
        return pat_state(p["pat"], state)
    raise Undecided("pattern %s" % show(p))


class FoldSim:
    """Abstract evaluation of the fold closure `|acc, entry| body` for (state of acc, predicate value)."""

    def __init__(self, closure, pred_name, path_param):
        ps = closure["params"]
        if len(ps) != 2 or ps[0]["k"] != "ident":
            raise Undecided("fold closure parameters %s" % show(ps))
        self.acc = ps[0]["name"]
        self.entry = set(pat_binds(ps[1]))
        self.body = closure["body"]
        self.pred_name = pred_name
        self.path_param = path_param
        self.pred_sites = []
        self.aliases = set()

    def is_pred(self, c):
        """cond is `is_suffix_of(path, key)` (either order: the predicate is symmetric) -> polarity, else None."""
        pol = True
        while c["k"] == "unary" and c["op"] == "!":
            pol = not pol
            c = c["e"]
        while c["k"] == "paren":
            c = c["e"]
        if is_call_to(c, self.pred_name) and len(c["args"]) == 2:
            names = set()
            for a in c["args"]:
                for x in walk(a):
                    if x["k"] == "path" and len(x["segs"]) == 1:
                        names.add(x["segs"][0])
            if self.path_param in names and (names & self.entry):
                self.pred_sites.append(c)
                return pol
            raise Undecided("suffix predicate not applied to (lookup path, entry key): %s" % show(c))
        return None

    def eval(self, e, state, match, payload_var=None):
        e = tail_expr(e)
        k = e["k"]
        if k == "if":
            pol = self.is_pred(e["cond"])
            if pol is None:
                raise Undecided("condition %s" % show(e["cond"], 80))
            take_then = (match == pol)
            if take_then:
                return self.eval(e["then"], state, match, payload_var)
            if not e.get("else"):
                raise Undecided("if without else in the fold")
            return self.eval(e["else"], state, match, payload_var)
        if k == "match":
            s = e["e"]
            if path_of(s) != self.acc:
                raise Undecided("match on %s" % show(s, 60))
            for a in e["arms"]:
                if a.get("guard"):
                    pol = self.is_pred(a["guard"])
                    if pol is None:
                        raise Undecided("arm guard %s" % show(a["guard"], 60))
                    if pol != match:
                        continue
                m, b = pat_state(a["pat"], state)
                if m:
                    if a["pat"]["k"] == "ident" and not found_variant({"segs": [a["pat"]["name"]]}):
                        self.aliases.add(a["pat"]["name"])  # `other => other` re-binds the accumulator
                    return self.eval(a["body"], state, match, b if b else payload_var)
            raise Undecided("no arm for state %s" % state)
        if k == "path":
            if e["p"] == self.acc or e["p"] in self.aliases:
                return (state, "previous" if state == "One" else None)
            v = found_variant(e)
            if v in ("Zero", "More"):
                return (v, None)
            raise Undecided("result %s" % show(e))
        if k == "call":
            v = found_variant(e["f"]) if e["f"]["k"] == "path" else None
            if v == "One" and len(e["args"]) == 1:
                names = set(x["segs"][0] for x in walk(e["args"][0]) if x["k"] == "path" and len(x["segs"]) == 1)
                if names & self.entry and not (payload_var and payload_var in names):
                    return ("One", "current")
                if payload_var and payload_var in names and not (names & self.entry):
                    return ("One", "previous")
                raise Undecided("payload of %s" % show(e))
            raise Undecided("result %s" % show(e, 60))
        raise Undecided("expression %s" % show(e, 60))


def h1(rep, src, gkv, fold, pred_name):
    rep.rule(
        "H1",
        "ambiguity is absorbing: the fold of Hierarchy::get_key_value starts at Found::Zero over every entry of the map; on an entry that matches the suffix predicate the accumulator goes "
        "Zero -> One(this entry), One -> More, More -> More; on a non-matching entry it is unchanged; `From<Found<T>> for Option<T>` maps One(t) to Some(t) and Zero, More to None "
        "(transition table obtained by simulating the closure / the impl on the three states)",
        floor=9,
        necessary="any other transition (keep the first candidate, carry the last one, More -> One) returns one of several agreeing entries: an ambiguous column name is silently bound",
    )
    path_param = [p["pat"]["name"] for p in gkv.params if not p.get("self")][0]
    where = "src/%s:%d" % (HF, fold["l"])
    # initial state and iterated collection
    init = fold["args"][0]
    rep.instance("H1", "fold@init", {"init": show(init)})
    if found_variant(init) != "Zero":
        rep.violation("H1", "get_key_value@fold-init", "the fold does not start from Found::Zero but from %s" % show(init), where)
    recv = fold["recv"]
    chain = []
    while recv["k"] == "mcall":
        chain.append(recv["m"])
        recv = recv["recv"]
    base = show(recv)
    rep.instance("H1", "fold@over", {"over": base, "adaptors": list(reversed(chain))})
    if base not in ("self.0", "self") or any(m not in ("iter", "rev") for m in chain):
        rep.undecidable("H1", "get_key_value@fold-over", "the fold does not run over all entries of the map (%s.%s)" % (base, ".".join(reversed(chain))), where)
    clo = fold["args"][1]
    if clo["k"] != "closure":
        rep.undecidable("H1", "get_key_value@fold-closure", "fold step is not a closure literal: %s" % show(clo, 60), where)
        return
    want = {
        ("Zero", True): ("One", "current"),
        ("One", True): ("More", None),
        ("More", True): ("More", None),
        ("Zero", False): ("Zero", None),
        ("One", False): ("One", "previous"),
        ("More", False): ("More", None),
    }
    table = {}
    for (state, match), exp in want.items():
        key = "fold@%s,%s" % (state, "match" if match else "no-match")
        try:
            sim = FoldSim(clo, pred_name, path_param)
            got = sim.eval(clo["body"], state, match)
        except Undecided as u:
            rep.instance("H1", key, None)
            rep.undecidable("H1", "get_key_value@" + key, "cannot simulate the fold step: %s" % u, where)
            continue
        table["%s,%s" % (state, "match" if match else "no-match")] = "%s%s" % (got[0], "(%s)" % got[1] if got[1] else "")
        rep.instance("H1", key, {"state": state, "entry_matches": match, "next": table["%s,%s" % (state, "match" if match else "no-match")]})
        if got != exp:
            rep.violation(
                "H1",
                "get_key_value@" + key,
                "fold transition %s --%s--> %s%s, expected %s%s"
                % (state, "match" if match else "no match", got[0], "(%s entry)" % got[1] if got[1] else "", exp[0], "(%s entry)" % exp[1] if exp[1] else ""),
                where,
            )
    rep.extra["fold_table"] = table
    # the conversion Found -> Option
    fr = [f for f in src.find_fns(name="from", file=HF) if (f.trait or "").replace(" ", "").startswith("From<Found<") and (f.self_ty or "").startswith("Option<")]
    if len(fr) != 1:
        raise Anchor("impl From<Found<T>> for Option<T>: expected one, found %d" % len(fr))
    fr = fr[0]
    pname = [p["pat"]["name"] for p in fr.params if not p.get("self")][0]
    conv = {}
    try:
        from .canon import canon_view

        m = tail_expr(canon_view(fr, src, iflet=True).body)  # `if let P = v { a } else { b }` reads as `match v { P => a, _ => b }`
        if m["k"] != "match" or path_of(m["e"]) != pname:
            raise Undecided("body is not a match on the argument: %s" % show(m, 60))
        for st in STATES:
            res = None
            for a in m["arms"]:
                if a.get("guard"):
                    raise Undecided("guarded arm")
                ok, b = pat_state(a["pat"], st)
                if ok:
                    body = tail_expr(a["body"])
                    if path_of(body) == "None":
                        res = "None"
                    elif body["k"] == "call" and path_of(body["f"]) == "Some" and len(body["args"]) == 1:
                        res = "Some(payload)" if (b and path_of(body["args"][0]) == b) else "Some(?)"
                    else:
                        raise Undecided("arm result %s" % show(body, 60))
                    break
            if res is None:
                raise Undecided("no arm for %s" % st)
            conv[st] = res
    except Undecided as u:
        rep.undecidable("H1", "From<Found<T>>@match", "cannot simulate the conversion: %s" % u, fr.where())
    expc = {"Zero": "None", "One": "Some(payload)", "More": "None"}
    for st in STATES:
        rep.instance("H1", "into@" + st, {"Found": st, "Option": conv.get(st)})
        if st in conv and conv[st] != expc[st]:
            rep.violation("H1", "From<Found<T>>@" + st, "Found::%s converts to %s, expected %s" % (st, conv[st], expc[st]), fr.where())
    rep.extra["found_to_option"] = conv
    # Found variants: the table above is complete only for the three known states
    vs = src.enum_variants("Found", file=HF)
    if sorted(vs) != sorted(STATES):
        rep.undecidable("H1", "Found@variants", "enum Found has variants %s (the rule knows Zero, One, More)" % vs, "src/%s" % HF)


def root_and_chain(e):
    chain = []
    while True:
        if e["k"] == "mcall":
            chain.append(e)
            e = e["recv"]
        elif e["k"] in ("try", "paren"):
            e = e["e"]
        else:
            return e, list(reversed(chain))


def loop_form_as_fold(gkv):
    """`if let Some(p) = self.0.get_key_value(path) { Some(x) } else { let mut found = INIT; for PAT in ITER { if C { found = E } } found.into() }` (what the
    canonical form makes of an early return followed by a loop) rewritten as the chain `<exact>.map(|p| x).or_else(|| ITER.fold(INIT, |found, PAT| if C { E } else { found }).into())`,
    which is the form H1 / H2 read.  Any other body is returned unchanged."""
    import copy

    st = gkv.body["stmts"]
    if len(st) != 1 or st[0]["k"] != "expr" or st[0]["e"]["k"] != "if" or st[0]["e"]["cond"]["k"] != "letcond" or st[0]["e"].get("else") is None:
        return gkv
    top = st[0]["e"]
    pat = top["cond"]["pat"]
    if not (pat["k"] == "tuplestruct" and pat["path"]["segs"][-1] == "Some" and len(pat["elems"]) == 1):
        return gkv
    then = top["then"]
    while then["k"] == "block" and len(then["stmts"]) == 1 and then["stmts"][0]["k"] == "expr":
        then = then["stmts"][0]["e"]
    if not (then["k"] == "call" and path_of(then["f"]) == "Some" and len(then["args"]) == 1):
        return gkv
    els = top["else"]
    es = els["stmts"] if els["k"] == "block" else None
    if not es or len(es) != 3 or es[0]["k"] != "let" or es[0]["pat"]["k"] != "ident" or es[0].get("init") is None or es[1]["k"] != "expr" or es[1]["e"]["k"] != "for" or es[2]["k"] != "expr":
        return gkv
    acc = es[0]["pat"]["name"]
    lp = es[1]["e"]
    lb = lp["body"]["stmts"] if lp["body"]["k"] == "block" else [{"k": "expr", "e": lp["body"]}]
    tail = es[2]["e"]
    if not (tail["k"] == "mcall" and tail["m"] == "into" and path_of(tail["recv"]) == acc):
        return gkv
    if len(lb) != 1 or lb[0]["k"] != "expr" or lb[0]["e"]["k"] != "if" or lb[0]["e"].get("else") is not None or lb[0]["e"]["cond"]["k"] == "letcond":
        return gkv
    inner = lb[0]["e"]
    ts = inner["then"]["stmts"] if inner["then"]["k"] == "block" else [{"k": "expr", "e": inner["then"]}]
    if len(ts) != 1 or ts[0]["k"] != "expr" or ts[0]["e"]["k"] != "assign" or path_of(ts[0]["e"]["lhs"]) != acc:
        return gkv
    l = top.get("l", 0)
    accp = {"k": "path", "l": l, "p": acc, "segs": [acc]}
    step = {"k": "if", "l": l, "cond": inner["cond"], "then": {"k": "block", "l": l, "stmts": [{"k": "expr", "l": l, "e": ts[0]["e"]["rhs"], "semi": False}]}, "else": {"k": "block", "l": l, "stmts": [{"k": "expr", "l": l, "e": accp, "semi": False}]}}
    it = lp["e"]
    fold = {"k": "mcall", "l": l, "m": "fold", "recv": it, "args": [es[0]["init"], {"k": "closure", "l": l, "params": [{"k": "ident", "name": acc, "l": l}, lp["pat"]], "body": step}]}
    fb = {"k": "closure", "l": l, "params": [], "body": {"k": "mcall", "l": l, "m": "into", "recv": fold, "args": []}}
    exact_map = {"k": "mcall", "l": l, "m": "map", "recv": top["cond"]["e"], "args": [{"k": "closure", "l": l, "params": [pat["elems"][0]], "body": then["args"][0]}]}
    chain = {"k": "mcall", "l": l, "m": "or_else", "recv": exact_map, "args": [fb]}
    g = copy.copy(gkv)
    g.node = dict(gkv.node, body={"k": "block", "l": l, "stmts": [{"k": "expr", "l": l, "e": chain, "semi": False}]})
    return g


def h2(rep, src, gkv):
    rep.rule(
        "H2",
        "exact before suffix: Hierarchy::get_key_value returns `<exact BTreeMap::get_key_value(path)>.or_else(|| <suffix fold>.into())`; the suffix predicate is called nowhere else; "
        "Hierarchy::get, Index::index and Hierarchy::and_then obtain their result from get_key_value / get; the map behind Hierarchy is an ordered std BTreeMap",
        floor=6,
        necessary="a suffix search tried first (or alone) makes `a.b` ambiguous as soon as `x.a.b` exists, and a second lookup path bypasses the Found table",
    )
    path_param = [p["pat"]["name"] for p in gkv.params if not p.get("self")][0]
    try:
        t = tail_expr(gkv.body)
    except Undecided as u:
        rep.undecidable("H2", "get_key_value@body", "body is not a single expression: %s" % u, gkv.where())
        return None, None
    if t["k"] == "if" and t["cond"]["k"] == "letcond" and t.get("else") is not None and t["cond"]["pat"]["k"] == "tuplestruct" and t["cond"]["pat"]["path"]["segs"][-1] == "Some" and len(t["cond"]["pat"]["elems"]) == 1:
        # `if let Some(p) = <exact> { Some(x) } else { <fallback> }` is `<exact>.map(|p| x).or_else(|| <fallback>)`
        try:
            th = tail_expr(t["then"])
        except Undecided:
            th = None
        if th is not None and th["k"] == "call" and path_of(th["f"]) == "Some" and len(th["args"]) == 1:
            l = t.get("l", 0)
            t = {
                "k": "mcall", "l": l, "m": "or_else",
                "recv": {"k": "mcall", "l": l, "m": "map", "recv": t["cond"]["e"], "args": [{"k": "closure", "l": l, "params": [t["cond"]["pat"]["elems"][0]], "body": th["args"][0]}]},
                "args": [{"k": "closure", "l": l, "params": [], "body": t["else"]}],
            }
    root, chain = root_and_chain(t)
    names = [c["m"] for c in chain]
    rep.instance("H2", "get_key_value@chain", {"root": show(root), "chain": names})
    fold = None
    pred = "is_suffix_of"
    ok = False
    if chain and chain[-1]["m"] == "or_else" and len(chain[-1]["args"]) == 1 and chain[-1]["args"][0]["k"] == "closure":
        first = chain[0]
        exact = first["m"] in ("get_key_value",) and show(first["recv"]) in ("self.0",) and len(first["args"]) == 1 and path_of(first["args"][0]) == path_param
        mids = [c["m"] for c in chain[1:-1]]
        if exact and all(m == "map" for m in mids):
            ok = True
        else:
            rep.violation("H2", "get_key_value@exact-first", "the value before `.or_else` is not the exact lookup self.0.get_key_value(%s): %s" % (path_param, show(chain[-1]["recv"], 100)), gkv.where())
            ok = True  # reported; still analyse the fallback
        clo = chain[-1]["args"][0]
        try:
            fb = tail_expr(clo["body"])
            if fb["k"] == "mcall" and fb["m"] == "into" and not fb["args"] and fb["recv"]["k"] == "mcall" and fb["recv"]["m"] == "fold" and len(fb["recv"]["args"]) == 2:
                fold = fb["recv"]
            else:
                rep.undecidable("H2", "get_key_value@fallback", "the fallback is not `<iter>.fold(init, step).into()`: %s" % show(fb, 100), gkv.where())
        except Undecided as u:
            rep.undecidable("H2", "get_key_value@fallback", "fallback closure: %s" % u, gkv.where())
    if not ok:
        # maybe the order is reversed, or the chain has another shape
        folds = [x for x in walk(gkv.body) if x["k"] == "mcall" and x["m"] == "fold"]
        exacts = [x for x in walk(gkv.body) if x["k"] == "mcall" and x["m"] == "get_key_value" and show(x["recv"]) == "self.0"]
        if folds and exacts and any(x is exacts[0] for c in chain if c["m"] == "or_else" for x in walk(c["args"][0])):
            rep.violation("H2", "get_key_value@exact-first", "the suffix search is tried before the exact lookup (exact lookup is the or_else fallback)", gkv.where())
        else:
            rep.undecidable("H2", "get_key_value@exact-first", "get_key_value is not `<exact>.or_else(|| <suffix search>)`: %s" % show(t, 120), gkv.where())
        if len(folds) == 1 and len(folds[0]["args"]) == 2:
            fold = folds[0]
    # the predicate used by the fold, and its other call sites
    if fold is not None:
        preds = [x for x in walk(fold) if x["k"] == "call" and x["f"]["k"] == "path" and len(x["args"]) == 2 and x["f"]["p"].startswith("is_")]
        if len(preds) == 1:
            pred = preds[0]["f"]["p"]
        rep.instance("H2", "get_key_value@predicate", {"predicate": pred})
        if pred != "is_suffix_of":
            rep.violation("H2", "get_key_value@predicate", "candidates are selected with `%s`, not with is_suffix_of" % pred, "src/%s:%d" % (HF, fold["l"]))
    # a private method of Hierarchy that only get_key_value calls is part of it (`self.unique_with_suffix(path)`: read through above)
    part_of_gkv = {"get_key_value"}
    for h in src.fns:
        if h.file == HF and not h.test and h.body and (h.self_ty or "").startswith("Hierarchy<") and (h.node.get("vis") or "") == "" and h.name != "get_key_value":
            callers = {g.name for g in src.fns if g.file == HF and not g.test and g.body and g is not h and any(m["m"] == h.name and path_of(m["recv"]) == "self" for m in find(g.body, "mcall"))}
            other = [g for g in src.fns if g.file != HF and g.body and any(m["m"] == h.name for m in find(g.body, "mcall"))]
            if callers == {"get_key_value"} and not other:
                part_of_gkv.add(h.name)
    for f in src.fns:
        if f.test or not f.body:
            continue
        for c in find(f.body, "call"):
            if is_call_to(c, "is_suffix_of"):
                inside = f.file == HF and f.name in part_of_gkv
                rep.instance("H2", "is_suffix_of@" + f.qual, None)
                if not inside:
                    rep.violation("H2", "is_suffix_of@" + f.qual, "a second suffix lookup outside Hierarchy::get_key_value (not covered by the Found table)", "src/%s:%d" % (f.file, c["l"]))
    # get / index / and_then
    def uses(fn, callee, recv_ok):
        hits = [x for x in walk(fn.body) if x["k"] == "mcall" and x["m"] == callee and recv_ok(x["recv"])]
        return hits

    get = src.one_fn(name="get", file=HF, self_ty_re=r"^Hierarchy<")
    idx = src.one_fn(name="index", file=HF, self_ty_re=r"^Hierarchy<")
    andt = src.one_fn(name="and_then", file=HF, self_ty_re=r"^Hierarchy<")
    for fn, callee, recv_ok, what in (
        (get, "get_key_value", lambda r: path_of(r) == "self", "self.get_key_value"),
        (idx, "get", lambda r: path_of(r) == "self", "self.get"),
        (andt, "get", lambda r: r["k"] == "path" and len(r["segs"]) == 1 and r["segs"][0] != "self", "<other hierarchy>.get"),
    ):
        hits = uses(fn, callee, recv_ok)
        direct = [x for x in walk(fn.body) if (x["k"] == "field" and x["name"] == "0" and path_of(x["e"]) == "self") or (x["k"] == "mcall" and x["m"] in ("iter", "values", "range", "first_key_value", "last_key_value", "find", "fold"))]
        rep.instance("H2", fn.qual, {"fn": fn.qual, "through": what, "calls": len(hits), "direct_map_access": len(direct)})
        if not hits:
            rep.violation("H2", fn.qual, "%s does not look up through %s" % (fn.qual, what), fn.where())
        elif direct:
            rep.violation("H2", fn.qual, "%s also reads the map directly (%s)" % (fn.qual, show(direct[0], 60)), fn.where())
        else:
            try:
                root, chain = root_and_chain(tail_expr(fn.body)) if fn is not andt else (None, None)
                if fn is not andt:
                    first = chain[0] if chain else None
                    if first is None or not (first["m"] == callee and recv_ok(first["recv"])):
                        # allow `let path = …; self.get(&path)…`
                        raise Undecided("")
            except Undecided:
                st = fn.body["stmts"]
                last = st[-1]["e"] if st and st[-1]["k"] == "expr" else None
                root, chain = root_and_chain(last) if last else (None, [])
                first = chain[0] if chain else None
                for _hop in range(3):  # `let found = self.get(&path).ok_or_else(..); found.unwrap()`: the returned value is derived from the local's initialiser
                    if first is not None and first["m"] == callee and recv_ok(first["recv"]):
                        break
                    rn = path_of(root) if root is not None and root["k"] == "path" and len(root["segs"]) == 1 else None
                    inits = [l["init"] for l in find(fn.body, "let") if rn and l.get("init") is not None and (l["pat"]["name"] if l["pat"]["k"] == "ident" else (l["pat"]["pat"].get("name") if l["pat"]["k"] == "typed" else None)) == rn]
                    if len(inits) != 1:
                        break
                    root, chain = root_and_chain(inits[0])
                    first = chain[0] if chain else None
                if first is None or not (first["m"] == callee and recv_ok(first["recv"])):
                    rep.violation("H2", fn.qual, "the value returned by %s is not derived from %s" % (fn.qual, what), fn.where())
    # backing map
    st = src.find_items("struct", name="Hierarchy", file=HF)
    if len(st) != 1:
        raise Anchor("struct Hierarchy not found")
    flds = st[0][2].get("fields", [])
    ty = flds[0]["ty"].replace(" ", "") if flds else ""
    rep.instance("H2", "Hierarchy@field", {"field_type": ty})
    if len(flds) != 1 or not ty.startswith("BTreeMap<Vec<String>,"):
        rep.violation("H2", "Hierarchy@field", "Hierarchy is not backed by one BTreeMap<Vec<String>, T> (found %s): iteration order is not the key order" % [f["ty"] for f in flds], "src/%s:%d" % (HF, st[0][2]["l"]))
    local = [it for (f, m, it, t) in src.items if f == HF and not t and it.get("name") == "BTreeMap" and it["k"] != "use"]
    if local:
        rep.violation("H2", "Hierarchy@BTreeMap", "hierarchy.rs defines its own `BTreeMap`", "src/%s:%d" % (HF, local[0]["l"]))
    return fold, pred


def h3(rep, src):
    rep.rule(
        "H3",
        "(added) is_suffix_of(a, b) is `a.iter().rev().zip(b.iter().rev()).all(|(x, y)| x == y)`: both paths are walked from their last component, pairwise, and every shared component must be equal",
        floor=4,
        necessary="walking one path from the front compares unrelated components; `any` accepts a candidate that agrees on one component only: a wrong entry becomes the unique match",
    )
    from .canon import canon_view as _cv3

    f = _cv3(src.one_fn(name="is_suffix_of", file=HF), src, helpers=False)  # named locals (`let reversed_suffix = left.iter().rev();`) are read through
    ps = [p["pat"]["name"] for p in f.params]
    where = f.where()
    try:
        t = tail_expr(f.body)
    except Undecided as u:
        rep.undecidable("H3", "is_suffix_of@body", str(u), where)
        return
    root, chain = root_and_chain(t)
    names = [c["m"] for c in chain]
    rep.instance("H3", "is_suffix_of@left", {"left": show(root) + "." + ".".join(names[: names.index("zip")] if "zip" in names else names)})
    if len(ps) != 2 or "zip" not in names:
        rep.undecidable("H3", "is_suffix_of@shape", "not a zip of the two paths: %s" % show(t, 100), where)
        return
    zi = names.index("zip")
    left_ok = path_of(root) in ps and names[:zi] == ["iter", "rev"]
    if not left_ok:
        rep.violation("H3", "is_suffix_of@left", "the first path is not walked from its last component (`%s.%s`)" % (show(root), ".".join(names[:zi])), where)
    zarg = chain[zi]["args"][0] if chain[zi]["args"] else None
    r2, c2 = root_and_chain(zarg) if zarg else (None, [])
    n2 = [c["m"] for c in c2]
    rep.instance("H3", "is_suffix_of@right", {"right": show(zarg)})
    if not (r2 and path_of(r2) in ps and path_of(r2) != path_of(root) and n2 == ["iter", "rev"]):
        rep.violation("H3", "is_suffix_of@right", "the second path is not the other parameter walked from its last component (`%s`)" % show(zarg, 60), where)
    rest = names[zi + 1 :]
    rep.instance("H3", "is_suffix_of@quantifier", {"after_zip": rest})
    if rest != ["all"]:
        rep.violation("H3", "is_suffix_of@quantifier", "the pairs are combined with `%s`, not with `all`" % ".".join(rest), where)
        return
    clo = chain[-1]["args"][0] if chain[-1]["args"] else None
    okc = False
    if clo and clo["k"] == "closure" and len(clo["params"]) == 1:
        b = pat_binds(clo["params"][0])
        try:
            body = tail_expr(clo["body"])
            okc = len(b) == 2 and body["k"] == "binary" and body["op"] == "==" and {path_of(body["lhs"]), path_of(body["rhs"])} == set(b)
        except Undecided:
            okc = False
    rep.instance("H3", "is_suffix_of@compare", {"closure": show(clo, 60)})
    if not okc:
        rep.violation("H3", "is_suffix_of@compare", "the pairwise test is not equality of the two zipped components: %s" % show(clo, 60), where)


def h4(rep, src):
    """USING / NATURAL resolution in sql/relation.rs: which duplicate columns are merged into one unqualified name."""
    from .flow import Taint

    rep.rule(
        "H4",
        "try_from_join coalesces (makes resolvable without qualifier) exactly the columns the SQL names: under JoinConstraint::Using(v) the coalesced list derives from v only, "
        "under Natural from the columns common to both inputs, and under ON / no constraint nothing is coalesced; arms are literal JoinOperator(JoinConstraint) patterns without guards",
        floor=3,
        necessary="coalescing a common column that USING does not list binds an unqualified reference to it silently to the left candidate instead of refusing it as ambiguous",
    )
    f = src.one_fn(name="try_from_join", file="sql/relation.rs")
    ms = [m for m in find(f.body, "match") if "join_operator" in show(m["e"], 0)]
    if len(ms) != 1:
        rep.undecidable("H4", "try_from_join@match", "expected one match over ast_join.join_operator, found %d" % len(ms), f.where())
        return
    m = ms[0]
    seen_kinds = set()
    for a in m["arms"]:
        where = "src/sql/relation.rs:%d" % a["l"]
        cases = a["pat"]["cases"] if a["pat"]["k"] == "or" else [a["pat"]]
        kinds = set()
        bound = set()
        opaque = False
        for c in cases:
            if c["k"] == "wild":
                kinds.add("_")
                continue
            if c["k"] != "tuplestruct" or not c["elems"]:
                opaque = True
                continue
            inner = c["elems"][0]
            if inner["k"] == "tuplestruct" and inner["path"]["segs"][-2:-1] == ["JoinConstraint"]:
                kinds.add(inner["path"]["segs"][-1])
                bound |= set(pat_binds(inner))
            elif inner["k"] == "path" and inner["segs"][-2:-1] == ["JoinConstraint"]:
                kinds.add(inner["segs"][-1])
            elif inner["k"] == "wild":
                kinds.add("any:" + c["path"]["segs"][-1])
            else:
                opaque = True
        calls = [x for x in find(a["body"], "mcall") if x["m"] == "remove_duplicates_and_coalesce"]
        key = "try_from_join@" + "|".join(sorted(kinds)) if kinds else "try_from_join@?"
        rep.instance("H4", key, {"constraints": sorted(kinds), "binds": sorted(bound), "coalesces": bool(calls), "where": where})
        if a.get("guard") or opaque:
            if calls:
                rep.undecidable("H4", key, "a coalescing arm whose pattern is not a literal JoinOperator(JoinConstraint) (guard or binding of the whole constraint): cannot tell which columns are merged", where)
            continue
        seen_kinds |= kinds
        if "Using" in kinds and "Natural" in kinds:
            rep.violation("H4", key, "USING and NATURAL share one arm: both coalesce the same column list", where)
            continue
        if "Using" in kinds:
            if len(calls) != 1 or len(bound) != 1:
                rep.violation("H4", key, "the USING arm does not coalesce the listed columns", where)
                continue
            v = sorted(bound)[0]
            t = Taint({v: "using"})
            t.run_block(a["body"] if a["body"]["k"] == "block" else {"k": "block", "l": a["l"], "stmts": [{"k": "expr", "e": a["body"], "semi": False, "l": a["l"]}]})
            arg = calls[0]["args"][0]
            lab = t.labels(arg)
            others = [x for x in find(arg, "mcall") if x["m"] in ("fields", "schema", "left", "right")]
            if "using" not in lab or others:
                rep.violation("H4", key, "the columns coalesced under USING are `%s`, not the listed identifiers `%s`" % (show(arg, 80), v), where)
        elif "Natural" in kinds:
            if len(calls) != 1:
                rep.violation("H4", key, "the NATURAL arm does not coalesce the common columns", where)
        else:
            if calls:
                rep.violation("H4", key, "columns are coalesced for a join without USING / NATURAL", where)
    for need in ("Using", "Natural"):
        if need not in seen_kinds:
            rep.violation("H4", "try_from_join@" + need, "no literal arm for JoinConstraint::%s" % need, f.where())


def h5(rep, src):
    """CTE / table-name scoping in sql/query_names.rs: which references a WITH definition captures."""
    from .core import walk_guards

    rep.rule(
        "H5",
        "QueryNames::set binds a definition to a reference only when the reference's whole ObjectName equals the defined name (exact path, not a trailing component) "
        "and the reference is still unresolved (`is_none()`): inner definitions, visited first, are never overwritten by outer ones",
        floor=1,
        necessary="matching on the last component lets `WITH orders AS ..` capture `sales.orders`; re-binding resolved references lets an outer CTE replace an inner CTE of the same name: a name is silently bound to another candidate",
    )
    f = src.one_fn(name="set", file="sql/query_names.rs", self_ty_re=r"^QueryNames")
    ps = [p["pat"]["name"] for p in f.params if not p.get("self") and p["pat"]["k"] == "ident"]
    name_p, ref_p = ps[0], ps[1]
    assigns = []
    for n, guards in walk_guards(f.body):
        if n["k"] == "assign" and any(x["k"] == "path" and x["segs"] == [ref_p] for x in walk(n["rhs"])):
            assigns.append((n, guards))
    key = "QueryNames::set"
    if not assigns:
        rep.undecidable("H5", key, "no assignment of the referred query found", f.where())
        return
    for n, guards in assigns:
        conds = [g[1] for g in guards if g[0] == "if" and g[2] is True]
        # iterator style: .filter(|..| cond) before the closure that assigns
        for m in find(f.body, "mcall"):
            if m["m"] in ("for_each", "map") and m["args"] and m["args"][0]["k"] == "closure" and any(x is n for x in walk(m["args"][0])):
                r = m["recv"]
                while r["k"] == "mcall":
                    if r["m"] == "filter" and r["args"] and r["args"][0]["k"] == "closure":
                        conds.append(r["args"][0]["body"])
                    r = r["recv"]
        # skip guards: `if target.is_some() { continue; }` before the assignment is the condition `target.is_none()` on it
        for b in find(f.body, "block"):
            idx = [i for i, s_ in enumerate(b["stmts"]) if any(x is n for x in walk(s_))]
            if not idx:
                continue
            for s_ in b["stmts"][: idx[0]]:
                e_ = s_.get("e") if s_["k"] == "expr" else None
                if not (isinstance(e_, dict) and e_.get("k") == "if" and e_.get("else") is None and e_["cond"]["k"] != "letcond"):
                    continue
                tb_ = e_["then"]
                if not (tb_["k"] == "block" and len(tb_["stmts"]) == 1 and tb_["stmts"][0]["k"] == "expr" and tb_["stmts"][0]["e"]["k"] in ("continue", "return", "break")):
                    continue
                c_ = e_["cond"]
                if c_["k"] == "unary" and c_["op"].strip() == "!":
                    conds.append(c_["e"])
                elif c_["k"] == "mcall" and c_["m"] in ("is_some", "is_none") and not c_["args"]:
                    conds.append(dict(c_, m="is_none" if c_["m"] == "is_some" else "is_some"))
                elif c_["k"] == "binary" and c_["op"].strip() in ("==", "!="):
                    conds.append(dict(c_, op="!=" if c_["op"].strip() == "==" else "=="))
        # a guard given by name: `let unresolved_match = *n == name && r.is_none(); if unresolved_match { .. }`
        named = {l["pat"]["name"]: l["init"] for l in find(f.body, "let") if l["pat"]["k"] == "ident" and l.get("init") is not None}
        conds = [named.get(path_of(c), c) if c["k"] == "path" and len(c["segs"]) == 1 else c for c in conds]
        atoms = []
        for c in conds:
            st = [c]
            while st:
                x = st.pop()
                while x["k"] == "block" and len(x["stmts"]) == 1 and x["stmts"][0]["k"] == "expr":
                    x = x["stmts"][0]["e"]
                if x["k"] == "binary" and x["op"] == "&&":
                    st += [x["lhs"], x["rhs"]]
                else:
                    atoms.append(x)

        def bare(e):
            while e["k"] in ("unary", "ref"):
                e = e["e"]
            return e["k"] == "path" and len(e["segs"]) == 1

        exact = [a for a in atoms if a["k"] == "binary" and a["op"] == "==" and bare(a["lhs"]) and bare(a["rhs"]) and name_p in (show(a["lhs"], 0).lstrip("*&"), show(a["rhs"], 0).lstrip("*&"))]
        unresolved = [a for a in atoms if a["k"] == "mcall" and a["m"] == "is_none" and bare(a["recv"])]
        rep.instance("H5", key, {"conditions": [show(a, 60) for a in atoms], "exact_name_match": bool(exact), "only_unresolved": bool(unresolved)})
        if not exact:
            rep.violation("H5", key + "@exact", "the definition is not matched on the whole ObjectName (`n == %s`): conditions %s" % (name_p, [show(a, 60) for a in atoms]), f.where())
        if not unresolved:
            rep.violation("H5", key + "@unresolved", "already resolved references are re-bound (no `is_none()` guard): an outer definition overrides an inner one", f.where())


def h6(rep, src):
    rep.rule(
        "H6",
        "sql/relation.rs `last()` (the unqualified view of a column hierarchy used by SELECT/GROUP BY/ORDER BY resolution) admits a one-component name only through the hierarchy's own "
        "unique-suffix lookup `columns.get(&[<last component>])` (decided by H1-H3), not through bookkeeping of its own",
        floor=1,
        necessary="a private ambiguity count that differs from the lookup (first/last wins, toggling set: three-way ambiguity counted as unique) binds an unqualified column shared by several FROM items to one of them",
    )
    f = src.one_fn(name="last", file="sql/relation.rs")
    cp = [p["pat"]["name"] for p in f.params if p["pat"]["k"] == "ident"]
    key = "sql::relation::last"
    if len(cp) != 1:
        rep.undecidable("H6", key, "expected one parameter", f.where())
        return
    c = cp[0]
    st = f.body["stmts"]
    tl = st[-1]["e"] if st and st[-1]["k"] == "expr" and not st[-1].get("semi") else None
    fms, r = [], tl
    while r is not None and r["k"] == "mcall":
        if r["m"] in ("filter_map", "flat_map") and r["args"] and r["args"][0]["k"] == "closure":
            fms.append(r)
        r = r["recv"]
    if len(fms) != 1:
        rep.undecidable("H6", key, "expected one filter_map over the entries", f.where())
        return
    cl = fms[0]["args"][0]
    gets = [m for m in find(cl["body"], "mcall") if m["m"] in ("get", "get_key_value") and path_of(m["recv"]) == c]
    lets = {l["pat"]["name"]: l["init"] for l in find(cl["body"], "let") if l["pat"]["k"] == "ident" and l.get("init") is not None}
    other_state = [l["pat"]["name"] for l in find(f.body, "let") if l["pat"]["k"] == "ident" and not any(l is x for x in find(cl["body"], "let"))]
    ok = False
    arg_txt = None
    if len(gets) == 1:
        a = gets[0]["args"][0]
        while a["k"] == "ref":
            a = a["e"]
        if is_call_to(a, "slice::from_ref") and len(a["args"]) == 1:  # std::slice::from_ref(&x) == &[x]
            a = {"k": "array", "elems": [a["args"][0]]}
        if a["k"] == "array" and len(a["elems"]) == 1:
            e = a["elems"][0]
            while e["k"] == "mcall" and e["m"] in ("clone", "to_string", "to_owned", "as_str") or e["k"] == "ref":
                e = e["recv"] if e["k"] == "mcall" else e["e"]
            if e["k"] == "path" and e["p"] in lets:
                e = lets[e["p"]]
            arg_txt = show(e, 0).replace(" ", "")
            pp = [pat_binds(p) for p in cl["params"]]
            pathvar = pp[0][0] if pp and pp[0] else None
            ok = pathvar is not None and arg_txt.startswith(pathvar + ".last()")
    # the value of the closure must come from the lookup (and_then / map / ? on it), not from a parallel test
    rep.instance("H6", key, {"lookup": show(gets[0], 60) if gets else None, "lookup_key": arg_txt, "own_state": other_state})
    if not ok:
        rep.violation("H6", key, "last() does not decide through `%s.get(&[path.last()])`: lookup=%s, own state=%s" % (c, arg_txt, other_state), f.where())
    elif other_state:
        rep.undecidable("H6", key, "last() keeps state of its own next to the lookup: %s" % other_state, f.where())
    else:
        tv = cl["body"]
        while tv["k"] == "block":
            st = tv["stmts"]
            tv = st[-1]["e"] if st and st[-1]["k"] == "expr" and not st[-1].get("semi") else None
            if tv is None:
                break
        root = tv
        for _hop in range(3):
            while root is not None and root["k"] in ("mcall", "try"):
                if root is gets[0]:
                    break
                root = root["recv"] if root["k"] == "mcall" else root["e"]
            if root is not None and root is not gets[0] and root["k"] == "path" and len(root["segs"]) == 1 and root["segs"][0] in lets:
                root = lets[root["segs"][0]]  # `let unambiguous = columns.get(..); unambiguous.map(..)`
                continue
            break
        if root is not gets[0]:
            rep.violation("H6", key, "the entry kept by last() is not the result of the lookup (`%s`)" % show(tv, 80), f.where())


QUAL_OK = {"cloned", "clone", "into_iter", "iter", "chain", "collect_vec", "collect", "to_vec"}


def h7(rep, src):
    rep.rule(
        "H7",
        "try_from_table_factor registers the columns of a FROM item under <qualifier> ++ [column] where the qualifier is the alias when there is one and otherwise the WHOLE table path "
        "(Table: the ObjectName as written; Derived: the sub-query's name), built with copying combinators only (no last()/skip/index); read on the canonical body (locals and private helpers inlined)",
        floor=4,
        necessary="a truncated qualifier gives `prod.events` and `staging.events` the same keys: the right table silently replaces the left one in the joined hierarchy and `prod.events.v` is bound to the other table",
    )
    from .canon import canon_view

    f = canon_view(src.one_fn(name="try_from_table_factor", file="sql/relation.rs"), src, keep={"last", "lower_case_unquoted_ident"}, keep_lets={"relation"})
    ms = [m for m in find(f.body, "match") if "table_factor" in show(m["e"], 0)]
    if len(ms) != 1:
        rep.undecidable("H7", "try_from_table_factor", "expected one match on table_factor", f.where())
        return

    def strip_copy(e):
        """peel copying combinators / borrows: the expression whose elements are the path components"""
        meths = []
        while True:
            if e["k"] == "ref":
                e = e["e"]
            elif e["k"] == "mcall" and e["m"] in QUAL_OK and e["m"] != "chain":
                meths.append(e["m"])
                e = e["recv"]
            else:
                return e, meths

    for a in ms[0]["arms"]:
        pt = show(a["pat"], 0)
        kind = "Table" if "TableFactor::Table" in pt else ("Derived" if "TableFactor::Derived" in pt else None)
        where = "src/sql/relation.rs:%d" % a["l"]
        if kind is None:
            if any(is_call_to(c, "RelationWithColumns::new") for c in find(a["body"], "call")):
                rep.undecidable("H7", "try_from_table_factor@other", "a further arm builds column paths: %s" % show(a["pat"], 60), where)
            continue
        key = "try_from_table_factor@" + kind
        # the (path, identifier) pairs collected into the column hierarchy: tuples whose first component is <a sequence> followed by ONE element -
        # `q.into_iter().chain(once(c)).collect()`, or a local `let mut p = q.clone(); p.push(c); (p, ..)`
        def parts(e, scope):
            e, _m = strip_copy(e)
            if e["k"] == "mcall" and e["m"] == "chain" and len(e["args"]) == 1:
                return parts(e["recv"], scope) + parts(e["args"][0], scope)
            if e["k"] == "call" and (path_of(e["f"]) or "").split("::")[-1] == "once" and len(e["args"]) == 1:
                return [("elem", e["args"][0])]
            if (e["k"] == "array" and len(e["elems"]) == 1) or (e["k"] == "macro" and e.get("name") == "vec" and len(e.get("args") or []) == 1):
                return [("elem", (e["elems"] if e["k"] == "array" else e["args"])[0])]
            if e["k"] == "path" and len(e["segs"]) == 1 and scope is not None:
                nm = e["segs"][0]
                lets = [st for st in scope["stmts"] if st["k"] == "let" and st["pat"].get("k") == "ident" and st["pat"]["name"] == nm and st.get("init") is not None]
                if len(lets) == 1:
                    out = parts(lets[0]["init"], None)
                    for st in scope["stmts"]:
                        x = st.get("e") if st["k"] == "expr" else None
                        if isinstance(x, dict) and x["k"] == "mcall" and path_of(x["recv"]) == nm:
                            if x["m"] == "push" and len(x["args"]) == 1:
                                out = out + [("elem", x["args"][0])]
                            elif x["m"] in ("extend", "append", "insert", "truncate", "pop", "remove", "clear", "retain", "drain"):
                                out = out + [("other", x)]
                    return out
            return [("seq", e)]

        pairs = []
        for blk in [b for b in find(a["body"], "block")] + [None]:
            tuples = [t for t in (find(blk, "tuple") if blk is not None else find(a["body"], "tuple")) if len(t["elems"]) == 2]
            for t in tuples:
                if blk is not None and not any(st.get("e") is t for st in blk["stmts"] if st["k"] == "expr"):
                    continue  # only the tuple that is the value of this block is read in its scope
                ps = parts(t["elems"][0], blk)
                if [k for k, _ in ps] == ["seq", "elem"] and not any(t is p[0] for p in pairs):
                    pairs.append((t, ps))
        if len(pairs) != 1:
            rep.undecidable("H7", key + "@key", "cannot find the (qualifier ++ [column], identifier) pair of the column hierarchy (%d candidates)" % len(pairs), where)
            continue
        t, ps = pairs[0]
        rep.instance("H7", key + "@key", {"path": show(t["elems"][0], 140)})
        q, _m = strip_copy(ps[0][1])
        # the qualifier: the alias name when there is one, else the default - unwrap_or / map_or / match / if-let over the optional alias
        alias_part = dflt = None
        if q["k"] == "mcall" and q["m"] == "unwrap_or" and len(q["args"]) == 1:
            alias_part, dflt = show(q["recv"], 0).replace(" ", ""), show(q["args"][0], 0).replace(" ", "")
        elif q["k"] == "mcall" and q["m"] == "map_or" and len(q["args"]) == 2 and q["args"][1]["k"] == "closure":
            alias_part, dflt = show(q["recv"], 0).replace(" ", "") + ".map(" + show(q["args"][1], 0).replace(" ", "") + ")", show(q["args"][0], 0).replace(" ", "")
        elif q["k"] == "mcall" and q["m"] == "map_or_else" and len(q["args"]) == 2 and q["args"][1]["k"] == "closure" and q["args"][0]["k"] == "closure" and not q["args"][0]["params"]:
            d0 = q["args"][0]["body"]
            while d0["k"] == "block" and len(d0["stmts"]) == 1 and d0["stmts"][0]["k"] == "expr":
                d0 = d0["stmts"][0]["e"]
            alias_part, dflt = show(q["recv"], 0).replace(" ", "") + ".map(" + show(q["args"][1], 0).replace(" ", "") + ")", show(d0, 0).replace(" ", "")
        elif q["k"] == "match" or (q["k"] == "if" and q["cond"]["k"] == "letcond" and q.get("else") is not None):
            if q["k"] == "match":
                scrut, arms = q["e"], [(x["pat"], x["body"]) for x in q["arms"] if not x.get("guard")]
            else:
                scrut, arms = q["cond"]["e"], [(q["cond"]["pat"], q["then"]), ({"k": "wild"}, q["else"])]
            some = [(p_, b_) for p_, b_ in arms if p_["k"] == "tuplestruct" and p_["path"]["segs"][-1] == "Some" and len(p_["elems"]) == 1 and p_["elems"][0]["k"] == "ident"]
            none = [(p_, b_) for p_, b_ in arms if p_["k"] == "wild" or (p_["k"] in ("path", "ident") and (p_.get("segs") or [p_.get("name")])[-1] == "None")]
            if len(arms) == 2 and len(some) == 1 and len(none) == 1:
                unblock = lambda x: x["stmts"][0]["e"] if x["k"] == "block" and len(x["stmts"]) == 1 and x["stmts"][0]["k"] == "expr" else x
                sb = show(unblock(some[0][1]), 0).replace(" ", "")
                bound = some[0][0]["elems"][0]["name"]
                alias_part = show(scrut, 0).replace(" ", "") + ".map(|%s|%s)" % (bound, sb) if re.match(r"^%s\.name\b" % re.escape(bound), sb) else show(scrut, 0).replace(" ", "") + ":" + sb
                dflt = show(unblock(none[0][1]), 0).replace(" ", "")
        ok_q = alias_part is not None
        want = ("name.cloned()", "name.clone()") if kind == "Table" else ("relation.name().cloned()", "relation.name().into()", "relation.name().to_string().into()")
        rep.instance("H7", key + "@qualifier", {"alias": alias_part, "default": dflt})
        if not ok_q or dflt not in want:
            rep.violation("H7", key + "@qualifier", "the qualifier of an un-aliased %s item is `%s`, not the whole name (%s)" % (kind, dflt or show(q, 80), want[0]), where)
        if ok_q and not (alias_part.lstrip("&").startswith("alias") and re.search(r"\.name\b", alias_part)):
            rep.violation("H7", key + "@alias", "the aliased qualifier is not the alias name: %s" % alias_part, where)


def h8(rep, src):
    """Column lookup inside one relation: exactly the field of that name."""
    rep.rule(
        "H8",
        "Schema::field / Schema::index_from_name (relation/schema.rs, behind schema[name] and every column type / constraint lookup) select the field with `f.name() == name` — plain string equality, "
        "the same relation Schema::new uses to refuse duplicate names",
        floor=2,
        necessary="a looser predicate (case-insensitive, prefix, trimmed) makes two fields that Schema::new accepts as different answer to one name: the lookup silently yields the first candidate, "
        "and its type / UNIQUE flag is attached to another column",
    )
    for nm in ("field", "index_from_name"):
        fs = [f for f in src.find_fns(name=nm, file="relation/schema.rs") if (f.self_ty or "") == "Schema"]
        if len(fs) != 1:
            rep.undecidable("H8", "Schema::" + nm, "expected one Schema::%s" % nm, "src/relation/schema.rs")
            continue
        f = fs[0]
        pn = [p["pat"]["name"] for p in f.params if not p.get("self") and p["pat"]["k"] == "ident"]
        sel = [m for m in find(f.body, "mcall") if m["m"] in ("position", "find", "rposition", "find_map", "filter", "any") and m["args"] and m["args"][0]["k"] == "closure"]
        key = "Schema::" + nm
        if len(sel) != 1 or len(pn) != 1:
            rep.undecidable("H8", key, "expected one position/find over the fields", f.where())
            continue
        cl = sel[0]["args"][0]
        b = cl["body"]
        while b["k"] == "block" and len(b["stmts"]) == 1 and b["stmts"][0]["k"] == "expr":
            b = b["stmts"][0]["e"]
        fv = pat_binds(cl["params"][0]) if cl["params"] else []
        ok = False
        if b["k"] == "binary" and b["op"] == "==" and fv:
            sides = {show(b["lhs"], 0).replace(" ", "").lstrip("*&"), show(b["rhs"], 0).replace(" ", "").lstrip("*&")}
            ok = sides == {fv[0] + ".name()", pn[0]}
        rep.instance("H8", key, {"selector": sel[0]["m"], "predicate": show(b, 80), "exact": ok, "over": show(sel[0]["recv"], 40)})
        if sel[0]["m"] in ("rposition",):
            rep.violation("H8", key, "the last matching field is taken", f.where())
        if not ok:
            rep.violation("H8", key, "fields are matched with `%s`, not with `f.name() == %s`" % (show(b, 80), pn[0]), f.where())


def h9(rep, src):
    """Columns written in an expression are looked up once, by the whole path as written."""
    rep.rule(
        "H9",
        "sql/expr.rs TryIntoExprVisitor::{identifier, compound_identifier}: the column map is consulted by exactly one `self.0.get(&<whole written name>.cloned())`, outside any loop / iterator closure "
        "(no retry with a shortened path)",
        floor=2,
        necessary="retrying with trailing sub-paths turns a refused name (`t2.x` when only t1 has x) into the unique bare match `x`: the reference is silently bound to another relation's column",
    )
    for nm in ("identifier", "compound_identifier"):
        fs = [f for f in src.find_fns(name=nm, file="sql/expr.rs") if "TryIntoExprVisitor" in (f.self_ty or "")]
        key = "TryIntoExprVisitor::" + nm
        if len(fs) != 1:
            rep.undecidable("H9", key, "expected one visitor method, found %d" % len(fs), "src/sql/expr.rs")
            continue
        f = fs[0]
        pn = [p["pat"]["name"] for p in f.params if not p.get("self") and p["pat"]["k"] == "ident"]
        # the column map is `self.0`, or the local it is destructured into (`let TryIntoExprVisitor(columns) = self;`)
        roots = {"self.0"} | {
            st["pat"]["elems"][0]["name"]
            for st in find(f.body, "let")
            if st["pat"]["k"] == "tuplestruct" and len(st["pat"]["elems"]) == 1 and st["pat"]["elems"][0]["k"] == "ident" and st.get("init") is not None and show(st["init"], 0).replace(" ", "").lstrip("&*") == "self"
        }
        all_gets = [m for m in walk(f.body) if m["k"] == "mcall" and m["m"] in ("get", "get_key_value", "and_then", "filter", "get_mut") and show(m["recv"], 0).replace(" ", "") in roots]
        top_gets = [m for m in walk(f.body, into_closures=False) if m["k"] == "mcall" and m["m"] == "get" and show(m["recv"], 0).replace(" ", "") in roots]
        loops = [n for n in walk(f.body) if n["k"] in ("for", "while", "loop")]
        arg = None
        if len(top_gets) == 1 and top_gets[0]["args"]:
            a = top_gets[0]["args"][0]
            while a["k"] == "ref":
                a = a["e"]
            if a["k"] == "path" and len(a["segs"]) == 1 and a["segs"][0] not in pn:  # `let path = idents.cloned(); self.0.get(&path)`
                li = [l["init"] for l in find(f.body, "let") if l["pat"]["k"] in ("ident", "typed") and (l["pat"]["name"] if l["pat"]["k"] == "ident" else l["pat"]["pat"].get("name")) == a["segs"][0] and l.get("init") is not None]
                if len(li) == 1:
                    a = li[0]
            arg = show(a, 0).replace(" ", "")
        ok = len(all_gets) == 1 and len(top_gets) == 1 and not loops and len(pn) == 1 and arg == pn[0] + ".cloned()"
        rep.instance("H9", key, {"lookups": [show(m, 60) for m in all_gets], "argument": arg, "single_whole_path_lookup": ok})
        if not ok:
            why = "several lookups / a lookup inside a closure or loop" if (len(all_gets) != 1 or len(top_gets) != 1 or loops) else "the lookup key is `%s`, not the whole written name" % arg
            rep.violation("H9", key, "%s: %s" % (why, [show(m, 70) for m in all_gets]), f.where())


def h10(rep, src):
    """The column map of a FROM clause is consistent with the relation it describes (two sites that must agree)."""
    rep.rule(
        "H10",
        "consistency of a USING/NATURAL join with its column map: (a) Join::remove_duplicates_and_coalesce forwards EVERY input field that is not coalesced (selected by `!coalesced.contains(col)` alone) and "
        "(b) try_from_select hands the resolver the whole column hierarchy of the FROM item (only the last component stripped).  A deviation at one site alone is tolerated (a dropped column is then refused, "
        "an extra test prunes nothing); deviations at both sites are a violation",
        floor=2,
        necessary="if the join drops the right-hand copy of a shared column and the map entry pointing to it is pruned, the unqualified name has a single candidate left and is silently bound to the left table",
    )
    fa = [f for f in src.find_fns(name="remove_duplicates_and_coalesce", file="relation/rewriting.rs") if (f.self_ty or "") == "Join"]
    fb = src.find_fns(name="try_from_select", file="sql/relation.rs")
    if len(fa) != 1 or len(fb) != 1:
        rep.undecidable("H10", "sites", "remove_duplicates_and_coalesce / try_from_select not found (%d, %d)" % (len(fa), len(fb)), "src/sql/relation.rs")
        return
    fa, fb = fa[0], fb[0]
    vp = [p["pat"]["name"] for p in fa.params if not p.get("self") and p["pat"]["k"] == "ident" and "Vec<String>" in p["ty"].replace(" ", "")]
    # (a) the forwarding of the un-coalesced fields: the iteration over self.field_inputs() that does not build Expr::coalesce, written
    #     `filter_map(|..| (!vec.contains(col)).then_some(..))`, `filter_map(|..| if !vec.contains(col) { Some(..) } else { None })` or `filter(|..| !vec.contains(col)).map(..)`
    def neg_contains(c):
        neg = False
        while c["k"] in ("paren", "unary"):
            if c["k"] == "unary" and c["op"].strip() == "!":
                neg = not neg
            c = c["e"]
        return neg and c["k"] == "mcall" and c["m"] == "contains" and path_of(c["recv"]) == vp[0] and len(c["args"]) == 1

    def tail_of(body):
        t = body
        while t["k"] == "block":
            st = t["stmts"]
            t = st[-1]["e"] if st and st[-1]["k"] == "expr" and not st[-1].get("semi") else {"k": "none"}
        return t

    chains = []
    for m in find(fa.body, "mcall"):
        r, ch = m, []
        while r["k"] == "mcall":
            ch.insert(0, r)
            r = r["recv"]
        if ch and ch[0]["m"] == "field_inputs" and path_of(r) == "self" and len(ch) > 1:
            chains.append(ch)
    chains = [c for c in chains if not any(len(o) > len(c) and o[: len(c)] == c for o in chains)]
    fwd = [c for c in chains if not any(is_call_to(x, "Expr::coalesce") for m in c for x in find(m, "call"))]
    a_plain = None
    a_txt = None
    if len(fwd) == 1 and vp:
        ch = fwd[0]
        sel = [m for m in ch[1:] if m["m"] in ("filter_map", "filter", "take", "skip", "take_while", "skip_while", "step_by")]
        a_txt = show(ch[-1], 200)
        if len(sel) == 1 and sel[0]["args"] and sel[0]["args"][0]["k"] == "closure":
            cl = sel[0]["args"][0]
            other_stmts = [x for x in walk(cl["body"]) if x["k"] in ("return", "assign") or (x["k"] == "mcall" and x["m"] in ("push", "insert", "extend", "remove"))]
            tail = tail_of(cl["body"])
            if sel[0]["m"] == "filter":
                a_plain = not other_stmts and neg_contains(tail)
            elif sel[0]["m"] == "filter_map":
                cond = None
                if tail["k"] == "mcall" and tail["m"] in ("then_some", "then"):
                    cond = tail["recv"]
                elif tail["k"] == "if" and tail.get("else") is not None:
                    cond = tail["cond"]
                a_plain = cond is not None and not other_stmts and neg_contains(cond)
            else:
                a_plain = False
        elif not sel:
            a_plain = False  # nothing is dropped: coalesced columns are forwarded twice - not "every un-coalesced field once", but nothing is lost either
        else:
            a_plain = False
    # (b) the hierarchy handed to the select-items resolver
    calls = [c for c in find(fb.body, "mcall") if c["m"] == "try_from_select_items_selection_and_group_by" and c["args"]]
    b_plain = None
    b_txt = None
    if len(calls) == 1:
        a0 = calls[0]["args"][0]
        while a0["k"] == "ref":
            a0 = a0["e"]
        for _ in range(4):  # a named local (`let names = columns.filter_map(..)`) is read through
            if a0["k"] != "path" or len(a0["segs"]) != 1:
                break
            ls = [l for l in find(fb.body, "let") if l["pat"]["k"] == "ident" and l["pat"]["name"] == a0["segs"][0] and l.get("init") is not None and not l["pat"].get("mut")]
            if len(ls) != 1:
                break
            a0 = ls[0]["init"]
            while a0["k"] == "ref":
                a0 = a0["e"]
        b_txt = show(a0, 160)
        if a0["k"] == "mcall" and a0["m"] == "filter_map" and a0["args"] and a0["args"][0]["k"] == "closure":
            inner = {m["m"] for m in find(a0["args"][0]["body"], "mcall")}
            b_plain = inner <= {"split_last", "ok", "clone", "to_vec", "cloned", "into", "to_string"} and not list(find(a0["args"][0]["body"], "if")) and path_of(a0["recv"]) == "columns"
        elif a0["k"] == "path":
            b_plain = None
    rep.instance("H10", "Join::remove_duplicates_and_coalesce@forward", {"closure": a_txt, "forwards_every_uncoalesced_field": a_plain})
    rep.instance("H10", "try_from_select@column-map", {"map": b_txt, "unpruned": b_plain})
    if a_plain is None or b_plain is None:
        rep.undecidable("H10", "sites", "cannot read the forwarding closure / the hierarchy passed to the resolver (%s / %s)" % (a_txt, b_txt), fb.where())
    elif not a_plain and not b_plain:
        rep.violation("H10", "using-join@column-map", "the USING/NATURAL join does not forward every un-coalesced input column (%s) AND the column map is pruned before resolution (%s): a shared column outside USING keeps a single candidate and is bound silently" % (a_txt[:90], b_txt[:90]), fb.where())


def h11(rep, src):
    """Every table factor of a FROM item is enumerated: the first one and the one of EACH join."""
    rep.rule(
        "H11",
        "sql/visitor.rs TableWithJoins::tables_with_aliases lists the table of the FROM item (`self.0.relation`) and, in the iteration over `self.0.joins`, the table of that join "
        "(`<join variable>.relation`) - the joins iteration never reads `self.0.relation` again and reads its own variable's `.relation`",
        floor=2,
        necessary="the names collected here are what QueryNames binds to the CTEs and inserts in the table hierarchy with their exact path: a joined CTE that is not listed is not inserted, "
        "and the lookup of `t2` yields the suffix match `sch.t2` although an entry with exactly that path exists",
    )
    fs = [f for f in src.find_fns(name="tables_with_aliases", file="sql/visitor.rs") if f.body and not f.test]
    if len(fs) != 1:
        raise Anchor("sql/visitor.rs: expected one tables_with_aliases, found %d" % len(fs))
    from .canon import helpers_of

    from .canon import canon_view

    f = canon_view(fs[0], src, multi_use=True)  # `let twj = self.0; .. twj.relation .. twj.joins` and a private helper `table_with_alias(&x.relation)` are read through

    def norm(e):
        while e["k"] in ("ref", "paren") or (e["k"] == "unary" and e["op"].strip() in ("&", "*")):
            e = e["e"]
        return e

    def relation_bases(n):
        return [show(norm(x["e"]), 0).replace(" ", "") for x in walk(n) if x["k"] == "field" and x.get("name", x.get("f")) == "relation"]

    # iterations over the joins: closures of an iterator chain rooted at `<..>.joins`, and `for v in <..>.joins..`
    scopes = []
    for m in find(f.body, "mcall"):
        r, rooted = m["recv"], False
        while r is not None:
            r = norm(r)
            if r["k"] == "field" and r.get("name", r.get("f")) == "joins":
                rooted = True
                break
            r = r.get("recv") if r["k"] == "mcall" else None
        if rooted:
            for a in m["args"]:
                if a["k"] == "closure" and len(a["params"]) == 1:
                    scopes.append((pat_binds(a["params"][0]), a["body"], a["l"]))
    for lp in find(f.body, "for"):
        if any(x["k"] == "field" and x.get("name", x.get("f")) == "joins" for x in walk(lp["e"])):
            scopes.append((pat_binds(lp["pat"]), lp["body"], lp["l"]))
    first = [b for b in relation_bases(f.body) if b.startswith("self.")]
    inside_ids = set()
    for _v, body, _l in scopes:
        inside_ids |= {id(x) for x in walk(body)}
    first_outside = [show(norm(x["e"]), 0).replace(" ", "") for x in walk(f.body) if x["k"] == "field" and x.get("name", x.get("f")) == "relation" and id(x) not in inside_ids]
    rep.instance("H11", "tables_with_aliases@first", {"reads": first_outside})
    if not any(b.startswith("self.") for b in first_outside):
        rep.violation("H11", "tables_with_aliases@first", "the table of the FROM item (`self.0.relation`) is not listed", f.where())
    if not scopes:
        rep.violation("H11", "tables_with_aliases@joins", "no iteration over `self.0.joins`: the joined tables are not listed", f.where())
        return
    own = [b for vs, body, _l in scopes for b in relation_bases(body) if b in vs]
    again = [b for vs, body, _l in scopes for b in relation_bases(body) if b.startswith("self.")]
    rep.instance("H11", "tables_with_aliases@joins", {"iterations": len(scopes), "reads_of_the_join": own, "reads_of_the_first_table": again})
    # both places take a table factor apart: a named table (TableFactor::Table) and a sub-query (TableFactor::Derived) each give an entry, in the FROM position as in a JOIN
    for m in find(f.body, "match"):
        sc = norm(m["e"])
        if not (sc["k"] == "field" and sc.get("name") == "relation"):
            continue
        where_ = "joins" if id(m) in inside_ids else "first"
        listed = set()
        for a in m["arms"]:
            for pt in (a["pat"]["cases"] if a["pat"]["k"] == "or" else [a["pat"]]):
                if pt["k"] in ("struct", "tuplestruct") and "TableFactor" in pt["path"]["segs"]:
                    b = a["body"]
                    while b["k"] == "block" and len(b["stmts"]) == 1 and b["stmts"][0]["k"] == "expr":
                        b = b["stmts"][0]["e"]
                    if path_of(b) != "None":
                        listed.add(pt["path"]["segs"][-1])
        key = "tables_with_aliases@%s:variants" % where_
        rep.instance("H11", key, {"position": where_, "table_factors_listed": sorted(listed)})
        for v in ("Table", "Derived"):
            if v not in listed:
                rep.violation("H11", "%s:%s" % (key, v), "in the %s position a TableFactor::%s gives no entry: %s there are never collected" % ("JOIN" if where_ == "joins" else "FROM", v, "table / CTE names" if v == "Table" else "sub-queries"), "src/sql/visitor.rs:%d" % m["l"])
    if again or not own:
        rep.violation(
            "H11",
            "tables_with_aliases@joins",
            "the iteration over the joins %s: the joined tables are never listed" % ("reads `%s.relation` for every join" % again[0] if again else "does not read `<join>.relation`"),
            "src/sql/visitor.rs:%d" % scopes[0][2],
        )


def run(rep):
    rep.explanation = (
        "Static arm-table check of hierarchy.rs (syn AST of the current tree). Decides: the suffix search counts matches with an absorbing `More` and only a single match "
        "is returned (H1, by simulating the fold closure and the Found->Option conversion on the three states); the exact lookup is tried first and get/Index/and_then go through it (H2); "
        "the suffix predicate compares both paths from their last component with `all` (H3); USING coalesces only the listed columns and NATURAL the common ones (H4). Does NOT decide the lookup law over all maps and paths as a whole, nor which column sets "
        "reach the lookup from SQL (joins, aliases, CTE shadowing)."
    )
    src = Src(facts.src_facts())
    from .canon import canon_view

    gkv = canon_view(src.one_fn(name="get_key_value", file=HF, self_ty_re=r"^Hierarchy<"), src, keep={"is_suffix_of", "is_prefix_of"})  # named locals (`let found = ..fold(..)`) and private helpers (`self.unique_with_suffix(path)`) read through
    gkv = loop_form_as_fold(gkv)
    fold, pred = h2(rep, src, gkv)
    if fold is None:
        rep.rule("H1", "ambiguity is absorbing (fold of get_key_value)", floor=9)
        rep.undecidable("H1", "get_key_value@fold", "no fold over the entries found in get_key_value", gkv.where())
    else:
        h1(rep, src, gkv, fold, pred or "is_suffix_of")
    h3(rep, src)
    h4(rep, src)
    h5(rep, src)
    h6(rep, src)
    h7(rep, src)
    h8(rep, src)
    h9(rep, src)
    h10(rep, src)
    h11(rep, src)
    rep.assume("rustc accepts the tree (the syn facts are parsed from the same files the build uses)")
    rep.assume("BTreeMap in hierarchy.rs is std::collections::BTreeMap (no local item of that name: checked)")
