"""C12 — conversions are value-preserving injections within the converted type.

Rules J1–J4 of DESIGN.md §3/C12 over data_type/injection.rs:
  J1  set/value parity of the variant-dispatching impls (`Base<X, DataType>`, `Base<DataType, Y>`, `Base<DataType, DataType>`): syn arm tables
  J2  guards: `value` of every primitive pair goes through checked_value (directly or via value_map*), `super_image` through checked_image / intervals_image; the guards test both ends
  J3  lossy numeric casts are dominated by a round-trip comparison: MIR cast facts + block dominance (bodies of src/data_type/injection.rs incl. closures)
  J4  refusal paths: reviewed table of the primitive pairs (widening / narrowing / rendering); narrowing ones use value_map_option with Some and None both reachable,
      and refuse non-degenerate sets when the domain is dense
"""
import re

from . import facts
from .core import Src, Anchor, find, walk, walk_guards, show, path_of, is_call_to, pat_binds
from .mir import Mir

LEVEL = "other"
EXHAUSTIVE = True
IJ = "data_type/injection.rs"
PRIMS = ["Boolean", "Integer", "Float", "Text", "Bytes", "Date", "Time", "DateTime", "Duration"]


def block_value(n):
    while n is not None and n["k"] == "block":
        st = n["stmts"]
        if not st or st[-1]["k"] != "expr" or st[-1].get("semi"):
            return None
        n = st[-1]["e"]
    if n is not None and n["k"] == "if" and n["cond"]["k"] == "letcond" and n.get("else") is not None:
        # `if let P = e { A } else { B }` is `match e { P => A, _ => B }`
        l = n.get("l", 0)
        return {"k": "match", "l": l, "e": n["cond"]["e"], "arms": [{"l": l, "pat": n["cond"]["pat"], "guard": None, "body": n["then"]}, {"l": n["else"].get("l", l), "pat": {"k": "wild", "l": l}, "guard": None, "body": n["else"]}]}
    return n


def impl_pairs(src):
    """self_ty -> {'super_image': Fn, 'value': Fn} for every `impl Injection for Base<..>`."""
    out = {}
    for f in src.find_fns(file=IJ, trait="Injection"):
        if f.self_ty.startswith("Base<") and f.name in ("super_image", "value"):
            out.setdefault(f.self_ty, {})[f.name] = f
    return out


def base_args(self_ty):
    inner = self_ty[len("Base<") : -1]
    depth, cur, parts = 0, "", []
    for ch in inner:
        if ch == "<":
            depth += 1
        elif ch == ">":
            depth -= 1
        if ch == "," and depth == 0:
            parts.append(cur.strip())
            cur = ""
        else:
            cur += ch
    parts.append(cur.strip())
    return parts


def pat_class(p):
    """'*' for a catch-all, the variant name for DataType::V / value::Value::V patterns, None otherwise."""
    k = p["k"]
    if k in ("wild", "ident"):
        return "*"
    if k == "ref":
        return pat_class(p["pat"])
    segs = None
    if k == "path":
        segs = p["segs"]
    elif k in ("tuplestruct", "struct"):
        segs = p["path"]["segs"]
    if segs and len(segs) >= 2 and segs[-2] in ("DataType", "Value"):
        return segs[-1]
    return None


def turbo(m):
    t = m.get("turbofish") or ""
    return t.replace(":", "").replace("<", "").replace(">", "").replace(" ", "")


def classify(body, final):
    """('err',) | ('conv', route) | ('checked',) | ('null',) | ('null_table',) | ('other', text)"""
    b = block_value(body)
    if b is None:
        return ("other", show(body, 60))
    if b["k"] == "call" and path_of(b["f"]) == "Err":
        return ("err",)
    if b["k"] == "call" and is_call_to(b, "null_super_image"):
        return ("null_table",)
    if b["k"] == "mcall" and b["m"] in ("checked_image", "checked_value") and path_of(b["recv"]) == "self":
        return ("checked",)
    convs = [m for m in find(body, "mcall") if m["m"] == final and path_of(m["recv"]) != "self"]
    if convs:
        froms = [c for c in find(body, "call") if path_of(c["f"]) == "From"]
        route = [turbo(m) for m in find(body, "mcall") if m["m"] in ("then_default", "then")]
        if len(convs) == 1 and len(froms) == 1:
            return ("conv", tuple(route))
    if show(b, 0) == "Ok(DataType::Null)":
        return ("null",)
    return ("other", show(b, 60))


# ------------------------------------------------------------------------------------------------ J1


def j1_x_datatype(rep, ty, X, fns):
    """impl Injection for Base<X, DataType>: `match self.co_domain() { DataType::V(co) => .., _ => Err }` in both functions."""
    tabs = {}
    for name in ("super_image", "value"):
        f = fns[name]
        m = block_value(f.body)
        if m is not None and m["k"] == "match" and m["e"]["k"] == "mcall" and m["e"]["m"] == "co_domain" and path_of(m["e"]["recv"]) == "self":
            tab = {}
            for a in m["arms"]:
                v = pat_class(a["pat"])
                if v is None:
                    rep.undecidable("J1", "%s::%s@%s" % (ty, name, show(a["pat"], 30)), "arm pattern not understood", "src/%s:%d" % (IJ, a["l"]))
                    continue
                cls = classify(a["body"], name)
                if cls[0] == "other":
                    rep.undecidable("J1", "%s::%s@%s" % (ty, name, v), "arm body not understood: %s" % cls[1], "src/%s:%d" % (IJ, a["l"]))
                    cls = ("undecided",)
                g = show(a["guard"], 0) if a.get("guard") else None
                tab.setdefault(v, (cls, g, a["l"]))
            tabs[name] = tab
        else:
            tabs[name] = None
    si, va = tabs["super_image"], tabs["value"]
    if si is None and va is None:
        # no dispatch on the co-domain: both must be the plain guarded identity
        c1, c2 = classify(fns["super_image"].body, "super_image"), classify(fns["value"].body, "value")
        rep.instance("J1", ty, {"impl": ty, "super_image": c1[0], "value": c2[0]}, nontrivial=False)
        if c1 != ("checked",) or c2 != ("checked",):
            rep.undecidable("J1", ty + "@shape", "neither a dispatch on self.co_domain() nor a checked identity", fns["value"].where())
        return
    if si is None or va is None:
        rep.violation("J1", ty + "@shape", "only one of super_image / value dispatches on the co-domain variant", fns["value"].where())
        return
    for v in sorted(set(si) | set(va)):
        a, b = si.get(v), va.get(v)
        key = "%s@%s" % (ty, v)
        sample = {"impl": ty, "co_domain": v, "super_image": None if a is None else a[0][0], "value": None if b is None else b[0][0]}
        where = "src/%s:%d" % (IJ, (b or a)[2])
        if (a and a[0][0] == "undecided") or (b and b[0][0] == "undecided"):
            rep.instance("J1", key, sample)
            continue
        if v == "*":
            rep.instance("J1", key, sample, nontrivial=False)
            for nm, r in (("super_image", a), ("value", b)):
                if r is None or r[0] != ("err",):
                    rep.violation("J1", key, "%s: the catch-all arm of %s does not refuse" % (ty, nm), where)
            continue
        rep.instance("J1", key, sample)
        acc_a = a is not None and a[0][0] != "err"
        acc_b = b is not None and b[0][0] != "err"
        if v == "Null":
            # documented exemption: the empty set converts into Null (guarded by is_empty), no value does
            if acc_a and not (a[1] and "is_empty()" in a[1]):
                rep.violation("J1", key, "%s::super_image accepts Null without the `is_empty()` guard" % ty, where)
            if acc_b:
                rep.violation("J1", key, "%s::value converts a value into Null" % ty, where)
            continue
        if acc_a and a[1]:
            rep.undecidable("J1", key, "guarded arm `%s` in super_image" % a[1], where)
        if acc_b and b[1]:
            rep.undecidable("J1", key, "guarded arm `%s` in value" % b[1], where)
        if acc_a and not acc_b:
            rep.violation("J1", key, "a %s set converts into DataType::%s (super_image accepts the variant) but every %s value is refused (value has no such arm)" % (X, v, X), "src/%s:%d" % (IJ, fns["value"].line))
        elif acc_b and not acc_a:
            rep.violation("J1", key, "a %s value converts into DataType::%s but the type does not (super_image has no such arm)" % (X, v), "src/%s:%d" % (IJ, fns["super_image"].line))
        elif acc_a and acc_b:
            ra = tuple(h for h in a[0][1] if h != X) if a[0][0] == "conv" else a[0]
            rb = tuple(h for h in b[0][1] if h != X) if b[0][0] == "conv" else b[0]
            if ra != rb:
                rep.violation("J1", key + "@route", "%s -> %s: the set goes through %s, the value through %s" % (X, v, list(ra) or "the direct injection", list(rb) or "the direct injection"), where)


def rows_of(rep, ty, fn, n):
    """Rows of `match (x, self.domain()[, self.co_domain()]) { .. }`: [(classes.., cls, guard, line)]."""
    m = block_value(fn.body)
    if m is None or m["k"] != "match" or m["e"]["k"] != "tuple" or len(m["e"]["elems"]) != n:
        return None
    el = m["e"]["elems"]
    want = ["domain", "co_domain"][: n - 1]
    for e, w in zip(el[1:], want):
        if not (e["k"] == "mcall" and e["m"] == w and path_of(e["recv"]) == "self"):
            return None
    rows = []
    for a in m["arms"]:
        p = a["pat"]
        if p["k"] in ("wild", "ident"):
            cs = ["*"] * n
        elif p["k"] == "tuple" and len(p["elems"]) == n:
            cs = [pat_class(x) for x in p["elems"]]
        else:
            cs = [None]
        cls = classify(a["body"], fn.name)
        if None in cs or cls[0] == "other":
            rep.undecidable("J1", "%s::%s@%s" % (ty, fn.name, show(p, 50)), "arm not understood (%s)" % (cls[1] if cls[0] == "other" else "pattern"), "src/%s:%d" % (IJ, a["l"]))
            continue
        rows.append((tuple(cs), cls, show(a["guard"], 0) if a.get("guard") else None, a["l"]))
    return rows


def j1_datatype_y(rep, ty, Y, fns):
    tabs = {n: rows_of(rep, ty, fns[n], 2) for n in ("super_image", "value")}
    if tabs["super_image"] is None and tabs["value"] is None:
        rep.instance("J1", ty, {"impl": ty, "note": "not arm-shaped (fold / find over the fields of the union): parity not decided"}, nontrivial=False)
        return
    if tabs["super_image"] is None or tabs["value"] is None:
        rep.violation("J1", ty + "@shape", "only one of super_image / value dispatches on (argument, domain)", fns["value"].where())
        return
    spec = {}
    for n, rows in tabs.items():
        for cs, cls, g, l in rows:
            if cs == ("*", "*"):
                rep.instance("J1", "%s::%s@*" % (ty, n), {"impl": ty, "fn": n, "default": cls[0]}, nontrivial=False)
                if cls != ("checked",):
                    rep.violation("J1", "%s::%s@*" % (ty, n), "the wrapping default of %s does not go through checked_%s" % (n, "image" if n == "super_image" else "value"), "src/%s:%d" % (IJ, l))
            else:
                spec.setdefault(cs, {})[n] = (cls, l)
    for cs, d in sorted(spec.items()):
        key = "%s@(%s,%s)" % (ty, cs[0], cs[1])
        rep.instance("J1", key, {"impl": ty, "pair": cs, "in": sorted(d)})
        l = list(d.values())[0][1]
        if cs != (Y, Y):
            rep.violation("J1", key, "a (%s argument, %s domain) pair is unwrapped into %s" % (cs[0], cs[1], Y), "src/%s:%d" % (IJ, l))
        if set(d) != {"super_image", "value"}:
            rep.violation("J1", key, "the unwrapping arm exists only in %s" % sorted(d), "src/%s:%d" % (IJ, l))
        elif any(c[0][0] != "conv" for c in d.values()):
            rep.violation("J1", key, "the unwrapping arm does not delegate to the %s -> %s injection in both functions" % (Y, Y), "src/%s:%d" % (IJ, l))


def j1_datatype_datatype(rep, ty, fns):
    tabs = {n: rows_of(rep, ty, fns[n], 3) for n in ("super_image", "value")}
    if tabs["super_image"] is None or tabs["value"] is None:
        rep.undecidable("J1", ty + "@shape", "super_image / value are not `match (x, self.domain(), self.co_domain())`", fns["value"].where())
        return
    co = {"super_image": {}, "value": {}}
    dom = {"super_image": {}, "value": {}}
    for n, rows in tabs.items():
        for cs, cls, g, l in rows:
            where = "src/%s:%d" % (IJ, l)
            if cs == ("*", "*", "*"):
                rep.instance("J1", "%s::%s@*" % (ty, n), {"fn": n, "default": cls[0]}, nontrivial=False)
                if cls != ("err",):
                    rep.violation("J1", "%s::%s@*" % (ty, n), "the catch-all arm of %s does not refuse" % n, where)
            elif cs[2] != "*":
                if cs[0] != "*" or cs[1] != "*":
                    rep.undecidable("J1", "%s::%s@%s" % (ty, n, cs), "arm keyed on both the domain and the co-domain", where)
                co[n].setdefault(cs[2], (cls, l))
            elif cs[1] == "Null":
                if n == "super_image":
                    ok = cls == ("null_table",) and (cs[0] == "Null" or (g and "is_empty()" in g))
                    rep.instance("J1", "%s::super_image@Null<-%s" % (ty, cs[0]), {"fn": n, "set": cs[0], "guard": g, "answer": cls[0]})
                    if not ok:
                        rep.violation("J1", "%s::super_image@Null<-%s" % (ty, cs[0]), "a set that is not known to be empty converts from the Null domain", where)
                else:
                    rep.instance("J1", "%s::value@Null" % ty, {"fn": n, "answer": cls[0]})
                    if cls != ("err",):
                        rep.violation("J1", "%s::value@Null" % ty, "a value of the (empty) Null domain is converted", where)
            elif cs[1] != "*":
                if cs[0] != cs[1]:
                    rep.violation("J1", "%s::%s@(%s,%s)" % (ty, n, cs[0], cs[1]), "a %s %s is dispatched with a %s domain" % (cs[0], "set" if n == "super_image" else "value", cs[1]), where)
                if g:
                    rep.undecidable("J1", "%s::%s@%s" % (ty, n, cs[1]), "guarded arm `%s`" % g, where)
                dom[n].setdefault(cs[1], (cls, l))
            else:
                rep.undecidable("J1", "%s::%s@%s" % (ty, n, cs), "arm keyed on the argument only", where)
    for what, t in (("co-domain", co), ("domain", dom)):
        for v in sorted(set(t["super_image"]) | set(t["value"])):
            a, b = t["super_image"].get(v), t["value"].get(v)
            key = "%s@%s:%s" % (ty, what, v)
            rep.instance("J1", key, {"impl": ty, what: v, "super_image": None if a is None else a[0][0], "value": None if b is None else b[0][0]})
            acc_a = a is not None and a[0][0] != "err"
            acc_b = b is not None and b[0][0] != "err"
            where = "src/%s:%d" % (IJ, (a or b)[1])
            if acc_a != acc_b:
                rep.violation("J1", key, "%s %s is accepted by %s only" % (what, v, "super_image" if acc_a else "value"), where)
            elif acc_a and a[0][0] != b[0][0]:
                rep.violation("J1", key, "%s %s: super_image answers by `%s`, value by `%s`" % (what, v, a[0][0], b[0][0]), where)


def j1(rep, src, impls):
    rep.rule(
        "J1",
        "set/value parity: for every `impl Injection for Base<X, DataType>`, `Base<DataType, Y>` and `Base<DataType, DataType>` the co-domain (resp. domain) variants accepted by super_image are "
        "the ones accepted by value, through the same chain of intermediate types; exemptions: the `Null if is_empty()` arm (an empty set converts, no value exists), catch-alls refuse in both",
        floor=60,
        necessary="`A converts into B` is decided by super_image and `v converts` by value: a variant accepted by one only gives a type that converts while its values are refused (or the converse)",
    )
    n = 0
    for ty, fns in impls.items():
        args = base_args(ty)
        if len(args) != 2 or "DataType" not in args:
            continue
        if set(fns) != {"super_image", "value"}:
            raise Anchor("%s: super_image / value pair incomplete" % ty)
        n += 1
        if args == ["DataType", "DataType"]:
            j1_datatype_datatype(rep, ty, fns)
        elif args[1] == "DataType":
            j1_x_datatype(rep, ty, args[0], fns)
        else:
            j1_datatype_y(rep, ty, args[1], fns)
    rep.extra["j1_impls"] = n
    if n < 20:
        rep.error("J1: only %d variant-dispatching impls found (24 on the pinned tree)" % n)


# ------------------------------------------------------------------------------------------------ J2


def guard_literals(guards):
    """[(text of the tested call, polarity)] for enclosing if-conditions, `!` folded into the polarity."""
    out = []
    for g in guards:
        if g[0] != "if":
            continue
        c, pol = g[1], g[2]
        while c["k"] == "unary" and c["op"] == "!":
            c, pol = c["e"], not pol
        out.append((show(c, 0), pol))
    return out


def j2(rep, src, impls):
    rep.rule(
        "J2",
        "guarded values and images: (a) `value` of every primitive pair `Base<A, B>` (A, B primitive) and of the identity returns `self.checked_value(arg, ..)`, `self.value_map(f, arg)` or "
        "`self.value_map_option(f, arg)`; (b) value_map / value_map_option return self.checked_value(arg, ..); (c) checked_value answers Ok(value) only when domain().contains(arg) and "
        "co_domain().contains(&value); (d) `super_image` of these impls answers through self.intervals_image / self.checked_image or refuses; (e) intervals_image returns self.checked_image(set, ..); "
        "(f) checked_image answers Ok(image) only when set ⊆ domain() and image ⊆ co_domain()",
        floor=34,
        necessary="a conversion that bypasses the guard may return a value outside the converted type (or accept an argument outside the domain)",
    )
    helpers = {}
    for nm in ("checked_value", "checked_image", "value_map", "value_map_option", "intervals_image"):
        r = [f for f in src.find_fns(name=nm, file=IJ) if (f.self_ty or "").startswith("Base<") and not f.trait]
        if len(r) != 1:
            raise Anchor("Base::%s: expected one definition, found %d" % (nm, len(r)))
        helpers[nm] = r[0]
    # (c) / (f)
    for nm, first, second, tests in (
        ("checked_value", 0, 1, ("self.domain().contains(%s)", "self.co_domain().contains(&%s)")),
        ("checked_image", 0, 1, ("%s.is_subset_of(&self.domain())", "%s.is_subset_of(&self.co_domain())")),
    ):
        f = helpers[nm]
        ps = [p["pat"]["name"] for p in f.params if not p.get("self")]
        from .util_terms import desugar_early_returns

        from .canon import subst as _subst

        # `let domain = self.domain(); if !set.is_subset_of(&domain) { .. }`: a local that names the accessor is the accessor
        acc = {l["pat"]["name"]: l["init"] for l in find(f.body, "let") if l["pat"]["k"] == "ident" and l.get("init") is not None and l["init"]["k"] == "mcall" and l["init"]["m"] in ("domain", "co_domain") and not l["init"]["args"] and path_of(l["init"]["recv"]) == "self"}
        body_j2 = f.body
        if acc and f.body["k"] == "block":
            body_j2 = _subst(dict(f.body, stmts=[st for st in f.body["stmts"] if not (st["k"] == "let" and st["pat"]["k"] == "ident" and st["pat"]["name"] in acc)]), acc)
        oks = [(x, g) for x, g in walk_guards(desugar_early_returns(body_j2)) if x["k"] == "call" and path_of(x["f"]) == "Ok"]  # `if !c { return Err } Ok(v)` == `if c { Ok(v) } else { Err }`
        want = {tests[0] % ps[first], tests[1] % ps[second]}
        rep.instance("J2", "Base::%s@Ok" % nm, {"fn": nm, "ok_sites": len(oks), "required_tests": sorted(want)})
        if len(oks) != 1:
            rep.undecidable("J2", "Base::%s@Ok" % nm, "expected a single Ok(..) result, found %d" % len(oks), f.where())
            continue
        x, guards = oks[0]
        lits = guard_literals(guards)
        if show(x["args"], 0) != ps[second]:
            rep.violation("J2", "Base::%s@Ok" % nm, "%s returns %s instead of its checked argument `%s`" % (nm, show(x, 40), ps[second]), f.where())
        for w in sorted(want):
            got = [pol for t, pol in lits if t == w]
            if not got:
                rep.violation("J2", "Base::%s@%s" % (nm, w.split(".")[1].split("(")[0] if nm == "checked_value" else ("domain" if "self.domain" in w else "co_domain")), "Ok(..) of %s is not conditioned on `%s`" % (nm, w), f.where())
            elif not all(got):
                rep.violation("J2", "Base::%s@%s" % (nm, "domain" if "self.domain" in w else "co_domain"), "Ok(..) of %s is returned when `%s` is FALSE" % (nm, w), f.where())
    # (b) / (e)
    for nm, callee, pos_name in (("value_map", "checked_value", "arg"), ("value_map_option", "checked_value", "arg"), ("intervals_image", "checked_image", "set")):
        f = helpers[nm]
        ps = [p["pat"]["name"] for p in f.params if not p.get("self")]
        elem = [p["pat"]["name"] for p in f.params if not p.get("self") and p["ty"].replace(" ", "").startswith("&")]
        t = block_value(f.body)

        def through_guard(e):
            """every value the expression can take is `self.<callee>(<the argument>, ..)` or an `Err(..)`"""
            e = block_value(e) if e is not None and e["k"] == "block" else e
            if e is None:
                return False
            if e["k"] == "match":
                return all(through_guard(a["body"]) for a in e["arms"])
            if e["k"] == "if" and e.get("else") is not None:
                return through_guard(e["then"]) and through_guard(e["else"])
            if e["k"] == "call" and path_of(e["f"]) == "Err":
                return True
            return e["k"] == "mcall" and e["m"] == callee and path_of(e["recv"]) == "self" and len(e["args"]) == 2 and bool(elem) and path_of(e["args"][0]) == elem[-1]

        ok = t is not None and through_guard(t) and any(x["k"] == "mcall" and x["m"] == callee for x in walk(t))
        rep.instance("J2", "Base::%s@return" % nm, {"fn": nm, "returns": show(t, 70)})
        if not ok:
            rep.violation("J2", "Base::%s@return" % nm, "%s does not return self.%s(<its argument>, ..): %s" % (nm, callee, show(t, 80)), f.where())
        for r in find(f.body, "return"):
            rv = r.get("e")
            if rv is not None and rv["k"] == "call" and path_of(rv["f"]) == "Err":
                continue  # an early refusal: no value leaves without the guard
            rep.violation("J2", "Base::%s@return" % nm, "%s has an early `return` of a value that does not go through self.%s" % (nm, callee), "src/%s:%d" % (IJ, r["l"]))
    # (a) / (d)
    n = 0
    for ty, fns in impls.items():
        args = base_args(ty)
        prim = len(args) == 2 and ((args[0] in PRIMS and args[1] in PRIMS) or (args[0] == args[1] and args[0] not in ("DataType",) and args[0][0].isupper() and args[0] not in ("Struct", "Union", "Optional", "List", "Set", "Array")))
        if not prim:
            continue
        n += 1
        f = fns["value"]
        argp = [p["pat"]["name"] for p in f.params if not p.get("self")][0]
        t = block_value(f.body)
        ok = False
        via = None
        if t is not None and t["k"] == "mcall" and path_of(t["recv"]) == "self":
            via = t["m"]
            if via == "checked_value" and len(t["args"]) == 2 and path_of(t["args"][0]) == argp:
                ok = True
            if via in ("value_map", "value_map_option") and len(t["args"]) == 2 and path_of(t["args"][1]) == argp and t["args"][0]["k"] == "closure":
                ok = True
        rets = list(find(f.body, "return", into_closures=False))
        rep.instance("J2", ty + "::value", {"impl": ty, "value_returns_through": via})
        if not ok or rets:
            rep.violation("J2", ty + "::value", "%s::value does not return through checked_value / value_map / value_map_option on its argument: %s" % (ty, show(t, 80)), f.where())
        f = fns["super_image"]
        setp = [p["pat"]["name"] for p in f.params if not p.get("self")][0]
        results = []

        def leaves(e):
            e = block_value(e) if e is not None else None
            if e is None:
                return [None]
            if e["k"] == "if":
                return leaves(e["then"]) + (leaves(e["else"]) if e.get("else") else [None])
            if e["k"] == "match":
                out = []
                for a in e["arms"]:
                    out += leaves(a["body"])
                return out
            return [e]

        for lf in leaves(f.body) + [r.get("e") for r in find(f.body, "return", into_closures=False)]:
            if lf is None:
                results.append(("?", None))
            elif lf["k"] == "mcall" and path_of(lf["recv"]) == "self" and lf["m"] == "intervals_image" and len(lf["args"]) == 1:
                results.append(("intervals_image", lf))
            elif lf["k"] == "mcall" and path_of(lf["recv"]) == "self" and lf["m"] == "checked_image" and len(lf["args"]) == 2 and path_of(lf["args"][0]) == setp:
                results.append(("checked_image", lf))
            elif lf["k"] == "call" and path_of(lf["f"]) == "Err":
                results.append(("Err", lf))
            else:
                results.append(("unchecked", lf))
        rep.instance("J2", ty + "::super_image", {"impl": ty, "super_image_answers": [r[0] for r in results]})
        for kind, lf in results:
            if kind in ("unchecked", "?"):
                rep.violation(
                    "J2",
                    ty + "::super_image",
                    "%s::super_image answers `%s` without checked_image: the image is not checked to lie in the co-domain" % (ty, show(lf, 50)),
                    "src/%s:%d" % (IJ, lf["l"] if lf else f.line),
                )
    rep.extra["j2_primitive_impls"] = n
    return helpers


# ------------------------------------------------------------------------------------------------ J4

PAIRS = {
    # (A, B): (class, needs an all_values guard in super_image, reason)
    ("Boolean", "Integer"): ("widening", False, "false/true -> 0/1"),
    ("Integer", "Float"): ("widening", False, "every i64 is sent to the nearest f64 (exact up to 2^53: see J3)"),
    ("Date", "DateTime"): ("widening", False, "d -> d 00:00:00"),
    ("Text", "Bytes"): ("widening", False, "UTF-8 bytes of the text"),
    ("Integer", "Boolean"): ("narrowing", False, "only 0 and 1 convert; an integer interval whose two ends are in {0,1} contains nothing else, so the end-point test of intervals_image suffices"),
    ("Float", "Integer"): ("narrowing", True, "only integral floats convert; a non-degenerate float interval with integral ends contains non-integral values"),
    ("DateTime", "Date"): ("narrowing", True, "only midnights convert; a non-degenerate datetime interval with midnight ends contains other instants"),
    ("Boolean", "Text"): ("render", False, "format!"),
    ("Integer", "Text"): ("render", "guard", "format! is not order-preserving (\"5\" > \"1000\"): the end-point image of an interval is unsound, so intervals_image needs single values"),
    ("Float", "Text"): ("render", "guard", "format! is not order-preserving (\"5\" > \"1000\"): the end-point image of an interval is unsound, so intervals_image needs single values"),
    ("Date", "Text"): ("render", "guard", "format! is not order-preserving (\"5\" > \"1000\"): the end-point image of an interval is unsound, so intervals_image needs single values"),
    ("Time", "Text"): ("render", "guard", "format! is not order-preserving (\"5\" > \"1000\"): the end-point image of an interval is unsound, so intervals_image needs single values"),
    ("DateTime", "Text"): ("render", "guard", "format! is not order-preserving (\"5\" > \"1000\"): the end-point image of an interval is unsound, so intervals_image needs single values"),
    ("Duration", "Text"): ("render", "guard", "format! is not order-preserving (\"5\" > \"1000\"): the end-point image of an interval is unsound, so intervals_image needs single values"),
}


def closure_results(c):
    """Leaf result expressions of a closure body."""
    out = []

    def rec(e):
        e = block_value(e)
        if e is None:
            out.append(None)
        elif e["k"] == "if":
            rec(e["then"])
            if e.get("else"):
                rec(e["else"])
            else:
                out.append(None)
        elif e["k"] == "match":
            for a in e["arms"]:
                rec(a["body"])
        elif e["k"] == "mcall" and e["m"] in ("then_some", "then") and len(e["args"]) == 1:
            # `cond.then_some(v)` == `if cond { Some(v) } else { None }`
            v = e["args"][0]
            if e["m"] == "then" and v["k"] == "closure":
                v = block_value(v["body"]) if v["body"]["k"] == "block" else v["body"]
            out.append({"k": "call", "f": {"k": "path", "p": "Some", "segs": ["Some"]}, "args": [v], "l": e.get("l", 0)})
            out.append({"k": "path", "p": "None", "segs": ["None"], "l": e.get("l", 0)})
        else:
            out.append(e)

    rec(c["body"])
    # early `return x;` statements inside the closure are results as well (`if bad { return None; } Some(v)`)
    def returns(n, top=True):
        if isinstance(n, list):
            for x in n:
                returns(x, top)
        elif isinstance(n, dict):
            if n.get("k") == "closure" and not top:
                return
            if n.get("k") == "return" and n.get("e") is not None:
                out.append(n["e"])
            for v in n.values():
                if isinstance(v, (dict, list)):
                    returns(v, False)

    returns(c["body"])
    return out


def j4(rep, src, impls):
    rep.rule(
        "J4",
        "refusal paths: every primitive pair `Base<A, B>` (A != B) is in the reviewed table (widening / narrowing / text rendering); a narrowing pair converts values with value_map_option "
        "through a closure with a `Some(..)` result and a `None` result on different branches; a widening / rendering pair may use value_map; a narrowing pair over a dense domain "
        "(Float -> Integer, DateTime -> Date) computes intervals_image only under `set.all_values()` and refuses (Err) otherwise",
        floor=14,
        necessary="a narrowing conversion without a reachable refusal approximates (1.5 -> 1, 2 -> true); an interval image computed from the two ends declares convertible a type whose inner values are refused",
    )
    seen = set()
    # which primitive pairs the generic tables `Base<X, DataType>` dispatch to (these are what DataType::into_data_type, hence is_subset_of / super_union, can reach)
    dispatched = set()
    for ty, fns in impls.items():
        a2 = base_args(ty)
        if len(a2) == 2 and a2[1] == "DataType" and a2[0] in PRIMS:
            m = block_value(fns["super_image"].body)
            if m is not None and m["k"] == "match":
                for arm in m["arms"]:
                    v = pat_class(arm["pat"])
                    if v:
                        dispatched.add((a2[0], v))
    for ty, fns in impls.items():
        args = base_args(ty)
        if not (len(args) == 2 and args[0] in PRIMS and args[1] in PRIMS and args[0] != args[1]):
            continue
        pair = (args[0], args[1])
        seen.add(pair)
        if pair not in PAIRS:
            rep.instance("J4", ty, {"impl": ty, "class": None})
            rep.undecidable("J4", ty, "%s -> %s is not in the reviewed table of primitive conversions (widening / narrowing / rendering?)" % pair, fns["value"].where())
            continue
        cls, dense, reason = PAIRS[pair]
        f = fns["value"]
        t = block_value(f.body)
        via = t["m"] if t is not None and t["k"] == "mcall" and path_of(t["recv"]) == "self" else None
        sample = {"impl": ty, "class": cls, "why": reason, "value_through": via}
        clo = t["args"][0] if via == "value_map_option" and t["args"] and t["args"][0]["k"] == "closure" else None
        if cls != "narrowing":
            rep.instance("J4", ty, sample, nontrivial=False)
        elif clo is None:
            rep.instance("J4", ty, sample)
            rep.violation("J4", ty, "the narrowing conversion %s -> %s does not use value_map_option(<closure>, arg) (found %s): no value can be refused" % (pair[0], pair[1], via), f.where())
        else:
            res = closure_results(clo)
            somes = [r for r in res if r is not None and r["k"] == "call" and path_of(r["f"]) == "Some"]
            nones = [r for r in res if r is not None and path_of(r) == "None"]
            odd = [r for r in res if r is None or not ((r["k"] == "call" and path_of(r["f"]) == "Some") or path_of(r) == "None")]
            sample.update({"some_results": len(somes), "none_results": len(nones)})
            rep.instance("J4", ty, sample)
            if odd:
                rep.undecidable("J4", ty, "closure result not understood: %s" % show(odd[0], 60), f.where())
            elif not nones:
                rep.violation("J4", ty, "the closure of %s -> %s never answers None: nothing is refused" % pair, f.where())
            elif not somes:
                rep.violation("J4", ty, "the closure of %s -> %s never answers Some" % pair, f.where())
        # images of dense narrowing pairs
        g = fns["super_image"]
        setp = [p["pat"]["name"] for p in g.params if not p.get("self")][0]
        from .util_terms import desugar_early_returns

        gbody = desugar_early_returns(g.body)  # `if !set.all_values() { return Err(..) } self.intervals_image(set)` is the guarded form
        sites = [(x, gd) for x, gd in walk_guards(gbody) if x["k"] == "mcall" and x["m"] == "intervals_image" and path_of(x["recv"]) == "self"]
        key = ty + "::super_image@all_values" + ("@dispatched" if pair in dispatched else "")
        if not dense:
            rep.instance("J4", key, {"impl": ty, "dense_domain": False, "why": reason}, nontrivial=False)
            continue
        guarded = bool(sites) and all(any(t_.endswith(".all_values()") and pol for t_, pol in guard_literals(gd)) for x, gd in sites)
        e = block_value(gbody)
        is_err = lambda v: v is not None and v["k"] == "call" and path_of(v["f"]) == "Err"
        refuses = e is not None and e["k"] == "if" and e.get("else") is not None and (is_err(block_value(e["else"])) or is_err(block_value(e["then"])))
        rep.instance("J4", key, {"impl": ty, "dense_domain": True, "intervals_image_under_all_values": guarded, "refuses_otherwise": refuses, "dispatched_from_Base<%s, DataType>" % pair[0]: pair in dispatched})
        if not sites:
            rep.undecidable("J4", key, "no intervals_image call in super_image", g.where())
        elif not guarded:
            rep.violation(
                "J4",
                key,
                "%s::super_image computes the image from the two ends of each interval without requiring `%s.all_values()`: a non-degenerate set with convertible ends converts as a type while its inner values are refused by value"
                % (ty, setp),
                g.where(),
            )
        elif dense is True and not refuses:
            rep.violation("J4", key, "%s::super_image does not answer Err when the set is not made of single values" % ty, g.where())
        # what is answered when the image is NOT computed from the values: a refusal, or a type that contains every possible image - the full type of the target variant
        def _leaves(v):
            v = block_value(v) if v is not None else None
            if v is None:
                return [None]
            if v["k"] == "if":
                return _leaves(v["then"]) + (_leaves(v["else"]) if v.get("else") is not None else [None])
            if v["k"] == "match":
                return [l for a in v["arms"] for l in _leaves(a["body"])]
            return [v]

        fkey = ty + "::super_image@fallback" + ("@dispatched" if pair in dispatched else "")
        for lf in _leaves(gbody):
            if lf is None or is_err(lf) or any(x is s_[0] for s_ in sites for x in walk(lf)):
                continue
            t_ = show(lf, 0).replace(" ", "")
            full = t_ in ("Ok(%s::full())" % pair[1], "Ok(%s::default())" % pair[1], "Ok(data_type::%s::full())" % pair[1], "Ok(data_type::%s::default())" % pair[1])
            rep.instance("J4", fkey, {"impl": ty, "answer_without_enumeration": show(lf, 60), "is_full_target_type": full}, nontrivial=False)
            if not full:
                rep.violation(
                    "J4",
                    fkey,
                    "%s::super_image answers `%s` for a set it does not enumerate: only the full %s type (or a refusal) contains every possible image - `self.co_domain()` is whatever type the caller asked to convert into"
                    % (ty, show(lf, 50), pair[1]),
                    g.where(),
                )
    for pair in PAIRS:
        if pair not in seen:
            rep.error("J4: impl Injection for Base<%s, %s> not found (reviewed table is stale)" % pair)


def j7(rep, src):
    """Composite liftings and dispatchers build their inner injection FROM the domain side INTO the co-domain side."""
    rep.rule(
        "J7",
        "every inner injection `From(A).into(B)` built inside `impl Injection for Base<..>::{super_image, value}` goes from the domain side to the co-domain side: A does not mention the co-domain, "
        "B does not mention the domain (self.domain / self.domain() / a `domain` local) - in `value` exactly as in `super_image`",
        floor=100,
        necessary="an element converted with an injection domain -> domain (a copy-paste slip in `value` only) comes back unconverted: option(int) -> option(float) maps some(3) to some(3), "
        "a value that is neither in the converted type nor in the target, while super_image still announces the converted type",
    )
    import re as _re

    for f in src.find_fns(file=IJ, trait="Injection"):
        if f.name not in ("super_image", "value") or not f.body or not (f.self_ty or "").startswith("Base<"):
            continue
        k = 0
        for m in find(f.body, "mcall"):
            if m["m"] != "into" or m["recv"]["k"] != "call" or path_of(m["recv"]["f"]) != "From" or not m["args"] or not m["recv"]["args"]:
                continue
            a, b = show(m["recv"]["args"][0], 0).replace(" ", ""), show(m["args"][0], 0).replace(" ", "")
            k += 1
            key = "%s::%s#%d" % (f.self_ty, f.name, k)
            bad = []
            if "co_domain" in a:
                bad.append("the source `%s` is taken from the co-domain" % a[:60])
            if _re.search(r"(?<![A-Za-z_])domain", b.replace("co_domain", "")):
                bad.append("the target `%s` is taken from the domain" % b[:60])
            rep.instance("J7", key, {"impl": f.self_ty, "fn": f.name, "from": a[:60], "into": b[:60]}, nontrivial=False)
            if bad:
                rep.violation("J7", "%s::%s@inner-injection" % (f.self_ty, f.name), "%s::%s builds an inner injection the wrong way round: %s" % (f.self_ty, f.name, "; ".join(bad)), "src/%s:%d" % (IJ, m["l"]))


def j8(rep, src):
    """The per-variant tables of `impl Variant for DataType` cover every variant that carries a type."""
    rep.rule(
        "J8",
        "`<DataType as Variant>::{minimal_subset, maximal_superset, try_empty}` dispatch to the variant's own method for EVERY variant of `enum DataType` that carries a payload "
        "(listed in `for_all_variants!(.., [..], default)` or matched by an explicit `DataType::V(x)` arm): a variant left to the default arm gets Null / Any / an error instead of its own bound",
        floor=40,
        necessary="`a.into_variant(&b)` is `b.maximal_superset().and_then(|var| a.into_data_type(&var))`: with the variant of b left to the default arm the target is Any, the injection into Any is the "
        "identity, and the 'converted type' is A itself although the converted values (date -> datetime) are not in it",
    )
    DT = "data_type/mod.rs"
    enum = src.find_items("enum", name="DataType", file=DT)
    if len(enum) != 1:
        raise Anchor("enum DataType: expected one definition in %s" % DT)
    payload = [v["name"] for v in enum[0][2]["variants"] if v["fields"]]
    for name in ("minimal_subset", "maximal_superset", "try_empty"):
        fs = [f for f in src.find_fns(file=DT, trait="Variant") if f.name == name and f.self_ty == "DataType" and f.body]
        if len(fs) != 1:
            raise Anchor("<DataType as Variant>::%s: expected one definition, found %d" % (name, len(fs)))
        f = fs[0]
        covered = set()
        for x in walk(f.body):
            if x.get("k") == "macro" and x.get("name") == "for_all_variants" and x.get("args"):
                for a in x["args"]:
                    if a.get("k") == "array":
                        covered |= {path_of(e) for e in a["elems"] if path_of(e)}
            if x.get("k") == "match":
                for arm in x["arms"]:
                    for pp in walk(arm["pat"]):
                        segs = (pp.get("path") or {}).get("segs", []) if pp.get("k") == "tuplestruct" else []
                        if len(segs) >= 2 and segs[-2] in ("DataType", "Self"):
                            covered.add(segs[-1])
        for v in payload:
            key = "%s@%s" % (name, v)
            rep.instance("J8", key, {"fn": name, "variant": v, "dispatched": v in covered}, nontrivial=False)
            if v not in covered:
                rep.violation("J8", key, "<DataType as Variant>::%s does not dispatch DataType::%s to the variant's own %s (it falls to the default arm)" % (name, v, name), f.where())


def j9(rep, src, impls):
    """Only the empty set injects into the empty type."""
    rep.rule(
        "J9",
        "`impl Injection for Base<X, DataType>::super_image`: an arm that accepts the co-domain `DataType::Null` (answers `Ok(..)`) is guarded by the emptiness of the domain / of the set "
        "(`if self.domain().is_empty()`, `if set.is_empty()`)",
        floor=7,
        necessary="DataType::is_subset_of decides `(s, Null)` by injecting s into Null: an unguarded arm makes every boolean type a subset of the empty type, `bool == null`, "
        "and the inclusion holds for struct / optional / list types built on it - each with a witness value on the left that is not on the right",
    )
    for ty, fns in sorted(impls.items()):
        a = base_args(ty)
        if not a or a[1] != "DataType" or "super_image" not in fns:
            continue
        f = fns["super_image"]
        k = 0
        for m in find(f.body, "match"):
            for arm in m["arms"]:
                pats = arm["pat"]["cases"] if arm["pat"]["k"] == "or" else [arm["pat"]]
                for pt in pats:
                    hit = None
                    if pt["k"] == "path" and pt["segs"][-2:] == ["DataType", "Null"]:
                        hit = pt
                    elif pt["k"] == "tuple":
                        # (domain, co-domain, ..) tables: the co-domain component is Null while the domain component is a payload variant
                        comps = pt["elems"]
                        if len(comps) >= 2 and comps[1]["k"] == "path" and comps[1]["segs"][-2:] == ["DataType", "Null"] and comps[0]["k"] == "tuplestruct":
                            hit = pt
                    if hit is None:
                        continue
                    body = arm["body"]
                    answers_ok = any(c["k"] == "call" and path_of(c["f"]) == "Ok" for c in walk(body)) or not any(c["k"] == "call" and (path_of(c["f"]) or "").startswith("Err") for c in walk(body))
                    g = show(arm["guard"], 0).replace(" ", "") if arm.get("guard") else ""
                    guarded = "is_empty()" in g
                    k += 1
                    key = "%s::super_image@Null%s" % (ty, "" if k == 1 else "#%d" % k)
                    rep.instance("J9", key, {"impl": ty, "guard": g or None, "answers_ok": answers_ok}, nontrivial=False)
                    if answers_ok and not guarded:
                        rep.violation("J9", key, "%s::super_image accepts the empty type as co-domain without testing that the set is empty: every %s type becomes a subset of Null" % (ty, a[0]), "src/%s:%d" % (IJ, arm["l"]))


# ------------------------------------------------------------------------------------------------ J3 (MIR)

INT_BITS = {"i8": 8, "i16": 16, "i32": 32, "i64": 64, "i128": 128, "isize": 64, "u8": 8, "u16": 16, "u32": 32, "u64": 64, "u128": 128, "usize": 64}
MANT = {"f32": 24, "f64": 53}


def lossy(kind, frm, to):
    """Is `frm as to` able to send two values to one / change the value?  None = not a numeric cast."""
    if kind == "IntToInt":
        if frm in ("bool", "char"):
            return False
        if frm in INT_BITS and to in INT_BITS:
            fs, ts = frm[0] == "i", to[0] == "i"
            fb, tb = INT_BITS[frm], INT_BITS[to]
            if fs == ts:
                return tb < fb
            if not fs and ts:
                return tb <= fb
            return True
        return True
    if kind == "IntToFloat":
        if frm in INT_BITS and to in MANT:
            return INT_BITS[frm] - (1 if frm[0] == "i" else 0) > MANT[to]
        return True
    if kind == "FloatToInt":
        return True
    if kind == "FloatToFloat":
        return MANT.get(to, 0) < MANT.get(frm, 99)
    return None


def short(path):
    import re

    return re.sub(r"\b(?:[a-z_][a-z_0-9]*::)+(?=[A-Z<])", "", path)


def j3(rep, mir):
    rep.rule(
        "J3",
        "lossy numeric casts in src/data_type/injection.rs (MIR of every body incl. closures; lossy = float->int, int->float beyond the mantissa, narrowing or sign-changing int->int, f64->f32): "
        "the cast either belongs to a round-trip test `((x as T) as S) == x` or sits in a block dominated by the true branch of such a test on the same x and T",
        floor=4,
        necessary="an unguarded lossy cast sends two source values to one target value (2^53 and 2^53+1 -> 9007199254740992.0) or approximates (1.5 -> 1): not an injection / not refused",
    )
    bodies = [b for b in mir.bodies if b.get("file") == "src/" + IJ]
    if len(bodies) < 100:
        raise Anchor("MIR: only %d bodies in src/%s" % (len(bodies), IJ))
    for b in bodies:
        casts = []
        for bi, bl in enumerate(b["blocks"]):
            for si, st in enumerate(bl["s"]):
                rv = st[1]
                if rv[0] == "cast" and rv[1] in ("IntToInt", "IntToFloat", "FloatToInt", "FloatToFloat"):
                    casts.append((bi, si, st))
        if not casts:
            continue
        defs = {}
        ndef = {}
        for bi, bl in enumerate(b["blocks"]):
            for st in bl["s"]:
                if st[0][1] == "":
                    ndef[st[0][0]] = ndef.get(st[0][0], 0) + 1
                    defs[st[0][0]] = st[1]

        def root(op):
            """Source place of an operand through single-assignment copies."""
            seen = 0
            while op[0] in ("c", "m") and op[1][1] == "" and ndef.get(op[1][0]) == 1 and defs[op[1][0]][0] == "use" and seen < 20:
                op = defs[op[1][0]][1]
                seen += 1
            return ("place", op[1][0], op[1][1]) if op[0] in ("c", "m") else ("const", str(op[1]))

        def ty_of_operand(op):
            if op[0] in ("c", "m"):
                t = mir.types[b["locals"][op[1][0]]]
                pr = op[1][1]
                if pr == "":
                    return t
                if pr == "*" and t.startswith("&"):
                    return t.lstrip("&").replace("mut ", "").strip()
                return t + pr
            return mir.types[op[2]] if len(op) > 2 and isinstance(op[2], int) else "?"

        # predecessors / dominators
        nb = len(b["blocks"])
        succ = [[] for _ in range(nb)]
        for bi, bl in enumerate(b["blocks"]):
            t = bl["t"]
            k = t[0]
            tg = []
            if k == "goto":
                tg = [t[1]]
            elif k == "switch":
                tg = [x[1] for x in t[2]] + [t[3]]
            elif k == "call":
                tg = [t[4]]
            elif k == "drop":
                tg = [t[2]]
            elif k == "assert":
                tg = [t[4]]
            for x in tg:
                if isinstance(x, int) and 0 <= x < nb:
                    succ[bi].append(x)
        pred = [[] for _ in range(nb)]
        for i, ss in enumerate(succ):
            for s in ss:
                pred[s].append(i)
        # round-trip tests: (root x, T, true-target block, local holding `x as T`)
        def resolve(op):
            """(local, defining rvalue) of an operand through single-assignment copies; None for projections / multi-defs."""
            n = 0
            while op[0] in ("c", "m") and op[1][1] == "" and ndef.get(op[1][0]) == 1 and n < 20:
                rv = defs[op[1][0]]
                if rv[0] == "use":
                    op = rv[1]
                    n += 1
                    continue
                return op[1][0], rv
            return None

        tests = []
        part_of_test = {}
        for bi, bl in enumerate(b["blocks"]):
            t = bl["t"]
            if t[0] != "switch":
                continue
            r = resolve(t[1])
            if r is None or r[1][0] != "bin" or r[1][1] not in ("Eq", "Ne"):
                continue
            rv = r[1]
            zero = [x_[1] for x_ in t[2] if str(x_[0]) == "0"]
            if len(zero) != 1 or len(t[2]) != 1:
                continue
            tt = t[3] if rv[1] == "Eq" else zero[0]
            if pred[tt] != [bi]:
                continue
            for a, o in ((rv[2], rv[3]), (rv[3], rv[2])):
                r2 = resolve(a)
                if r2 is None or r2[1][0] != "cast":
                    continue
                c2 = r2[1]
                r1 = resolve(c2[2])
                if r1 is None or r1[1][0] != "cast":
                    continue
                l1, c1 = r1
                x = root(c1[2])
                if x == root(o) and x[0] == "place" and ty_of_operand(c1[2]) == mir.types[c2[3]]:
                    tests.append((x, mir.types[c1[3]], tt, l1))
                    part_of_test[id(c1)] = (tt, l1, id(c2))
                    part_of_test[id(c2)] = (tt, None, None)

        def mentions_local(j, loc):
            if isinstance(j, list):
                if len(j) == 2 and j[0] in ("c", "m") and isinstance(j[1], list) and len(j[1]) == 2 and j[1][0] == loc and isinstance(j[1][1], str):
                    return True
                return any(mentions_local(y, loc) for y in j)
            return False

        # dominance by a test's true target: every path from entry to the block passes through tt
        def dominated(blk, tt):
            if blk == tt:
                return True
            seen, stack = {0}, [0]
            if tt == 0:
                return True
            while stack:
                n = stack.pop()
                for s in succ[n]:
                    if s == tt or s in seen:
                        continue
                    seen.add(s)
                    stack.append(s)
            return blk not in seen

        owner = b.get("root") or b["path"]
        for bi, si, st in casts:
            rv = st[1]
            frm, to = ty_of_operand(rv[2]), mir.types[rv[3]]
            ls = lossy(rv[1], frm, to)
            key = "%s@%s(%s->%s)" % (short(owner), rv[1], frm, to)
            how = "lossless"
            ok = True
            if ls:
                if id(rv) in part_of_test:
                    how = "operand of a round-trip test"
                    tt, l1, c2id = part_of_test[id(rv)]
                    if l1 is not None:
                        # the truncated value may only be used by the test itself or where the test succeeded (through copies)
                        carriers = {l1}
                        changed = True
                        while changed:
                            changed = False
                            for bl2 in b["blocks"]:
                                for st2 in bl2["s"]:
                                    if st2[1][0] == "use" and st2[0][1] == "" and st2[0][0] not in carriers and any(mentions_local(st2[1], c) for c in carriers):
                                        carriers.add(st2[0][0])
                                        changed = True
                        for bj, bl2 in enumerate(b["blocks"]):
                            for st2 in bl2["s"]:
                                if st2[1][0] == "use" and st2[0][0] in carriers:
                                    continue
                                if id(st2[1]) != c2id and any(mentions_local(st2[1], c) for c in carriers) and not dominated(bj, tt):
                                    ok, how = False, "its result is also used where the round-trip test did not succeed"
                            if any(mentions_local(bl2["t"], c) for c in carriers) and not dominated(bj, tt):
                                ok, how = False, "its result is also used where the round-trip test did not succeed"
                else:
                    x = root(rv[2])
                    g = [t_ for t_ in tests if t_[0] == x and t_[1] == to and dominated(bi, t_[2])]
                    if g:
                        how = "dominated by the true branch of ((x as %s) as %s) == x" % (to, frm)
                    else:
                        ok, how = False, "unguarded"
            rep.instance("J3", key + "#%d" % st[2], {"in": short(b["path"]), "cast": "%s as %s" % (frm, to), "kind": rv[1], "decided": how}, nontrivial=bool(ls))
            if not ok:
                rep.violation(
                    "J3",
                    key,
                    "lossy cast `%s as %s` in %s is not guarded by a round-trip comparison: distinct / non-representable source values are approximated" % (frm, to, short(b["path"])),
                    "%s:%d" % (b["file"], st[2]),
                )


def j5(rep, src, mir):
    """The value side of a conversion has one entry: the injection chosen for the two types."""
    rep.rule(
        "J5",
        "value::Variant::as_data_type (the value-level conversion used by casts and by DataType::contains) is the single delegation `self.data_type().inject_into(data_type)?.value(&v)`, "
        "and no body of data_type/value.rs converts between the integer and float classes with an `as` cast (MIR FloatToInt / IntToFloat): every value conversion goes through the injections decided by J1-J4",
        floor=2,
        necessary="a shortcut next to the injection table converts values the table refuses (434.99999999999994 -> 435): not injective, no round trip, and the value side disagrees with the type side",
    )
    fs = [f for f in src.find_fns(name="as_data_type", file="data_type/value.rs") if f.body]
    if len(fs) != 1:
        rep.error("J5: as_data_type not found in data_type/value.rs (%d)" % len(fs))
    else:
        f = fs[0]
        from .core import inline_lets

        e = inline_lets(f.body)  # named locals (`let injection = ..; let v = ..;`) read like the expression they name
        one_stmt = e is not None
        txt = show(e, 0).replace(" ", "") if e is not None else ""
        dt = [p["pat"]["name"] for p in f.params if not p.get("self") and p["pat"]["k"] == "ident"]
        ok = one_stmt and e is not None and e["k"] == "call" and path_of(e["f"]) == "Ok" and bool(dt) and re.match(r"^Ok\(self\.data_type\(\)\.inject_into\(&?%s\)\?\.value\(&.*\)\??\)$" % re.escape(dt[0]), txt)
        rep.instance("J5", "value::Variant::as_data_type", {"body": show(e, 120), "single_delegation": bool(ok)})
        if not ok:
            rep.violation("J5", "value::Variant::as_data_type", "as_data_type is not the single delegation to the injection of the two types: %s" % show(f.body, 120), f.where())
    n = 0
    for b in mir.bodies:
        if b.get("file") != "src/data_type/value.rs":
            continue
        n += 1
        for bl in b["blocks"]:
            for st in bl["s"]:
                rv = st[1]
                if rv[0] == "cast" and rv[1] in ("FloatToInt", "IntToFloat"):
                    rep.violation("J5", "%s|%s" % (b["path"], rv[1]), "numeric class conversion by `as` (%s) in the value module, outside the injection table" % rv[1], "%s:%d" % (b["file"], b.get("line", 0)))
    rep.instance("J5", "value.rs:casts", {"bodies_scanned": n})
    if n < 100:
        rep.error("J5: only %d MIR bodies in src/data_type/value.rs" % n)


def j6(rep, src, impls):
    """X -> Text conversions print the inner value, or the wrapper only while its Display is transparent."""
    from .util_display import transparent_displays, wrapper_prints

    rep.rule(
        "J6",
        "text renderings `Base<X, Text>::value` (X primitive): when the wrapper element itself is printed (arg.to_string(), format!(\"{arg}\") on the function's argument, outside the "
        "value_map closure that receives the inner value) `impl Display for value::X` is the transparent `write!(f, \"{}\", self.0)`",
        floor=5,
        necessary="a Display for people (fixed date layout without sub-seconds, 5 significant digits) maps different values to one text: the conversion is no longer injective and does not agree with the type image",
    )
    disp = transparent_displays(src)
    for ty, fns in sorted(impls.items()):
        args = base_args(ty)
        if not (len(args) == 2 and args[1] == "Text" and args[0] in PRIMS and args[0] != "Text"):
            continue
        f = fns["value"]
        ap = [p["pat"]["name"] for p in f.params if not p.get("self") and p["pat"]["k"] == "ident"]
        # prints of the parameter itself, not inside a closure that rebinds a name (value_map(|x| .., arg) passes the inner value to the closure)
        outside = {"k": "block", "stmts": f.body["stmts"]}
        hits = [(n, x) for n, x in wrapper_prints(outside, set(ap)) if not any(c["k"] == "closure" and any(y is x for y in walk(c["body"])) and n in {b for p_ in c["params"] for b in pat_binds(p_)} for c in find(f.body, "closure"))]
        tr = disp.get(args[0], (None, None))
        key = "%s::value@display" % ty
        rep.instance("J6", key, {"impl": ty, "prints_wrapper": bool(hits), "display_transparent": tr[0]})
        if hits and tr[0] is not True:
            rep.violation("J6", key, "%s prints its argument through `impl Display for value::%s`, which is not the transparent `write!(f, \"{}\", self.0)` (%s)" % (ty, args[0], tr[1]), f.where())


def run(rep):
    rep.explanation = (
        "Static check of data_type/injection.rs (syn AST + type-checked MIR of the current tree). Decides: the variant tables of super_image and value agree for the 24 dispatching impls (J1); "
        "values and images of the primitive pairs go through checked_value / checked_image and these test both ends (J2); every lossy numeric cast is guarded by a round-trip test (J3); "
        "narrowing conversions can refuse and dense narrowing images require single-value sets (J4). Does NOT decide injectivity of the format!-based text renderings, the composite liftings "
        "(Struct/Union/Optional/List/Set/Array element-wise maps), Base<DataType, Union> (fold/find, not arm-shaped), nor round trips over all values. "
        "The accepted guard `(x as i64) as f64 == x` itself lets x = 2^63 through (saturating cast: 9223372036854775808.0 -> i64::MAX); this single value is outside the rule."
    )
    src = Src(facts.src_facts())
    impls = impl_pairs(src)
    if len(impls) < 40:
        raise Anchor("only %d `impl Injection for Base<..>` found in %s (45 on the pinned tree)" % (len(impls), IJ))
    j1(rep, src, impls)
    j2(rep, src, impls)
    j4(rep, src, impls)
    mir = Mir(facts.mir_facts())
    j3(rep, mir)
    j5(rep, src, mir)
    j6(rep, src, impls)
    j7(rep, src)
    j8(rep, src)
    j9(rep, src, impls)
    rep.extra["primitive_pairs"] = {"%s->%s" % k: v[0] for k, v in PAIRS.items()}
    from .util_enum import n1

    n1(rep, src)
    rep.assume("rustc accepts the tree (syn facts and MIR facts are extracted from the same files)")
    rep.assume("the reviewed classification of the 14 primitive pairs (PAIRS in qv/c12.py); a new pair is reported as UNDECIDED")
