"""C08 — SQL -> Relation -> SQL preserves query results (structural rules E3, E4, E7–E10).

Decides the clauses that are in the shape of the renderer and of the reader:
  E3  every IR operator the reader can produce is rendered: no expr::function::Function / Aggregate variant is routed to an
      aborting arm of RelationToQueryTranslator::{function, aggregate} (MIR switch facts, default PostgreSQL path);
  E4  renderer / reader name agreement: the SQL function spelling rendered for an operator is read back as the same operator
      (renderer table from the MIR of the translator methods, reader table from the `match function_name` of sql/expr.rs);
  E7  every component of a relation node is rendered inside the CTE of that node (projection, input, filter, order, limit,
      offset / aggregates, grouping keys / both inputs and the operator / set operator and quantifier);
  E8  every rendered select item is aliased, unconditionally, with the name of the schema field at the same position;
  E9  the operands of rendered binary / unary operators are parenthesised unconditionally (precedence cannot regroup);
  E10 GROUP BY <name>: an input column takes precedence over a select alias of the same name.
NOT decided: name resolution as a whole (C15), the Map/Reduce split, join-column coalescing semantics, ORDER BY / LIMIT
semantics in engines, literal escaping, execution on databases.
"""
import re

from . import facts
from . import translate as T
from .core import Src, Anchor, find, walk, walk_guards, show, path_of, is_call_to, pat_binds
from .mir import Mir

LEVEL = "other"
EXHAUSTIVE = True
PG = "dialect_translation::postgresql::PostgreSqlTranslator"
RSQL = "relation/sql.rs"

# SQL keywords that sqlparser parses into dedicated AST nodes although they are rendered with function-call syntax:
# the reader handles them in Visitor::<method>, not in the function-name table.
KEYWORD_FUNCTIONS = {
    "CEIL": ("ceil", "ceil"),
    "FLOOR": ("floor", "floor"),
}


# Oracle for E5: meaning of standard SQL function names (ISO SQL / PostgreSQL documentation), as Qrlew operator variants.
SQL_STANDARD = {
    ("abs", None): "Abs", ("exp", None): "Exp", ("ln", None): "Ln", ("sqrt", None): "Sqrt", ("sin", None): "Sin", ("cos", None): "Cos",
    ("pow", None): "Pow", ("power", None): "Pow", ("sign", None): "Sign", ("pi", None): "Pi", ("md5", None): "Md5",
    ("lower", None): "Lower", ("upper", None): "Upper", ("char_length", None): "CharLength", ("concat", None): "Concat",
    ("coalesce", None): "Coalesce", ("greatest", None): "Greatest", ("least", None): "Least", ("round", None): "Round",
    ("regexp_replace", None): "RegexpReplace", ("current_date", None): "CurrentDate", ("current_time", None): "CurrentTime",
    ("current_timestamp", None): "CurrentTimestamp",
    ("min", None): "Min", ("max", None): "Max",
    ("count", False): "Count", ("count", True): "CountDistinct", ("sum", False): "Sum", ("sum", True): "SumDistinct",
    ("avg", False): "Mean", ("avg", True): "MeanDistinct", ("variance", False): "Var", ("variance", True): "VarDistinct",
    ("stddev", False): "Std", ("stddev", True): "StdDistinct",
}


def reader_tables(src):
    fs = [f for f in src.find_fns(name="function", file="sql/expr.rs") if "TryIntoExprVisitor" in (f.self_ty or "")]
    if len(fs) != 1:
        raise Anchor("TryIntoExprVisitor::function (sql/expr.rs): found %d" % len(fs))
    helpers = {f.name: f for f in src.find_fns(file="sql/expr.rs") if "TryIntoExprVisitor" in (f.self_ty or "")}
    tab, default = T.function_name_table(fs[0])
    if not tab:
        raise Anchor("no `match function_name` table in TryIntoExprVisitor::function")
    bv = T.builder_variants(src)
    names = {}
    for (nm, flag), a in tab.items():
        hs = T.heads(a["body"], helpers)
        names[(nm, flag)] = {bv.get(h, T.snake_to_variant(h)) for h in hs if not h.startswith("?")}
    # an arm guarded by something else than the DISTINCT flag (`"log" if flat_args.len() == 1 => ..`) reads SOME calls of that name: the name reads back as
    # any of the operators of its arms, exactly as when the test is an `if` inside a single arm
    for (nm, flag), vs in list(names.items()):
        if isinstance(flag, str) and flag.startswith("guard:"):
            names[(nm, None)] = set(names.get((nm, None), set())) | vs
    return fs[0], names, helpers, bv


def producible_variants(src, helpers, bv):
    """Function / Aggregate variants the SQL reader can produce: every `Expr::<builder>` called in the reader impl."""
    out = set()
    variants = set(src.enum_variants("Function", file="expr/function.rs")) | set(src.enum_variants("Aggregate", file="expr/aggregate.rs"))
    for f in helpers.values():
        for x in walk(f.body):
            if x["k"] == "call":
                p = path_of(x["f"]) or ""
                if p.startswith("Expr::") and p.count("::") == 1:
                    if p[6:] in bv:
                        out.add(bv[p[6:]])
                    elif T.snake_to_variant(p[6:]) in variants:  # hand-written constructor (Expr::random, Expr::concat, ...)
                        out.add(T.snake_to_variant(p[6:]))
    return out


def e3_e4(rep, src, mir):
    rep.rule(
        "E3",
        "every Function / Aggregate variant the SQL reader can produce has a non-aborting arm in RelationToQueryTranslator::function / ::aggregate (default path used by ast::Query::from(&Relation))",
        floor=60,
        necessary="a relation parsed from supported SQL whose operator falls to the `_ => todo!()` arm cannot be rendered at all",
    )
    rep.rule(
        "E4",
        "name agreement on the default (PostgreSQL) path: when operator V is rendered as the SQL function call NAME(..) [DISTINCT], the reader's function-name table maps NAME (same DISTINCT flag) back to V",
        floor=40,
        necessary="a spelling that is read back as another operator (or not at all) changes or breaks every query using it after one render/parse round trip",
    )
    fn, names, helpers, bv = reader_tables(src)
    prod = producible_variants(src, helpers, bv)
    defs, trs = T.default_methods(mir), T.translators(mir)
    # operators whose range-propagation implementation cannot even be constructed (data_type::function::cast(T) aborts for T):
    # no relation can carry them, so there is nothing to render (they are C18/P1 findings, not round-trip defects)
    unbuildable = set()
    cb = mir.by_path.get("data_type::function::cast")
    if cb:
        dd = T.dispatch(mir, cb, "data_type::DataType")
        for tv, info in (dd or {}).items():
            if info["abort"]:
                unbuildable.add("CastAs" + tv)
    rep.extra["unbuildable_operators"] = sorted(unbuildable)
    rep.extra["reader_function_names"] = len(names)
    rep.extra["reader_producible_variants"] = sorted(prod)
    for enum, meth in ((T.FUNC_ENUM, "function"), (T.AGG_ENUM, "aggregate")):
        body, _ = T.resolved_method(trs, defs, PG, meth)
        if body is None:
            raise Anchor("RelationToQueryTranslator::%s not found in the MIR facts" % meth)
        d = T.dispatch(mir, body, enum)
        if d is None:
            raise Anchor("no switch on %s in %s" % (enum, body["path"]))
        for v, info in sorted(d.items()):
            key = "%s::%s" % (enum.rsplit("::", 1)[-1], v)
            inscope = v in prod and v not in unbuildable
            mths = [T.rtq_method(c) for c in info["calls"] if T.rtq_method(c)]
            rep.instance("E3", key, {"variant": key, "reader_can_produce": inscope, "aborts": info["abort"], "handler": mths[:1]}, nontrivial=inscope)
            if info["abort"] and inscope:
                rep.violation("E3", key, "%s is produced by the SQL reader but RelationToQueryTranslator::%s routes it to an aborting arm" % (key, meth), "%s:%d" % (body["file"], body["line"]))
            if not mths or info["abort"]:
                continue
            mb, kind = T.resolved_method(trs, defs, PG, mths[0])
            if mb is None:
                continue
            sp = T.spelling(mir, mb)
            if sp[0] != "fn":
                rep.instance("E4", key, {"variant": key, "rendered_as": list(sp)[:2], "by": kind}, nontrivial=False)
                continue
            name, distinct = sp[1], sp[2]
            if not inscope:
                rep.instance("E4", key, {"variant": key, "rendered_as": name, "reader_can_produce": False}, nontrivial=False)
                continue
            if name in KEYWORD_FUNCTIONS:
                vm, builder = KEYWORD_FUNCTIONS[name]
                h = helpers.get(vm)
                ok = h is not None and any(is_call_to(x, "Expr::" + builder) for x in walk(h.body))
                rep.instance("E4", key, {"variant": key, "rendered_as": name, "read_by": "Visitor::%s (keyword syntax)" % vm})
                if not ok or bv.get(builder) != v:
                    rep.violation("E4", key, "%s is rendered as %s(..) which sqlparser parses as a keyword expression, but Visitor::%s does not build Expr::%s" % (key, name, vm, builder), fn.where())
                continue
            cands = names.get((name.lower(), True if distinct else False))
            if cands is None:
                cands = names.get((name.lower(), None)) if not distinct else None
            if cands is None and not distinct:
                cands = names.get((name.lower(), False))
            rep.instance("E4", key, {"variant": key, "rendered_as": name + (" DISTINCT" if distinct else ""), "read_back_as": sorted(cands) if cands else None})
            if cands is None:
                rep.violation("E4", key, "%s is rendered as %s(..)%s but the reader has no entry for \"%s\": the rendered query cannot be read back" % (key, name, " with DISTINCT" if distinct else "", name.lower()), fn.where())
            elif v not in cands:
                rep.violation("E4", key, "%s is rendered as %s(..) but \"%s\" is read back as %s" % (key, name, name.lower(), sorted(cands)), fn.where())


def e5(rep, src):
    rep.rule(
        "E5",
        "standard SQL function names are read as the operator the SQL standard gives them (oracle table SQL_STANDARD: abs, exp, ln, sqrt, ..., count/sum/avg/variance/stddev with and without DISTINCT)",
        floor=30,
        necessary="a standard name read as another operator changes the result of every query using it at the first parse",
    )
    fn, names, helpers, bv = reader_tables(src)
    for (nm, flag), want in sorted(SQL_STANDARD.items(), key=lambda kv: (kv[0][0], str(kv[0][1]))):
        got = names.get((nm, flag))
        if got is None and flag is False:
            got = names.get((nm, None))
        key = "reader:%s%s" % (nm, "" if flag is None else (" DISTINCT" if flag else " ALL"))
        rep.instance("E5", key, {"sql": key[7:], "expected": want, "read_as": sorted(got) if got else None})
        if got is None:
            rep.violation("E5", key, "the reader has no entry for the standard function %s" % key[7:], fn.where())
        elif want not in got or (len(got) > 1 and nm not in ("round",)):
            if want not in got:
                rep.violation("E5", key, "%s is read as %s, the SQL standard meaning is %s" % (key[7:], sorted(got), want), fn.where())


# ------------------------------------------------------------------------------------------------ E7 / E8


_CM_LOCALS = {}  # locals of the function being read: name -> expressions its value is made of (initialiser, pushed / extended values; a loop variable: the iterated expression)


def set_cm_locals(f):
    _CM_LOCALS.clear()
    if f is None or not f.body:
        return
    for x in walk(f.body):
        k = x.get("k")
        if k == "let" and x.get("init") is not None:
            for b in pat_binds(x["pat"]):
                _CM_LOCALS.setdefault(b, []).append(x["init"])
        elif k == "for":
            for b in pat_binds(x["pat"]):
                _CM_LOCALS.setdefault(b, []).append(x["e"])
        elif k == "mcall" and x["m"] in ("push", "extend", "insert", "push_back", "append") and x["recv"]["k"] == "path" and len(x["recv"]["segs"]) == 1:
            _CM_LOCALS.setdefault(x["recv"]["segs"][0], []).extend(x["args"])
        elif k == "assign" and x["lhs"]["k"] == "path" and len(x["lhs"]["segs"]) == 1:
            _CM_LOCALS.setdefault(x["lhs"]["segs"][0], []).append(x["rhs"])


def comp_mentions(e, node, _depth=0, _seen=None):
    """components of `node` (fields `node.x` or accessors `node.x()`) mentioned in expression e - through the locals of the function (def-use: `let limit = map.limit.clone(); .. limit.clone()`,
    `for field in reduce.schema().iter() { columns.push(ident(field.name())) } .. columns`)."""
    out = set()
    _seen = _seen if _seen is not None else set()
    for x in walk(e):
        if x["k"] == "field" and path_of(x["e"]) == node:
            out.add(x["name"])
        elif x["k"] == "mcall" and path_of(x["recv"]) == node and not x["args"]:
            out.add(x["m"])
        elif x["k"] == "path" and x["p"] == node:
            out.add("<self>")
        elif x["k"] == "path" and len(x.get("segs", [])) == 1 and x["segs"][0] in _CM_LOCALS and x["segs"][0] not in _seen and _depth < 4:
            _seen.add(x["segs"][0])
            for src_e in _CM_LOCALS[x["segs"][0]]:
                out |= comp_mentions(src_e, node, _depth + 1, _seen)
    return out


QUERY_SLOTS = ["with", "projection", "from", "selection", "group_by", "order_by", "limit", "offset"]
EXPECT = {
    "map": {"projection": {"projection"}, "from": {"input"}, "selection": {"filter"}, "order_by": {"order_by"}, "limit": {"limit"}, "offset": {"offset"}},
    "reduce": {"projection": {"aggregate"}, "from": {"input"}, "group_by": {"group_by"}},
    "join": {"from": {"left", "right", "operator"}},
}


# private functions of relation/sql.rs that rules anchor on by name: never inlined by the canonical form
CANON_KEEP = {"ctes_from_query", "select_from_query", "table_with_joins", "all"}


def block_value(n):
    while n is not None and n["k"] == "block":
        st = n["stmts"]
        if not st or st[-1]["k"] != "expr" or st[-1].get("semi"):
            return None
        n = st[-1]["e"]
    return n


def _alias_preserving(h, src):
    """Does the select-item mapper `h` (fn(&SelectItem) -> SelectItem) keep the alias of every ExprWithAlias item?  -> (bool, why)"""
    m = block_value(h.body)
    if m is None or m["k"] != "match":
        return False, "%s is not a single match over the item" % h.name
    seen = False
    for a in m["arms"]:
        pats = a["pat"]["cases"] if a["pat"]["k"] == "or" else [a["pat"]]
        hit = [p for p in pats if p["k"] == "struct" and p["path"]["segs"][-1] == "ExprWithAlias"]
        if not hit:
            continue
        seen = True
        if len(pats) > 1 or a.get("guard"):
            return False, "the ExprWithAlias arm of %s is shared with other item kinds" % h.name
        binds = {f["name"]: show(f["pat"], 0) if f.get("pat") else f["name"] for f in hit[0].get("fields", [])}
        if "alias" not in binds:
            return False, "the ExprWithAlias arm of %s does not bind the alias" % h.name
        b = block_value(a["body"]) if a["body"]["k"] == "block" else a["body"]
        if not (b is not None and b["k"] == "struct" and b["path"]["segs"][-1] == "ExprWithAlias"):
            return False, "the ExprWithAlias arm of %s returns %s" % (h.name, show(b, 50))
        al = [f["e"] for f in b["fields"] if f["name"] == "alias"]
        if not al or show(al[0], 0).replace(" ", "") not in (binds["alias"], binds["alias"] + ".clone()"):
            return False, "the ExprWithAlias arm of %s rebuilds the item with alias %s" % (h.name, show(al[0], 30) if al else "<none>")
    if not seen:
        # items fall to a catch-all arm: alias kept only if that arm returns the item itself
        for a in m["arms"]:
            if a["pat"]["k"] in ("wild", "ident"):
                t = show(a["body"], 0).replace(" ", "")
                prm = [p["pat"]["name"] for p in h.params if not p.get("self")][0]
                return (t in (prm + ".clone()", prm), "the catch-all arm of %s returns %s" % (h.name, t))
        return False, "%s has no arm for ExprWithAlias" % h.name
    return True, ""


def translator_hooks(src):
    """{dialect: {alias_kept, alias_why, list_kept, where}} for the trait default and every impl RelationToQueryTranslator (dialect_translation/*.rs)."""
    DTM = "dialect_translation/mod.rs"

    def q_alias(f):
        prm = [p["pat"]["name"] for p in f.params if not p.get("self")]
        if "projection" not in prm:
            return False, "no `projection` parameter"
        sel = [x for x in walk(f.body) if x["k"] == "struct" and x["path"]["segs"][-1] == "Select"]
        if len(sel) != 1:
            return False, "expected one ast::Select literal, found %d" % len(sel)
        pe = [fl.get("e") for fl in sel[0]["fields"] if fl["name"] == "projection"]
        if not pe:
            return False, "ast::Select without projection"
        e = pe[0]
        if e is None or path_of(e) == "projection":
            return True, ""
        if path_of(e):
            lets = [st for st in f.body["stmts"] if st["k"] == "let" and st["pat"]["k"] == "ident" and st["pat"]["name"] == path_of(e)]
            if len(lets) != 1 or lets[0].get("init") is None:
                return False, "projection is `%s`" % show(e, 40)
            e = lets[0]["init"]
        ch = []
        x = e
        while x is not None and x["k"] == "mcall":
            ch.insert(0, x)
            x = x["recv"]
        ch.insert(0, x)
        if x is None or path_of(x) != "projection" or [c["m"] for c in ch[1:]] not in (["iter", "map", "collect"], ["into_iter", "map", "collect"]):
            return False, "projection is %s" % show(e, 60)
        fa = ch[2]["args"][0]
        hn = path_of(fa)
        if not hn:
            return False, "the items are mapped by %s" % show(fa, 40)
        hs = [h for h in src.find_fns(name=hn.split("::")[-1], file=f.file) if not h.self_ty]
        if len(hs) != 1:
            return False, "mapper %s not found" % hn
        return _alias_preserving(hs[0], src)

    def c_list(f):
        prm = [p["pat"]["name"] for p in f.params if not p.get("self")]
        ta = [x for x in walk(f.body) if x["k"] == "struct" and x["path"]["segs"][-1] == "TableAlias"]
        if len(ta) != 1:
            return False
        ce = [fl.get("e") for fl in ta[0]["fields"] if fl["name"] == "columns"]
        return bool(ce) and (ce[0] is None or path_of(ce[0]) == "columns") and "columns" in prm

    dq = [f for f in src.find_fns(name="query", file=DTM) if (f.self_ty or "").startswith("trait RelationToQueryTranslator")]
    dc = [f for f in src.find_fns(name="cte", file=DTM) if (f.self_ty or "").startswith("trait RelationToQueryTranslator")]
    if len(dq) != 1 or len(dc) != 1:
        raise Anchor("trait defaults RelationToQueryTranslator::{query, cte}: found %d / %d" % (len(dq), len(dc)))
    d_alias, d_list = q_alias(dq[0]), c_list(dc[0])
    out = {}
    for (file, _m, im) in src.impls:
        if not file.startswith("dialect_translation/") or (im.get("trait") or "").split("<")[0].split("::")[-1] != "RelationToQueryTranslator" or im.get("test"):
            continue
        d = im["self_ty"]
        qs = [f for f in src.find_fns(name="query", file=file, self_ty=d) if (f.trait or "").startswith("RelationToQueryTranslator")]
        cs = [f for f in src.find_fns(name="cte", file=file, self_ty=d) if (f.trait or "").startswith("RelationToQueryTranslator")]
        a = q_alias(qs[0]) if qs else d_alias
        out[d] = {"alias_kept": a[0], "alias_why": a[1], "list_kept": c_list(cs[0]) if cs else d_list, "where": (qs[0].where() if qs else dq[0].where())}
    if len(out) < 6:
        raise Anchor("only %d impl RelationToQueryTranslator found (8 on the pinned tree)" % len(out))
    return out


def e7_e8(rep, src):
    rep.rule(
        "E7",
        "FromRelationVisitor::{map, reduce, join, set}: the query passed to translator.cte(name, columns, QUERY) carries every component of the node in the slot of translator.query(..) it belongs to "
        "(Map: projection, input, filter, order_by, limit, offset; Reduce: aggregates, input, group_by; Join: left, right, operator; Set: operator, quantifier, both inputs)",
        floor=4,
        necessary="parents refer to a node only through its CTE: a component rendered only on the trailing SELECT (or nowhere) disappears as soon as the node is not the root, so the rendered SQL returns other rows",
    )
    rep.rule(
        "E8",
        "every select item of a rendered Map / Reduce is ast::SelectItem::ExprWithAlias whose alias is the schema field zipped at the same position (no conditional / un-aliased item); "
        "the CTE column list is the schema's field names (Join / Set: always; Map / Reduce: or the empty list); and per dialect the columns of a Map / Reduce CTE keep a name through that dialect's own hooks: "
        "the aliases survive `query` (the projection is passed on, or mapped by an alias-preserving function) or the list is given and survives `cte`",
        floor=2,
        necessary="translators that drop the CTE column list (BigQuery, Hive) rely on item aliases: an un-aliased item exposes the input column name and the next CTE refers to a non-existent column; "
        "a dialect whose query hook drops aliases relies on the list; with neither the column has no name (rejected by the engine, read back under a generated name)",
    )
    rep.rule(
        "E16",
        "sibling agreement of FromRelationVisitor::{map, reduce, join, set}: the name under which a node's CTE is defined goes through translator.identifier(..), as do all references to it (table_factor)",
        floor=4,
        necessary="a CTE defined as `set_x` and referred to as \"set_x\" is another name for the reader (and for engines that fold unquoted identifiers): the rendered set operation is rejected with 'Unknown table'",
    )
    fns = {f.name: f for f in src.find_fns(file=RSQL, self_ty_re=r"^FromRelationVisitor", trait_re=r"^Visitor")}
    list_ok, list_where, alias_fine = {}, {}, {}
    for nm in ("map", "reduce", "join", "set"):
        if nm not in fns:
            raise Anchor("FromRelationVisitor::%s not found" % nm)
        from .canon import canon_view

        from .canon import inline_local_closures

        f = canon_view(inline_local_closures(fns[nm]), src, keep=CANON_KEEP)  # named locals (`let cte_name = ..`), local closures and extracted private helpers are transparent
        set_cm_locals(f)
        node = [p["pat"]["name"] for p in f.params if not p.get("self") and p["pat"]["k"] == "ident"][0]
        key = "FromRelationVisitor::" + nm
        ctes = [m for m in find(f.body, "mcall") if m["m"] == "cte" and len(m["args"]) == 3]
        if len(ctes) != 1:
            rep.undecidable("E7", key, "expected one translator.cte(name, columns, query) call, found %d" % len(ctes), f.where())
            continue
        cname, ccols, cq = ctes[0]["args"]
        where = "src/%s:%d" % (RSQL, ctes[0]["l"])
        # the trailing query re-reads the node's own CTE: `SELECT * FROM <cte>`.  It may repeat an idempotent clause (LIMIT) but nothing that acts twice
        inner = {id(m) for m in find(cq, "mcall")}
        trail = [m for m in find(f.body, "mcall") if m["m"] == "query" and len(m["args"]) == len(QUERY_SLOTS) and "translator" in show(m["recv"], 0) and id(m) not in inner and m is not cq]
        if len(trail) != 1:
            rep.undecidable("E7", key + "@trailing", "expected one trailing translator.query(ctes, *, FROM <cte>, ..) after the CTE, found %d" % len(trail), f.where())
        else:
            targs = dict(zip(QUERY_SLOTS, trail[0]["args"]))
            bad = []
            empty = lambda e: show(e, 0).replace(" ", "") in ("None", "vec![]", "vec!()", "Vec::new()", "ast::GroupByExpr::Expressions(vec![])", "ast::GroupByExpr::Expressions(vec!())", "GroupByExpr::Expressions(vec![])")
            for slot in ("selection", "group_by", "offset"):  # a repeated ORDER BY / LIMIT acts once; these three act twice
                if not empty(targs[slot]):
                    bad.append("%s = %s" % (slot, show(targs[slot], 60)))
            if show(targs["projection"], 0).replace(" ", "") != "all()" and "Wildcard" not in show(targs["projection"], 0):
                bad.append("projection = %s" % show(targs["projection"], 60))
            if node not in {x["segs"][0] for x in walk(targs["from"]) if x["k"] == "path"}:
                bad.append("FROM does not read the node's own CTE: %s" % show(targs["from"], 60))
            rep.instance("E7", key + "@trailing", {"node": nm, "limit_repeated": not empty(targs["limit"]), "other_clauses": bad})
            if bad:
                rep.violation("E7", key + "@trailing", "the trailing `SELECT * FROM <cte>` of a %s applies a clause a second time (%s): OFFSET / WHERE / GROUP BY belong to the CTE only (a repeated LIMIT or ORDER BY acts once)" % (nm, "; ".join(bad)), "src/%s:%d" % (RSQL, trail[0]["l"]))
        list_ok[nm] = "schema" in comp_mentions(ccols, node)
        list_where[nm] = (show(ccols, 100), where)
        list_empty = show(ccols, 0).replace(" ", "") in ("vec![]", "vec!()", "Vec::new()", "vec!{}")
        if not list_ok[nm] and (nm in ("join", "set") or not list_empty):
            # join/set: the default join_projection is `*` and a set operation has no aliases of its own, the list is the only name the columns get;
            # map/reduce: a non-empty list that is not the schema's overrides the (right) aliases with other names
            alias_fine[nm] = None  # reported here: the naming table below stays silent
            rep.violation("E8", key + "@columns", "the CTE column list is not derived from the node's schema: %s" % show(ccols, 100), where)
        if "name" not in comp_mentions(cname, node):
            rep.violation("E7", key + "@name", "the CTE is not named after the node: %s" % show(cname, 80), where)
        # E16: the definition of the CTE is spelled like its references (table_factor quotes the name through translator.identifier)
        via_ident = any(m["m"] == "identifier" and "translator" in show(m["recv"], 0) for m in find(cname, "mcall"))
        rep.instance("E16", key + "@cte-name", {"node": nm, "name": show(cname, 90), "through_translator_identifier": via_ident})
        if not via_ident:
            rep.violation("E16", key + "@cte-name", "the CTE of a %s node is defined under the bare name `%s` while parents refer to it through translator.identifier (quoted): the rendered query cannot be read back" % (nm, show(cname, 60)), where)
        if nm == "set":
            so = cq if cq["k"] == "mcall" and cq["m"] == "set_operation" else None
            if so is None or len(so["args"]) != 5:
                rep.undecidable("E7", key, "the set CTE is not built by translator.set_operation(with, op, quantifier, left, right)", where)
                continue
            got = {"operator": comp_mentions(so["args"][1], node), "quantifier": comp_mentions(so["args"][2], node)}
            ps = [p["pat"]["name"] for p in f.params if not p.get("self") and p["pat"]["k"] == "ident"]
            lr = [{x["segs"][0] for x in walk(so["args"][i]) if x["k"] == "path" and len(x["segs"]) == 1 and x["segs"][0] in ps} for i in (3, 4)]
            rep.instance("E7", key, {"node": nm, "operator": sorted(got["operator"]), "quantifier": sorted(got["quantifier"]), "left": sorted(lr[0]), "right": sorted(lr[1])})
            if "operator" not in got["operator"]:
                rep.violation("E7", key + "@operator", "the set operator of the node is not rendered", where)
            if "quantifier" not in got["quantifier"]:
                rep.violation("E7", key + "@quantifier", "the set quantifier (ALL / DISTINCT) of the node is not rendered", where)
            if lr[0] != {ps[1]} or lr[1] != {ps[2]}:
                rep.violation("E7", key + "@inputs", "the operands of the set operation are %s / %s, expected the rendered left / right inputs in order" % (sorted(lr[0]), sorted(lr[1])), where)
            continue
        q = cq if cq["k"] == "mcall" and cq["m"] == "query" else None
        if q is None or len(q["args"]) != len(QUERY_SLOTS):
            rep.undecidable("E7", key, "the CTE body is not built by translator.query(with, projection, from, selection, group_by, order_by, limit, offset)", where)
            continue
        got = {slot: comp_mentions(a, node) for slot, a in zip(QUERY_SLOTS, q["args"])}
        rep.instance("E7", key, {"node": nm, "slots": {k: sorted(v) for k, v in got.items() if v}})
        for slot, want in EXPECT[nm].items():
            miss = want - got.get(slot, set())
            if miss:
                # join projection is produced by translator.join_projection(join): `<self>` mention counts for nothing here
                rep.violation("E7", "%s@%s" % (key, slot), "the %s of the node (%s) is not rendered in the `%s` slot of its CTE query: %s" % ("/".join(sorted(miss)), nm, slot, show(q["args"][QUERY_SLOTS.index(slot)], 100)), where)
        # a component must not be conditionally dropped: no literal None / empty vec where a component is expected is covered above
        if nm in ("map", "reduce"):
            proj = q["args"][1]
            items = [x for x in walk(proj) if x["k"] == "struct" and x["path"]["segs"][-2:-1] == ["SelectItem"]]
            kinds = sorted({x["path"]["segs"][-1] for x in items})
            others = [x for x in walk(proj) if x["k"] == "call" and "SelectItem::" in (path_of(x["f"]) or "")]
            conds = [x for x in walk(proj) if x["k"] in ("if", "match")]
            zipped = any(m["m"] == "zip" and "schema" in comp_mentions(m["args"][0], node) for m in find(proj, "mcall") if m["args"])
            alias_ok = False
            for it in items:
                al = [fl["e"] for fl in it["fields"] if fl["name"] == "alias"]
                if al and any(x["k"] == "mcall" and x["m"] == "name" for x in walk(al[0])):
                    alias_ok = True
            rep.instance("E8", key, {"node": nm, "select_item_constructors": kinds, "zipped_with_schema": zipped, "conditional": bool(conds), "alias_is_field_name": alias_ok})
            reported = nm in alias_fine
            alias_fine[nm] = False
            if kinds != ["ExprWithAlias"] or others:
                rep.violation("E8", key, "select items are built with %s (expected only SelectItem::ExprWithAlias)" % (kinds + [show(o, 40) for o in others[:2]]), where)
            elif conds:
                rep.violation("E8", key, "the select item (or its alias) is built conditionally", where)
            elif not zipped or not alias_ok:
                rep.violation("E8", key, "the alias is not the name of the schema field zipped at the same position", where)
            elif not reported:
                alias_fine[nm] = True
    # Map / Reduce columns are named twice -- by the CTE column list and by the item aliases -- and a dialect needs one of the two to survive its own hooks:
    # aliases survive `query` (trait default: the projection is passed on; an override must map items alias-preservingly), the list survives `cte` (BigQuery / Hive drop it).
    hooks = translator_hooks(src)
    for nm in ("map", "reduce"):
        if nm not in list_ok:
            continue
        key = "FromRelationVisitor::" + nm
        for d, h in sorted(hooks.items()):
            by_alias = alias_fine.get(nm, False) and h["alias_kept"]
            by_list = list_ok[nm] and h["list_kept"]
            rep.instance("E8", "%s@names/%s" % (key, d), {"node": nm, "dialect": d, "named_by_aliases": by_alias, "named_by_cte_column_list": by_list}, nontrivial=False)
            if not by_alias and not by_list and alias_fine.get(nm, False):
                # (when the aliases themselves are wrong the violation above already names the construct)
                what = []
                if not list_ok[nm]:
                    what.append("the CTE column list is not derived from the node's schema (%s)" % list_where[nm][0])
                elif not h["list_kept"]:
                    what.append("%s::cte drops the column list" % d)
                if not h["alias_kept"]:
                    what.append("%s::query does not pass the select items on with their aliases (%s)" % (d, h["alias_why"]))
                rep.violation("E8", "%s@columns" % key if not list_ok[nm] else "%s@names/%s" % (key, d), "for %s the columns of a rendered %s have no name: %s" % (d, nm.capitalize(), " and ".join(what)), list_where[nm][1] if not list_ok[nm] else h["where"])
                if not list_ok[nm]:
                    break


def e9(rep, src):
    rep.rule(
        "E9",
        "binary_op_builder / unary_op_builder (dialect_translation/mod.rs) wrap every operand in ast::Expr::Nested unconditionally",
        floor=2,
        necessary="without parentheses an operand that binds less tightly than the operator (LIKE, IN, IS NULL, another comparison) is regrouped by the SQL parser: the rendered text means something else",
    )
    for nm, slots in (("binary_op_builder", ("left", "right")), ("unary_op_builder", ("expr",))):
        from .canon import canon_view

        f = canon_view(src.one_fn(name=nm, file="dialect_translation/mod.rs"), src, keep=("binary_op_builder", "unary_op_builder"))  # a private `nested(e)` helper is read through
        key = "dialect_translation::" + nm
        t = f.body["stmts"][-1]["e"] if f.body["stmts"] and f.body["stmts"][-1]["k"] == "expr" else None
        ok = t is not None and t["k"] == "struct" and len(f.body["stmts"]) == 1
        sample = {"fn": nm, "operands": {}}
        if ok:
            fields = {fl["name"]: fl["e"] for fl in t["fields"]}
            for s in slots:
                e = fields.get(s)
                nested = e is not None and is_call_to(e, "Box::new") and is_call_to(e["args"][0], "Expr::Nested") and is_call_to(e["args"][0]["args"][0], "Box::new")
                sample["operands"][s] = show(e, 80)
                if not nested:
                    ok = False
        rep.instance("E9", key, sample)
        if not ok:
            rep.violation("E9", key, "%s does not wrap every operand in Expr::Nested unconditionally: %s" % (nm, show(f.body, 200)), f.where())


def e10(rep, src):
    rep.rule(
        "E10",
        "GROUP BY <name> (try_from_select_items_selection_and_group_by): a group-by column is replaced by the select item of the same alias only when the name does not resolve among the input columns",
        floor=1,
        necessary="SQL gives an input column precedence over an output alias in GROUP BY: substituting the alias groups by another expression and merges or splits groups",
    )
    f = src.one_fn(name="try_from_select_items_selection_and_group_by", file="sql/relation.rs")
    # the hierarchy of input columns: the let bound from `names`
    cols = None
    for st in f.body["stmts"]:
        if st["k"] == "let" and st.get("init") is not None and "names" in show(st["init"], 0) and st["pat"]["k"] == "ident":
            cols = st["pat"]["name"]
            break
    sites = []
    for n, guards in walk_guards(f.body):
        # an arm body that reads the select aliases (`named_exprs`) inside the group-by mapping
        if n["k"] == "path" and n["p"] == "named_exprs":
            arms = [g for g in guards if g[0] == "arm"]
            if arms:
                m, i = arms[-1][1], arms[-1][2]
                a = m["arms"][i]
                if any(p["k"] == "tuplestruct" and p["path"]["segs"][-1] == "Column" for p in walk(a["pat"])):
                    sites.append((m, a))
    key = "try_from_select_items_selection_and_group_by@group-by-alias"
    if not sites or cols is None:
        rep.undecidable("E10", key, "cannot find the alias substitution arm of the GROUP BY resolution", f.where())
        return
    m, a = sites[0]
    g = a.get("guard")
    def conjuncts(e):
        while e is not None and e["k"] == "paren":
            e = e["e"]
        if e is not None and e["k"] == "binary" and e["op"].strip() == "&&":
            return conjuncts(e["lhs"]) + conjuncts(e["rhs"])
        return [e] if e is not None else []

    # the guard must IMPLY `the name is not an input column`: that test is one of its top-level conjuncts (under `||` it guards nothing)
    negative = False
    for c in conjuncts(g):
        cs = show(c, 0).replace(" ", "")
        if re.fullmatch(r"%s\.(get_key_value|get|contains_key)\(.*?\)\.(is_none|is_err)\(\)" % re.escape(cols), cs) or re.fullmatch(r"!%s\.(contains_key)\(.*?\)" % re.escape(cols), cs) or re.fullmatch(r"!%s\.(get|get_key_value)\(.*?\)\.(is_some|is_ok)\(\)" % re.escape(cols), cs):
            negative = True
    rep.instance("E10", key, {"input_columns": cols, "arm": show(a["pat"], 60), "guard": show(g, 160)})
    if not negative:
        rep.violation("E10", key, "the select alias replaces the GROUP BY column without checking that the name is not an input column (guard: %s)" % (show(g, 120) or "none"), "src/sql/relation.rs:%d" % a["l"])


def e11(rep, src):
    rep.rule(
        "E11",
        "MapBuilder::filter / ReduceBuilder::filter (the WHERE of a parsed SELECT goes through them): the filter expression reaches the rebuilt split on every arm and on every path of the arm "
        "(in particular when the last split is a Reduce without an inner Map)",
        floor=2,
        necessary="a WHERE clause that is silently dropped changes the rows of the query",
    )
    for ty in ("MapBuilder", "ReduceBuilder"):
        fs = [f for f in src.find_fns(name="filter", file="relation/builder.rs", self_ty_re=r"^%s<" % ty) if not f.trait]
        if len(fs) != 1:
            rep.undecidable("E11", ty + "::filter", "expected one inherent `filter` method, found %d" % len(fs), "src/relation/builder.rs")
            continue
        f = fs[0]
        param = [p["pat"]["name"] for p in f.params if not p.get("self") and p["pat"]["k"] == "ident"][0]
        ms = [m for m in find(f.body, "match")]
        if not ms:
            # the arm table may live in a helper of the file the filter is handed to (`filter_split(last_split, filter)`): it is read there
            for c in list(find(f.body, "call")) + list(find(f.body, "mcall")):
                nm = (path_of(c["f"]) or "").split("::")[-1] if c["k"] == "call" else c["m"]
                pos = [i for i, a in enumerate(c["args"]) if path_of(a) == param]
                hs = [h for h in src.find_fns(name=nm, file="relation/builder.rs") if h.body and not h.test] if nm and pos else []
                if len(hs) == 1:
                    hp = [p["pat"]["name"] for p in hs[0].params if not p.get("self") and p["pat"]["k"] == "ident"]
                    if pos[0] < len(hp) and len(list(find(hs[0].body, "match"))) == 1:
                        f, param = hs[0], hp[pos[0]]
                        ms = [m for m in find(f.body, "match")]
                        break
        if len(ms) != 1:
            rep.undecidable("E11", ty + "::filter", "expected one match over the last split", f.where())
            continue
        for a in ms[0]["arms"]:
            pv = [p["path"]["segs"][-1] for p in walk(a["pat"]) if p["k"] == "tuplestruct" and p["path"]["segs"][-2:-1] == ["Split"]]
            variant = pv[0] if pv else show(a["pat"], 30)
            key = "%s::filter@%s" % (ty, variant)
            uses = [x for x in walk(a["body"]) if x["k"] == "path" and x["segs"] == [param]]
            # a use that sits only inside the closure of an `Option::map` (no or_else / unwrap_or / map_or fallback using the filter) is conditional
            conditional = []
            for m in find(a["body"], "mcall"):
                if m["m"] == "map" and m["args"] and m["args"][0]["k"] == "closure" and any(x in list(walk(m["args"][0])) for x in uses):
                    recv = show(m["recv"], 0)
                    if ".map" in recv or "as_deref" in recv or "as_ref" in recv or recv.endswith(".map"):
                        conditional.append(m)
            uncond = [x for x in uses if not any(x in list(walk(m["args"][0])) for m in conditional)]
            rep.instance("E11", key, {"builder": ty, "last_split": variant, "uses_of_filter": len(uses), "only_under_Option_map": bool(conditional) and not uncond})
            if not uses:
                rep.violation("E11", key, "the filter expression is not used when the last split is %s" % variant, "src/relation/builder.rs:%d" % a["l"])
            elif conditional and not uncond:
                rep.violation("E11", key, "the filter is only applied inside `%s.map(..)`: when the %s has no inner Map the WHERE clause is dropped" % (show(conditional[0]["recv"], 40), variant), "src/relation/builder.rs:%d" % a["l"])


def e12(rep, src):
    """Order of the branches when a CASE nested in the ELSE position is merged into one multi-branch CASE."""
    rep.rule(
        "E12",
        "RelationToQueryTranslator::case (trait default): the merged CASE lists the current (outer) WHEN/THEN first and the branches of the CASE found in the ELSE position after it, and keeps the nested ELSE",
        floor=1,
        necessary="SQL evaluates WHEN branches in order: listing the inner branches first changes the result of every CASE whose conditions overlap",
    )
    fs = [f for f in src.find_fns(name="case", file="dialect_translation/mod.rs") if (f.self_ty or "").startswith("trait RelationToQueryTranslator")]
    key = "RelationToQueryTranslator::case"
    if len(fs) != 1:
        rep.undecidable("E12", key, "trait default `case` not found in the macro-defined trait (found %d)" % len(fs), "src/dialect_translation/mod.rs")
        return
    f = fs[0]
    param = [p["pat"]["name"] for p in f.params if not p.get("self") and p["pat"]["k"] == "ident"][0]

    class Und(Exception):
        pass

    def val(e, env):
        while e["k"] in ("ref",) or (e["k"] == "mcall" and e["m"] in ("clone", "to_vec", "into_iter", "collect", "iter", "cloned") and not e["args"]):
            e = e["e"] if e["k"] == "ref" else e["recv"]
        if e["k"] == "macro" and e["name"] == "vec":
            return [x for a in e.get("args", []) for x in as_list(val(a, env))] if e.get("args") else []
        if e["k"] == "index" and path_of(e["e"]) == param and e["i"]["k"] == "lit":
            return "%s[%s]" % (param, e["i"]["v"])
        if e["k"] == "path" and e["p"] in env:
            v = env[e["p"]]
            return list(v) if isinstance(v, list) else v
        if e["k"] == "tuple":
            return tuple(val(x, env) for x in e["elems"])
        if e["k"] == "call" and path_of(e["f"]) in ("Some", "Box::new"):
            return val(e["args"][0], env)
        if e["k"] == "path":
            return e["p"]
        return "?" + show(e, 30)

    def as_list(v):
        return v if isinstance(v, list) else [v]

    def run_block(b, env):
        stmts = b["stmts"] if b["k"] == "block" else [{"k": "expr", "e": b, "semi": False}]
        last = None
        for st in stmts:
            if st["k"] == "let":
                v = evaluate(st["init"], env) if st.get("init") is not None else None
                bind(st["pat"], v, env)
            elif st["k"] == "expr":
                last = evaluate(st["e"], env)
                if st.get("semi"):
                    last = None
        return last

    def bind(p, v, env):
        if p["k"] == "ident":
            env[p["name"]] = v
        elif p["k"] == "tuple" and isinstance(v, tuple) and len(v) == len(p["elems"]):
            for a, b in zip(p["elems"], v):
                bind(a, b, env)
        elif p["k"] == "wild":
            pass
        else:
            raise Und("pattern %s" % show(p, 40))

    def evaluate(e, env):
        if e["k"] == "match":
            for a in e["arms"]:
                if a["pat"]["k"] == "struct" and a["pat"]["path"]["segs"][-1] == "Case":
                    for fl in a["pat"]["fields"]:
                        nm = fl["pat"]["name"] if fl["pat"]["k"] == "ident" else fl["name"]
                        env[nm] = ["nested." + fl["name"] + "*"] if fl["name"] in ("conditions", "results") else "nested." + fl["name"]
                    return run_block(a["body"], env)
            raise Und("no arm for ast::Expr::Case")
        if e["k"] == "if" and e["cond"]["k"] == "letcond":
            # `if let ast::Expr::Case { .. } = <else operand> { merged } else { plain }`: the `match` written as if-let
            pt = e["cond"]["pat"]
            while pt["k"] == "ref":
                pt = pt["pat"]
            if pt["k"] == "struct" and pt["path"]["segs"][-1] == "Case":
                for fl in pt["fields"]:
                    nm = fl["pat"]["name"] if fl["pat"]["k"] == "ident" else fl["name"]
                    env[nm] = ["nested." + fl["name"] + "*"] if fl["name"] in ("conditions", "results") else "nested." + fl["name"]
                return run_block(e["then"], env)
            raise Und("if-let on another pattern than ast::Expr::Case")
        if e["k"] == "block":
            return run_block(e, env)
        if e["k"] == "mcall" and e["m"] in ("extend", "push", "append") and e["recv"]["k"] == "path" and isinstance(env.get(e["recv"]["p"]), list):
            env[e["recv"]["p"]] = env[e["recv"]["p"]] + as_list(val(e["args"][0], env))
            return None
        if e["k"] == "mcall" and e["m"] == "insert" and e["recv"]["k"] == "path" and isinstance(env.get(e["recv"]["p"]), list) and len(e["args"]) == 2 and e["args"][0]["k"] == "lit" and e["args"][0]["v"] == "0":
            env[e["recv"]["p"]] = as_list(val(e["args"][1], env)) + env[e["recv"]["p"]]
            return None
        if e["k"] == "macro" and e["name"] in ("assert", "debug_assert"):
            return None
        if is_call_to(e, "case_builder"):
            return ("CASE",) + tuple(val(a, env) for a in e["args"])
        return val(e, env)

    try:
        r = run_block(f.body, {})
    except Und as u:
        rep.undecidable("E12", key, "cannot follow the construction of the merged CASE: %s" % u, f.where())
        return
    want = ("CASE", ["%s[0]" % param, "nested.conditions*"], ["%s[1]" % param, "nested.results*"], "nested.else_result")
    rep.instance("E12", key, {"built": list(r) if isinstance(r, tuple) else r, "expected": list(want)})
    if r != want:
        rep.violation("E12", key, "the merged CASE is built as %r, expected %r (outer branch first)" % (r, want), f.where())


def e13(rep, src):
    """CTE lists of the two inputs of a binary node are merged without repetition."""
    from .core import walk_guards

    rep.rule(
        "E13",
        "FromRelationVisitor::{join, set}: every CTE taken from an input query (ctes_from_query(left|right)) enters the merged WITH list only under `if <set>.insert(cte)` on one HashSet/BTreeSet shared by both inputs "
        "(or through `.unique()`): a relation shared by both inputs (diamond) is defined once",
        floor=4,
        necessary="a WITH clause that defines the same name twice is rejected by every target engine; adjacent-only de-duplication (Vec::dedup) misses [X, A] ++ [X, B]",
    )
    def set_names(body):
        out = {}
        for l in find(body, "let"):
            p = l["pat"]
            nm = p["name"] if p["k"] == "ident" else (p["pat"]["name"] if p["k"] == "typed" and p["pat"]["k"] == "ident" else None)
            t = (show(p.get("ty"), 0) if isinstance(p.get("ty"), dict) else str(p.get("ty") or "")) + " " + (show(l["init"], 0) if l.get("init") else "")
            if nm and ("HashSet" in t or "BTreeSet" in t):
                out[nm] = l
        return out

    def guarded_push(body, sets):
        """name of the set whose `.insert(..)` guards a `.push(..)` in body, else None"""
        for x, guards in walk_guards(body):
            if x["k"] == "mcall" and x["m"] == "push":
                for g in guards:
                    if g[0] == "if" and g[2] is True and g[1]["k"] == "mcall" and g[1]["m"] == "insert" and path_of(g[1]["recv"]) in sets:
                        return path_of(g[1]["recv"])
        return None

    def merged_by(body, is_source, depth=0):
        """How the sequence denoted by `is_source(expr)` enters a list in `body`: (set name | '<unique>', description) or (None, None)."""
        sets = set_names(body)
        for m in find(body, "mcall"):
            if m["m"] == "for_each" and any(is_source(x) for x in walk(m["recv"])) and m["args"] and m["args"][0]["k"] == "closure":
                g = guarded_push(m["args"][0]["body"], sets)
                if g:
                    return g, "push under if %s.insert(..)" % g
            if m["m"] == "unique" and any(is_source(x) for x in walk(m["recv"])):
                return "<unique>", "itertools unique()"
        for lp in find(body, "for"):
            if any(is_source(x) for x in walk(lp["e"])):
                g = guarded_push(lp["body"], sets)
                if g:
                    return g, "for-loop push under if %s.insert(..)" % g
        # the sequence is handed to a private helper of the same file that merges its parameters
        if depth < 2:
            for c in find(body, "call"):
                pth = path_of(c["f"]) or ""
                hs = [h for h in src.find_fns(name=pth.split("::")[-1], file="relation/sql.rs") if not h.self_ty and h.body and (h.node.get("vis") or "") == ""] if pth and "::" not in pth else []
                if len(hs) != 1:
                    continue
                h = hs[0]
                for i, a in enumerate(c["args"]):
                    if any(is_source(x) for x in walk(a)) and i < len(h.params) and h.params[i]["pat"]["k"] == "ident":
                        pn = h.params[i]["pat"]["name"]
                        g, how = merged_by(h.body, lambda x, pn=pn: x["k"] == "path" and x.get("segs") == [pn], depth + 1)
                        if g:
                            return "%s::%s" % (h.name, g), "helper %s: %s" % (h.name, how)
        return None, None

    for name in ("join", "set"):
        fs = [f for f in src.find_fns(name=name, file="relation/sql.rs") if "FromRelationVisitor" in (f.self_ty or "")]
        if len(fs) != 1:
            rep.undecidable("E13", "FromRelationVisitor::" + name, "expected one visitor method, found %d" % len(fs), "src/relation/sql.rs")
            continue
        f = fs[0]
        sources = [c for c in find(f.body, "call") if is_call_to(c, "ctes_from_query")]
        used_sets = set()
        for side in ("left", "right"):
            key = "FromRelationVisitor::%s@%s" % (name, side)
            cs = [c for c in sources if side in show(c["args"][0], 0)]
            if not cs:
                # the input query itself is handed to a private helper that pulls its CTEs and merges them: `push_unseen_ctes(left, &mut seen, &mut ctes)`
                done = False
                for c in find(f.body, "call"):
                    pth = path_of(c["f"]) or ""
                    hs = [h for h in src.find_fns(name=pth, file="relation/sql.rs") if not h.self_ty and h.body and (h.node.get("vis") or "") == ""] if pth and "::" not in pth else []
                    idx = [i for i, a in enumerate(c["args"]) if any(x["k"] == "path" and x.get("segs") == [side] for x in walk(a))]
                    if len(hs) != 1 or len(idx) != 1 or idx[0] >= len(hs[0].params) or hs[0].params[idx[0]]["pat"]["k"] != "ident":
                        continue
                    h, pn = hs[0], hs[0].params[idx[0]]["pat"]["name"]
                    inner = [q for q in find(h.body, "call") if is_call_to(q, "ctes_from_query") and any(x["k"] == "path" and x.get("segs") == [pn] for x in walk(q["args"][0]))]
                    if len(inner) != 1:
                        continue
                    # the helper's sets are its parameters: the guard set is named by the caller's argument
                    hsets = {p_["pat"]["name"]: i for i, p_ in enumerate(h.params) if p_["pat"]["k"] == "ident" and ("HashSet" in p_["ty"] or "BTreeSet" in p_["ty"])}
                    g = None
                    for lp in find(h.body, "for"):
                        if any(x is inner[0] for x in walk(lp["e"])):
                            g = guarded_push(lp["body"], hsets)
                    for m in find(h.body, "mcall"):
                        if m["m"] == "for_each" and any(x is inner[0] for x in walk(m["recv"])) and m["args"] and m["args"][0]["k"] == "closure":
                            g = g or guarded_push(m["args"][0]["body"], hsets)
                    rep.instance("E13", key, {"visitor": name, "input": side, "merged_by": "helper %s under if %s.insert(..)" % (h.name, g) if g else None})
                    if g is None:
                        rep.violation("E13", key, "the CTEs of the %s input of %s are handed to %s, which does not merge them through a set" % (side, name, h.name), f.where())
                    else:
                        used_sets.add(show(c["args"][hsets[g]], 0).replace(" ", "").replace("&mut", ""))
                    done = True
                    break
                if done:
                    continue
            if len(cs) != 1:
                rep.undecidable("E13", key, "expected one ctes_from_query(%s), found %d" % (side, len(cs)), f.where())
                continue
            c = cs[0]
            guard_set, how = merged_by(f.body, lambda x, c=c: x is c)
            rep.instance("E13", key, {"visitor": name, "input": side, "merged_by": how})
            if guard_set is None:
                dd = [m for m in find(f.body, "mcall") if m["m"] in ("dedup", "dedup_by", "dedup_by_key")]
                rep.violation("E13", key, "the CTEs of the %s input of %s are not merged through a set%s" % (side, name, " (Vec::dedup only removes adjacent repeats)" if dd else ""), f.where())
            else:
                used_sets.add(guard_set)
        if len(used_sets) > 1:
            rep.violation("E13", "FromRelationVisitor::%s@shared" % name, "left and right are de-duplicated against different sets %s: a CTE common to both is emitted twice" % sorted(used_sets), f.where())


def e14(rep, src):
    """Float constants are written with enough digits to denote the same f64."""
    rep.rule(
        "E14",
        "every RelationToQueryTranslator::format_float_value (trait default and overrides) builds the literal only with `format!(\"{}\", v)` (Rust's shortest round-trip rendering) or with an exponent format "
        "`{:.Ne}` whose precision N >= 16 (17 significant digits identify an f64); the text goes unchanged into ast::Value::Number",
        floor=3,
        necessary="a literal written with fewer digits (a human Display such as value::Float's `{:.4e}`, or `{:.15e}`) denotes another number: the rendered query filters on / returns other values and its re-parsed ranges differ",
    )
    fs = [f for f in src.find_fns(name="format_float_value") if f.file.startswith("dialect_translation/")]
    for f in fs:
        who = (f.self_ty or "").replace("trait ", "")
        key = "%s::format_float_value" % who
        ints = {}
        for l in find(f.body, "let"):
            if l["pat"]["k"] == "ident" and l.get("init") is not None:
                ints[l["pat"]["name"]] = l["init"]
        fmts = [m for m in find(f.body, "macro") if m.get("name", "").split("::")[-1] == "format"]
        fparam = [p["pat"]["name"] for p in f.params if not p.get("self") and p["pat"]["k"] == "ident" and p["ty"].replace(" ", "") == "f64"]
        # `v.to_string()` on the f64 parameter itself is `format!("{}", v)` (Display of f64: shortest round-trip)
        other = [show(c, 60) for c in find(f.body, "mcall") if c["m"] in ("to_string", "to_owned") and c["recv"]["k"] != "macro" and not (c["m"] == "to_string" and path_of(c["recv"]) in fparam)]
        exact_display = [c for c in find(f.body, "mcall") if c["m"] == "to_string" and path_of(c["recv"]) in fparam]
        bad, seen = [], []
        for m in fmts:
            a = m.get("args") or []
            if not a or a[0]["k"] != "lit" or a[0].get("t") != "str":
                bad.append("unreadable format!(%s)" % show(m, 60))
                continue
            fmt = a[0]["v"]
            seen.append(fmt)
            if fmt == "{}" or (re.match(r"^\{(\w+)\}$", fmt) and re.match(r"^\{(\w+)\}$", fmt).group(1) in fparam):
                continue
            mm = re.match(r"^\{(?:\w+)?:\.(\d+|\w+\$)e\}$", fmt)  # `{:.Ne}`, `{:.prec$e}`, inline `{value:.prec$e}`
            if not mm:
                bad.append("format string %r" % fmt)
                continue
            prec = mm.group(1)
            val = None
            if prec.isdigit():
                val = int(prec)
            else:
                nm = prec[:-1]
                e = None
                for x in a[1:]:
                    if x["k"] == "assign" and show(x["lhs"], 0) == nm:
                        e = x["rhs"]
                    elif x["k"] == "binary" and x.get("op") == "=" and show(x["lhs"], 0) == nm:
                        e = x["rhs"]
                if e is None and nm in ints:
                    e = {"k": "path", "p": nm, "segs": [nm]}
                hops = 0
                while e is not None and e["k"] == "path" and e["p"] in ints and hops < 4:
                    e = ints[e["p"]]
                    hops += 1
                while e is not None and e["k"] == "cast":
                    e = e["e"]
                if e is not None and e["k"] == "lit" and e.get("t") == "int":
                    val = int(str(e["v"]).rstrip("usizei6432_") or 0)
                elif e is not None and show(e, 0).replace(" ", "") in ("f64::DIGITS", "std::f64::DIGITS"):
                    val = 15
            if val is None:
                bad.append("precision of %r not readable" % fmt)
            elif val < 16:
                bad.append("%r with precision %d: only %d significant digits" % (fmt, val, val + 1))
        rep.instance("E14", key, {"translator": who, "formats": seen + ["{}"] * len(exact_display), "other_renderings": other})
        if other:
            rep.violation("E14", key, "the literal is produced by %s, not by an exact float format" % other, f.where())
        if not fmts and not other and not exact_display:
            rep.undecidable("E14", key, "no format! found", f.where())
        for b in bad:
            rep.violation("E14", key, "float literal rendered with %s" % b, f.where())


def e15(rep, src):
    """Column order through the Map/Reduce split: `a.and(b)` lists a's expressions before b's."""
    rep.rule(
        "E15",
        "expr::split `impl And<Self> for Map`: in every arm the named expressions (and the ORDER BY keys) of the product are <those derived from self>.chain(<those derived from other>), in that order",
        floor=8,
        necessary="the SELECT items of a query are and-ed left to right; the order of named_exprs is the column order of the parsed relation and of its rendering: an arm that puts `other` first permutes the output columns "
        "of select lists mixing plain and aggregate items",
    )
    fs = [f for f in src.find_fns(name="and", file="expr/split.rs") if (f.self_ty or "") == "Map" and "And<Self>" in (f.trait or "").replace(" ", "")]
    if len(fs) != 1:
        rep.error("E15: `impl And<Self> for Map` not found (%d candidates)" % len(fs))
        return
    f = fs[0]
    other_p = [p["pat"]["name"] for p in f.params if not p.get("self") and p["pat"]["k"] == "ident"]
    if len(other_p) != 1:
        rep.undecidable("E15", "Map::and", "cannot read the parameter", f.where())
        return
    other = other_p[0]
    ms = list(find(f.body, "match"))
    if not ms:
        rep.undecidable("E15", "Map::and", "no match over the two reduce components", f.where())
        return
    for a in ms[0]["arms"]:
        arm = show(a["pat"], 0).replace(" ", "")
        origin = {}
        for l in find(a["body"], "let"):
            init = l.get("init")
            if init is None:
                continue
            t = show(init, 0)
            names = pat_binds(l["pat"])
            src_o = None
            if re.search(r"\bself\.(named_exprs|order_by|filter)\b", t):
                src_o = "self"
            elif re.search(r"\b%s\.(named_exprs|order_by|filter)\b" % re.escape(other), t):
                src_o = "other"
            if src_o:
                for nme in names:
                    if nme != "reduce":
                        origin[nme] = src_o
        # a vector filled by pushes inside `for .. in self.named_exprs { .. v.push(..) }` comes from that operand
        for lp in find(a["body"], "for"):
            t = show(lp["e"], 0)
            src_o = "self" if re.search(r"\bself\.(named_exprs|order_by|filter)\b", t) else ("other" if re.search(r"\b%s\.(named_exprs|order_by|filter)\b" % re.escape(other), t) else None)
            if src_o:
                for pm in find(lp["body"], "mcall"):
                    if pm["m"] == "push" and path_of(pm["recv"]):
                        origin[path_of(pm["recv"])] = src_o
        local_init = {}
        for l in find(a["body"], "let"):
            if l["pat"]["k"] == "ident" and l.get("init") is not None:
                local_init.setdefault(l["pat"]["name"], []).append(l["init"])
        news = [c for c in find(a["body"], "call") if is_call_to(c, "Map::new") and len(c["args"]) == 4]
        if len(news) != 1:
            rep.undecidable("E15", "Map::and%s" % arm, "expected one Map::new(..) in the arm", "src/expr/split.rs:%d" % a["l"])
            continue

        def org(e):
            t = show(e, 0).replace(" ", "")
            if t.startswith("self."):
                return "self"
            if t.startswith(other + "."):
                return "other"
            r = e
            while r["k"] == "mcall":
                r = r["recv"]
            return origin.get(path_of(r) or "", None)

        for idx, what in ((0, "named_exprs"), (2, "order_by")):
            e = news[0]["args"][idx]
            if e["k"] == "path" and len(e["segs"]) == 1 and len(local_init.get(e["segs"][0], [])) == 1 and any(m["m"] == "chain" for m in find(local_init[e["segs"][0]][0], "mcall")):
                e = local_init[e["segs"][0]][0]  # `let named_exprs = a.chain(b).collect(); Map::new(named_exprs, ..)`
            ch = [m for m in find(e, "mcall") if m["m"] == "chain"]
            key = "Map::and%s@%s" % (arm, what)
            if len(ch) != 1:
                rep.undecidable("E15", key, "not a single a.chain(b): %s" % show(e, 80), "src/expr/split.rs:%d" % e.get("l", a["l"]))
                continue
            first, second = org(ch[0]["recv"]), org(ch[0]["args"][0])
            rep.instance("E15", key, {"arm": arm, "component": what, "first": first, "second": second})
            if (first, second) != ("self", "other"):
                rep.violation("E15", key, "the %s of the product are (%s).chain(%s): `self`'s do not come first" % (what, first, second), "src/expr/split.rs:%d" % e.get("l", a["l"]))


def e17(rep, src):
    """SQL literals are the exact text of the value: never the human Display of a value wrapper that is not transparent."""
    from .util_display import transparent_displays, wrapper_prints

    rep.rule(
        "E17",
        "RelationToQueryTranslator::value (trait default): an arm `expr::Value::V(b) => ..` that prints the wrapper `b` itself (b.to_string(), format!(\"{}\", b)) does so only while "
        "`impl Display for value::V` is the transparent `write!(f, \"{}\", self.0)`; Float goes through format_float_value",
        floor=3,
        necessary="a Display meant for people (escaped control characters, 5 significant digits, a fixed date layout) renders another literal: the rendered query filters on / returns another value",
    )
    fs = [f for f in src.find_fns(name="value", file="dialect_translation/mod.rs") if (f.self_ty or "").startswith("trait RelationToQueryTranslator")]
    if len(fs) != 1:
        rep.undecidable("E17", "RelationToQueryTranslator::value", "trait default `value` not found (%d)" % len(fs), "src/dialect_translation/mod.rs")
        return
    f = fs[0]
    disp = transparent_displays(src)
    ms = [m for m in find(f.body, "match")]
    if not ms:
        rep.undecidable("E17", "RelationToQueryTranslator::value", "no match over the value", f.where())
        return
    for a in ms[0]["arms"]:
        p = a["pat"]
        if p["k"] != "tuplestruct" or not p["elems"] or p["elems"][0]["k"] != "ident":
            continue
        v = p["path"]["segs"][-1]
        b = p["elems"][0]["name"]
        hits = wrapper_prints(a["body"], {b})
        key = "RelationToQueryTranslator::value@" + v
        tr = disp.get(v, (None, None))
        rep.instance("E17", key, {"variant": v, "prints_wrapper": bool(hits), "display_transparent": tr[0]}, nontrivial=bool(hits) or v in ("Float", "Text", "Integer"))
        if v == "Float" and not any(m["m"] == "format_float_value" for m in find(a["body"], "mcall")):
            rep.violation("E17", key, "float literals do not go through format_float_value", "src/dialect_translation/mod.rs:%d" % a["l"])
        if hits and tr[0] is not True:
            rep.violation("E17", key, "the literal of a %s value is printed through `impl Display for value::%s`, which is not the transparent `write!(f, \"{}\", self.0)` (%s)" % (v, v, tr[1]), "src/dialect_translation/mod.rs:%d" % a["l"])


def e18(rep, src):
    """A column / relation name is ONE identifier component, whatever characters it contains."""
    rep.rule(
        "E18",
        "expr/identifier.rs: `Identifier::from(&str)`, `Identifier::from(String)` and `Identifier::from_name` build the one-component identifier `[name]` (no splitting, trimming or case change): "
        "the renderer names every CTE, column and alias with `translator.identifier(&(name.into()))[0]`",
        floor=3,
        necessary="a name containing the separator (a quoted \"Na.Me\") split into [Na, Me] is rendered as \"Na\": the next CTE selects a column that the previous one does not expose",
    )
    F = "expr/identifier.rs"
    fn = [f for f in src.find_fns(name="from_name", file=F) if (f.self_ty or "") == "Identifier"]
    sites = [("Identifier::from_name", fn[0] if len(fn) == 1 else None)]
    for ty in ("&str", "String"):
        fs = [f for f in src.find_fns(name="from", file=F) if (f.self_ty or "") == "Identifier" and (f.trait or "").replace(" ", "") == "From<%s>" % ty]
        sites.append(("Identifier::from(%s)" % ty, fs[0] if len(fs) == 1 else None))
    for key, f in sites:
        if f is None:
            rep.undecidable("E18", key, "definition not found in %s" % F, "src/" + F)
            continue
        pn = [p["pat"]["name"] for p in f.params if not p.get("self") and p["pat"]["k"] == "ident"]
        from .canon import canon_view as _cv18

        st = _cv18(f, src, helpers=False).body["stmts"]  # `let name: String = name.into(); Identifier(vec![name])` is read through
        e = st[0]["e"] if len(st) == 1 and st[0]["k"] == "expr" else None
        t = show(e, 0).replace(" ", "") if e is not None else ""
        ok = bool(pn) and t in ("Identifier::from_name(%s)" % pn[0], "Self::from_name(%s)" % pn[0], "Identifier(vec!(%s.into()))" % pn[0], "Identifier(vec!(%s))" % pn[0], "Identifier(vec!(%s.to_string()))" % pn[0],
                                "Self(vec!(%s.into()))" % pn[0], "Identifier(vec!(String::from(%s)))" % pn[0])
        rep.instance("E18", key, {"body": show(f.body, 80), "one_component": ok})
        if not ok:
            rep.violation("E18", key, "%s does not build the one-component identifier [name]: %s" % (key, show(f.body, 100)), f.where())


def e20(rep, src):
    """Join kinds and base-table names survive rendering and reading."""
    rep.rule(
        "E20",
        "join kinds round trip: every arm of RelationToQueryTranslator::join_operator (trait default and overrides) renders `JoinOperator::K(on)` as `ast::JoinOperator::K(On(self.expr(on)))` "
        "(Cross as CrossJoin), and the reader's try_from_join_operator_with_columns maps `ast::JoinOperator::K` back to `JoinOperator::K` - the same K on both sides of every arm",
        floor=10,
        necessary="a RIGHT JOIN rendered (or read) as a LEFT JOIN is valid SQL that keeps the other side's unmatched rows: the read-back relation has the nullability of its columns exchanged",
    )
    twin = {"Cross": "CrossJoin", "CrossJoin": "Cross"}

    def variant_of(p):
        if p is None:
            return None
        if p["k"] in ("tuplestruct", "path", "struct"):
            segs = p["path"]["segs"] if p["k"] != "path" else p["segs"]
            if len(segs) >= 2 and segs[-2] == "JoinOperator":
                return segs[-1], (len(segs) >= 3 and segs[-3] == "ast")
        return None

    def built(e):
        """(variant, is_ast, node) of the first JoinOperator constructor in an arm value"""
        for x in walk(e):
            if x["k"] == "call":
                p = path_of(x["f"]) or ""
                segs = p.split("::")
                if len(segs) >= 2 and segs[-2] == "JoinOperator":
                    return segs[-1], "ast" in segs[:-2], x
            if x["k"] == "path" and len(x["segs"]) >= 2 and x["segs"][-2] == "JoinOperator":
                return x["segs"][-1], "ast" in x["segs"][:-2], x
        return None

    sites = [(f, "render") for f in src.find_fns(name="join_operator") if f.file.startswith("dialect_translation/") and f.body and not f.test]
    sites += [(f, "read") for f in src.find_fns(name="try_from_join_operator_with_columns", file="sql/relation.rs") if f.body]
    if not any(k == "render" for _, k in sites) or not any(k == "read" for _, k in sites):
        raise Anchor("join_operator (renderer) / try_from_join_operator_with_columns (reader) not found")
    for f, side in sites:
        ms = [m for m in find(f.body, "match")]
        if not ms:
            rep.undecidable("E20", "%s@match" % f.qual, "no match over the join operator", f.where())
            continue
        for a in ms[0]["arms"]:
            pats = a["pat"]["cases"] if a["pat"]["k"] == "or" else [a["pat"]]
            for pt in pats:
                pv = variant_of(pt)
                if pv is None:
                    continue  # catch-all arms (todo!() for semi / anti joins: C18)
                b = built(a["body"])
                key = "%s@%s" % (f.qual, pv[0])
                rep.instance("E20", key, {"side": side, "pattern": pv[0], "builds": b[0] if b else None})
                if b is None:
                    if "todo!" in show(a["body"], 0) or "unimplemented!" in show(a["body"], 0) or show(a["body"], 0).strip().startswith("Err"):
                        continue
                    rep.undecidable("E20", key, "the arm does not build a JoinOperator: %s" % show(a["body"], 80), "src/%s:%d" % (f.file, a["l"]))
                    continue
                if b[0] != pv[0] and twin.get(pv[0]) != b[0]:
                    rep.violation("E20", key, "%s turns a %s join into a %s join" % ("the renderer" if side == "render" else "the reader", pv[0], b[0]), "src/%s:%d" % (f.file, a["l"]))
                if side == "render" and pv[0] != "Cross":
                    binds = list(pat_binds(pt))
                    txt = show(b[2], 0).replace(" ", "")
                    # a local closure `let on = |c| ast::JoinConstraint::On(self.expr(c));` applied to the bound condition is the same term
                    for lt in find(f.body, "let"):
                        if lt["pat"]["k"] == "ident" and lt.get("init") is not None and lt["init"]["k"] == "closure" and len(lt["init"]["params"]) == 1 and binds:
                            cp = lt["init"]["params"][0]
                            cpn = cp.get("name") or (cp.get("pat") or {}).get("name")
                            if cpn and ("%s(%s)" % (lt["pat"]["name"], binds[0])) in txt:
                                body_t = show(lt["init"]["body"], 0).replace(" ", "")
                                txt = txt.replace("%s(%s)" % (lt["pat"]["name"], binds[0]), re.sub(r"(?<![A-Za-z0-9_])%s(?![A-Za-z0-9_])" % re.escape(cpn), binds[0], body_t))
                    if not (binds and ("self.expr(%s)" % binds[0]) in txt and "JoinConstraint::On(" in txt):
                        rep.violation("E20", key + "@on", "the ON condition of a %s join is not rendered as On(self.expr(<the node's condition>)): %s" % (pv[0], show(b[2], 90)), "src/%s:%d" % (f.file, a["l"]))


def e21(rep, src):
    rep.rule(
        "E21",
        "RelationToQueryTranslator::table_factor (trait default and overrides): a base table is referred to by its PATH (`self.identifier(table.path())`, one quoted identifier per component), every other node by its name",
        floor=2,
        necessary="a table registered under a schema rendered by its generated name (`my_schema_users`) designates a table that does not exist: the query is rejected by the engine and cannot be read back against the same catalog",
    )
    fs = [f for f in src.find_fns(name="table_factor") if f.file.startswith("dialect_translation/") and f.body and not f.test]
    if not fs:
        raise Anchor("RelationToQueryTranslator::table_factor not found")
    from .canon import canon_view

    for f0 in fs:
        f = canon_view(f0, src, helpers=False, iflet=True)  # `if let Relation::Table(t) = relation { .. } else { .. }` and named locals are read through
        key = f.qual
        tab = []
        for m in find(f.body, "match"):
            for a in m["arms"]:
                if any(p["k"] == "tuplestruct" and p["path"]["segs"][-2:] == ["Relation", "Table"] for p in walk(a["pat"])):
                    tab.append(a)
        if len(tab) != 1:
            rep.undecidable("E21", key, "expected one `Relation::Table(table)` case in table_factor, found %d" % len(tab), f.where())
            continue
        a = tab[0]
        bv = list(pat_binds(a["pat"]))
        t = show(a["body"], 0).replace(" ", "")
        ok = bool(bv) and ("self.identifier(%s.path())" % bv[0]) in t and ("%s.name()" % bv[0]) not in t
        rep.instance("E21", key + "@table", {"fn": f.qual, "table_case": show(a["body"], 100), "by_path": ok})
        if not ok:
            rep.violation("E21", key + "@table", "a base table is not referred to by `self.identifier(<table>.path())`: %s" % show(a["body"], 100), "src/%s:%d" % (f.file, a["l"]))
        rep.instance("E21", key + "@other", {"arms": "others"}, nontrivial=False)


def e22(rep, src):
    """The reader builds a set operation from its operands in the order they are written."""
    rep.rule(
        "E22",
        "sql/relation.rs, the `ast::SetExpr::SetOperation { op, set_quantifier, left, right }` case: the Relation::set() builder gets `.left(..)` from the relation compiled from `left`, `.right(..)` from `right`, "
        "`.operator(..)` from `op` and `.quantifier(..)` from `set_quantifier` (def-use through the tuple match and the `let` bindings of the arm)",
        floor=4,
        necessary="UNION and INTERSECT are symmetric, EXCEPT is not: `A EXCEPT B` compiled as `B EXCEPT A` has the other operand's column types and size, and renders another query",
    )
    arms = []
    for f in src.find_fns(file="sql/relation.rs"):
        if f.test or not f.body:
            continue
        for m in find(f.body, "match"):
            for a in m["arms"]:
                if a["pat"]["k"] == "struct" and a["pat"]["path"]["segs"][-1] == "SetOperation":
                    arms.append((f, a))
    if len(arms) != 1:
        rep.undecidable("E22", "SetOperation", "expected one `ast::SetExpr::SetOperation { .. }` arm in sql/relation.rs, found %d" % len(arms), "src/sql/relation.rs")
        return
    f, a = arms[0]
    key = "%s@SetOperation" % f.qual
    env = {}
    for fl in a["pat"].get("fields", []):
        sub = fl.get("pat")
        nm = sub["name"] if sub is not None and sub["k"] == "ident" else fl["name"]
        if fl["name"] in ("left", "right", "op", "set_quantifier"):
            env[nm] = {fl["name"]}

    def labels(e):
        out = set()
        for y in walk(e):
            if y["k"] == "path" and len(y["segs"]) == 1 and y["segs"][0] in env:
                out |= env[y["segs"][0]]
        return out

    def bind(p, ls):
        for b in pat_binds(p):
            env[b] = set(ls)

    def visit(n):
        if isinstance(n, list):
            for x in n:
                visit(x)
            return
        if not isinstance(n, dict):
            return
        k = n.get("k")
        if k == "let" and n.get("init") is not None:
            visit(n["init"])
            bind(n["pat"], labels(n["init"]))
            return
        if k == "match":
            visit(n["e"])
            for arm in n["arms"]:
                if n["e"]["k"] == "tuple" and arm["pat"]["k"] == "tuple" and len(arm["pat"]["elems"]) == len(n["e"]["elems"]):
                    for pe, se in zip(arm["pat"]["elems"], n["e"]["elems"]):
                        bind(pe, labels(se))  # positional: the i-th pattern binds names from the i-th scrutinee component
                else:
                    bind(arm["pat"], labels(n["e"]))
                visit(arm["body"])
            return
        if k == "if" and n["cond"].get("k") == "letcond":
            cp, ce = n["cond"]["pat"], n["cond"]["e"]
            if ce["k"] == "tuple" and cp["k"] == "tuple" and len(cp["elems"]) == len(ce["elems"]):
                for pe, se in zip(cp["elems"], ce["elems"]):
                    bind(pe, labels(se))  # `let (A(l), B(r)) = (left, right) else { .. }`: positional, like the tuple match
            else:
                bind(cp, labels(ce))
        for v in n.values():
            if isinstance(v, (dict, list)):
                visit(v)

    visit(a["body"])
    got = {}
    for m in find(a["body"], "mcall"):
        if m["m"] in ("left", "right", "operator", "quantifier") and m["args"] and any(is_call_to(x, "Relation::set") for x in walk(m["recv"])) or (m["m"] in ("left", "right", "operator", "quantifier") and m["args"] and "set" in show(m["recv"], 0).lower() and path_of(m["recv"]) is not None):
            got.setdefault(m["m"], set()).update(labels(m["args"][0]))
    want = {"left": {"left"}, "right": {"right"}, "operator": {"op"}, "quantifier": {"set_quantifier"}}
    for slot, w in want.items():
        rep.instance("E22", "%s.%s" % (key, slot), {"slot": slot, "comes_from": sorted(got.get(slot, []))})
        if slot not in got:
            rep.undecidable("E22", "%s.%s" % (key, slot), "no `.%s(..)` on the Relation::set() builder of the arm" % slot, "src/%s:%d" % (f.file, a["l"]))
        elif got[slot] != w:
            rep.violation("E22", "%s.%s" % (key, slot), "the %s of the compiled set operation comes from %s of the parsed one, expected %s" % (slot, sorted(got[slot]) or "nothing", sorted(w)), "src/%s:%d" % (f.file, a["l"]))


def e19(rep, src):
    """ORDER BY direction survives parse -> render -> parse."""
    rep.rule(
        "E19",
        "sort direction: the reader treats a sort key without ASC / DESC as ascending (`asc.unwrap_or(true)`, the SQL default), and the renderer writes the direction of every key explicitly "
        "(`asc: Some(*asc)`) or omits it only for ascending keys",
        floor=2,
        necessary="a key read as descending when no direction is written (or rendered without direction when descending) sorts the other way: ORDER BY .. LIMIT n keeps other rows",
    )
    fq = src.find_fns(name="try_from_query", file="sql/relation.rs")
    key = "try_from_query@order-by-default"
    if len(fq) != 1:
        rep.undecidable("E19", key, "try_from_query not found (%d)" % len(fq), "src/sql/relation.rs")
    else:
        f = fq[0]
        obs = [m for m in find(f.body, "mcall") if m["m"] == "order_by" and len(m["args"]) == 2]
        if not obs:
            # the ORDER BY / LIMIT / OFFSET part factored out into a private method that try_from_query calls
            called = {m["m"] for m in find(f.body, "mcall") if path_of(m["recv"]) == "self"}
            for h in src.find_fns(file="sql/relation.rs"):
                if h.name in called and h.body and not h.test and h.name != f.name:
                    obs += [m for m in find(h.body, "mcall") if m["m"] == "order_by" and len(m["args"]) == 2]
        if len(obs) != 1:
            rep.undecidable("E19", key, "expected one builder.order_by(expr, asc) in try_from_query, found %d" % len(obs), f.where())
        else:
            d = obs[0]["args"][1]
            t = show(d, 0).replace(" ", "")
            dflt = None
            if d["k"] == "mcall" and d["m"] == "unwrap_or" and len(d["args"]) == 1 and d["args"][0]["k"] == "lit":
                dflt = d["args"][0]["v"]
            elif d["k"] == "mcall" and d["m"] == "unwrap_or_default":
                dflt = False
            elif d["k"] == "mcall" and d["m"] == "map_or" and d["args"] and d["args"][0]["k"] == "lit":
                dflt = d["args"][0]["v"]
            elif d["k"] == "binary" and d["op"] == "!=" and "Some(false)" in t:
                dflt = True
            rep.instance("E19", key, {"direction": show(d, 60), "default_when_absent": dflt})
            if dflt is None:
                rep.undecidable("E19", key, "cannot read the default direction of `%s`" % show(d, 60), f.where())
            elif dflt is not True:
                rep.violation("E19", key, "a sort key without direction is read as DESCENDING (`%s`): SQL's default is ascending, and keys rendered without direction come back reversed" % show(d, 60), f.where())
    fm = [f for f in src.find_fns(name="map", file=RSQL) if "FromRelationVisitor" in (f.self_ty or "")]
    key = "FromRelationVisitor::map@order-by"
    if len(fm) != 1:
        rep.undecidable("E19", key, "FromRelationVisitor::map not found", "src/" + RSQL)
        return
    sts = [x for x in find(fm[0].body, "struct") if x["path"]["segs"][-1:] == ["OrderByExpr"] and any("e" in fl for fl in x.get("fields", []))]
    if len(sts) != 1:
        rep.undecidable("E19", key, "expected one ast::OrderByExpr { .. } in the Map renderer, found %d" % len(sts), fm[0].where())
        return
    asc = [fl["e"] for fl in sts[0]["fields"] if fl["name"] == "asc"]
    t = show(asc[0], 0).replace(" ", "") if asc else None

    class _U(Exception):
        pass

    def ev(e, a):
        """value of the rendered `asc` field (None / True / False) when the key's direction is a"""
        k = e["k"]
        if k == "paren":
            return ev(e["e"], a)
        if k == "lit" and e.get("t") == "bool":
            return bool(e["v"])
        if k == "path":
            if e["p"] == "asc":
                return a
            if e["p"] == "None":
                return None
            raise _U()
        if k == "unary":
            v = ev(e["e"], a)
            return v if e["op"].strip() == "*" else (not v)
        if k == "ref":
            return ev(e["e"], a)
        if k == "call" and path_of(e["f"]) == "Some" and len(e["args"]) == 1:
            return ("some", ev(e["args"][0], a))
        if k == "mcall" and e["m"] in ("clone", "deref", "to_owned") and not e["args"]:
            return ev(e["recv"], a)
        if k == "mcall" and e["m"] == "then_some" and len(e["args"]) == 1:
            return ("some", ev(e["args"][0], a)) if ev(e["recv"], a) else None
        if k == "if" and e.get("else") is not None:
            b = e["then"] if ev(e["cond"], a) else e["else"]
            while b["k"] == "block" and len(b["stmts"]) == 1:
                b = b["stmts"][0]["e"]
            return ev(b, a)
        raise _U()

    explicit = only_asc_omitted = False
    try:
        vt, vf = ev(asc[0], True), ev(asc[0], False)
        explicit = vt == ("some", True) and vf == ("some", False)
        only_asc_omitted = vt is None and vf == ("some", False)
    except (_U, IndexError, TypeError):
        pass
    rep.instance("E19", key, {"asc": t, "explicit": explicit, "omitted_only_when_ascending": only_asc_omitted})
    if not (explicit or only_asc_omitted):
        rep.violation("E19", key, "the direction of a sort key is rendered as `%s`: neither always explicit nor omitted only for ascending keys" % t, fm[0].where())


def e23(rep, src):
    """The column list of a CTE (`WITH t (a, b) AS ..`) is recorded whenever it is not empty."""
    rep.rule(
        "E23",
        "sql/query_aliases.rs IntoQueryAliasesVisitor::query: the column list of a CTE is inserted for every CTE whose list has at least one column - every test on `<cte>.alias.columns` that guards "
        "the insert (enclosing `if`, `filter` closure) is true for lists of 1, 2 and 3 columns",
        floor=3,
        necessary="the renderer names the columns of every CTE through this list, and for a set operation (`SELECT * FROM l UNION SELECT * FROM r`) it is the only place where the names appear: "
        "a one-column list that is dropped gives the read-back relation another column name, and a parent that refers to the column is refused",
    )
    fs = [f for f in src.find_fns(name="query", file="sql/query_aliases.rs") if "IntoQueryAliasesVisitor" in (f.self_ty or "") and f.body and not f.test]
    if len(fs) != 1:
        rep.undecidable("E23", "IntoQueryAliasesVisitor::query", "expected one IntoQueryAliasesVisitor::query in sql/query_aliases.rs, found %d" % len(fs), "src/sql/query_aliases.rs")
        return
    f = fs[0]

    # locals that stand for the list: `let column_aliases = &cte.alias.columns;`
    aliases = set()
    for st in find(f.body, "let"):
        i = st.get("init")
        if i is not None and st["pat"]["k"] == "ident":
            while i["k"] in ("ref", "paren") or (i["k"] == "unary" and i["op"].strip() in ("&", "*")) or (i["k"] == "mcall" and i["m"] in ("as_ref", "clone", "as_slice") and not i["args"]):
                i = i["e"] if "e" in i else i["recv"]
            if i["k"] == "field" and i.get("name") == "columns":
                aliases.add(st["pat"]["name"])

    def mentions_columns(e):
        return any((x["k"] == "field" and x.get("name") == "columns") or (x["k"] == "path" and len(x["segs"]) == 1 and x["segs"][0] in aliases) for x in walk(e))

    class Unknown(Exception):
        pass

    def is_columns(e):
        while e["k"] in ("ref", "paren") or (e["k"] == "unary" and e["op"].strip() in ("&", "*")):
            e = e["e"]
        return (e["k"] == "field" and e.get("name") == "columns") or (e["k"] == "path" and len(e["segs"]) == 1 and e["segs"][0] in aliases)

    def num(e, n):
        while e["k"] == "paren":
            e = e["e"]
        if e["k"] == "lit" and e.get("t") == "int":
            return int(str(e["v"]).rstrip("usize").rstrip("_") or 0)
        if e["k"] == "mcall" and e["m"] in ("len", "count") and not e["args"]:
            r = e["recv"]
            while r["k"] == "mcall" and r["m"] in ("iter", "into_iter") and not r["args"]:
                r = r["recv"]
            if is_columns(r):
                return n
        raise Unknown(show(e, 50))

    def ev(e, n):
        k = e["k"]
        if k == "paren":
            return ev(e["e"], n)
        if k == "unary" and e["op"].strip() == "!":
            return not ev(e["e"], n)
        if k == "binary":
            op = e["op"].strip()
            if op in ("&&", "||"):
                parts = []
                for side in (e["lhs"], e["rhs"]):
                    parts.append(ev(side, n) if mentions_columns(side) else None)
                known = [p for p in parts if p is not None]
                if op == "&&":
                    return all(known)  # a conjunct that does not read the list cannot make the test true for it
                if None in parts:
                    raise Unknown(show(e, 50))
                return any(known)
            if op in ("<", "<=", ">", ">=", "==", "!="):
                a, b = num(e["lhs"], n), num(e["rhs"], n)
                return {"<": a < b, "<=": a <= b, ">": a > b, ">=": a >= b, "==": a == b, "!=": a != b}[op]
        if k == "mcall" and e["m"] == "is_empty" and not e["args"] and is_columns(e["recv"]):
            return n == 0
        raise Unknown(show(e, 50))

    inserts = []

    def descend(n, guards):
        if isinstance(n, list):
            for x in n:
                descend(x, guards)
            return
        if not isinstance(n, dict):
            return
        k = n.get("k")
        if k == "if" and n["cond"]["k"] != "letcond" and mentions_columns(n["cond"]):
            descend(n["then"], guards + [(n["cond"], True)])
            if n.get("else") is not None:
                descend(n["else"], guards + [(n["cond"], False)])
            return
        if k == "mcall" and n["m"] == "insert" and len(n["args"]) == 2 and mentions_columns(n["args"][1]):
            inserts.append((n, list(guards)))
        for key, v in n.items():
            if key not in ("k", "l") and isinstance(v, (dict, list)):
                descend(v, guards)

    descend(f.body, [])
    filters = [(m["args"][0]["body"], True) for m in find(f.body, "mcall") if m["m"] == "filter" and m["args"] and m["args"][0]["k"] == "closure" and mentions_columns(m["args"][0]["body"])]
    key = "IntoQueryAliasesVisitor::query@cte-columns"
    if len(inserts) != 1:
        rep.undecidable("E23", key, "expected one `.insert(<cte query>, Some(<cte>.alias.columns..))`, found %d" % len(inserts), f.where())
        return
    ins, guards = inserts[0]
    guards = guards + filters
    for n in (1, 2, 3):
        try:
            kept = all((ev(c, n) if pol else not ev(c, n)) for c, pol in guards)
        except Unknown as u:
            rep.undecidable("E23", key, "a test on the column list cannot be evaluated: `%s`" % u, f.where())
            return
        rep.instance("E23", "%s:%d" % (key, n), {"columns": n, "recorded": kept, "tests": [show(c, 50) for c, _ in guards]})
        if not kept:
            rep.violation("E23", key, "a CTE column list with %d column%s is not recorded (tests: %s): the CTE is read back with the names of its body" % (n, "" if n == 1 else "s", [show(c, 50) for c, _ in guards]), "src/sql/query_aliases.rs:%d" % ins["l"])
            return


def e25(rep, src):
    """A negated predicate is not read as the plain one."""
    rep.rule(
        "E25",
        "sql/expr.rs, the expression visitor (`visit` over ast::Expr): every arm that takes apart a node with a `negated` flag (IN, BETWEEN, LIKE, ILIKE ..) and builds an expression "
        "(does not end in todo!/unimplemented!) binds the flag and reads it in its body - `negated: _` is only written on arms that refuse the construct",
        floor=4,
        necessary="`x NOT BETWEEN 3 AND 7` read as `x BETWEEN 3 AND 7` is the complement of the query: the relation returns other rows, and the WHERE narrowing types x as int[3 7], "
        "exactly the rows the clause rejects",
    )
    fs = [f for f in src.find_fns(name="visit", file="sql/expr.rs") if f.body and not f.test]
    n = 0
    for f in fs:
        for m in find(f.body, "match"):
            for a in m["arms"]:
                pats = a["pat"]["cases"] if a["pat"]["k"] == "or" else [a["pat"]]
                for pt in pats:
                    if pt["k"] != "struct" or "Expr" not in pt["path"]["segs"]:
                        continue
                    fl = [x for x in pt.get("fields", []) if x["name"] == "negated"]
                    if not fl:
                        continue
                    variant = pt["path"]["segs"][-1]
                    body = a["body"]
                    tail = body
                    while tail["k"] == "block" and tail["stmts"] and tail["stmts"][-1]["k"] == "expr":
                        tail = tail["stmts"][-1]["e"]
                    refuses = tail["k"] == "macro" and tail.get("name") in ("todo", "unimplemented", "panic", "unreachable")
                    sub = fl[0].get("pat")
                    bound = pat_binds(sub) if sub is not None else ["negated"]
                    read = bool(bound) and any(x["k"] == "path" and x["segs"][0] == bound[0] for x in walk(body))
                    key = "%s@%s.negated" % (f.qual.split("::")[-1] if "::" in f.qual else f.qual, variant)
                    n += 1
                    rep.instance("E25", key, {"variant": variant, "refused": refuses, "flag_read": read})
                    if not refuses and not read:
                        rep.violation("E25", key, "the arm for ast::Expr::%s builds an expression without reading `negated`: NOT %s is read as %s" % (variant, variant.upper(), variant.upper()), "src/sql/expr.rs:%d" % a["l"])
    if n == 0:
        rep.undecidable("E25", "visit", "no arm with a `negated` flag found in the expression visitor of sql/expr.rs", "src/sql/expr.rs")


def e26(rep, src):
    """ORDER BY / LIMIT / OFFSET of a query are applied unless all three are absent."""
    rep.rule(
        "E26",
        "sql/relation.rs try_from_query, SELECT case: the shortcut that returns the relation of the SELECT as it is (no Map for ORDER BY / LIMIT / OFFSET) is taken only when the query has "
        "no ORDER BY, no LIMIT and no OFFSET - its condition, evaluated over the 8 presence combinations of `order_by`, `limit`, `offset`, holds for (absent, absent, absent) alone",
        floor=8,
        necessary="`SELECT .. OFFSET 90` compiled without its OFFSET returns other rows (and a size bound of 100 instead of 10); the renderer writes an offset-only Map exactly in that shape, so the rendered query does not re-read to itself",
    )
    import itertools
    from .canon import canon_view

    fq = src.find_fns(name="try_from_query", file="sql/relation.rs")
    key = "try_from_query@clauses"
    if len(fq) != 1:
        rep.undecidable("E26", key, "try_from_query not found (%d)" % len(fq), "src/sql/relation.rs")
        return
    f = canon_view(fq[0], src, helpers=False)  # an early `return Ok(relation)` reads as the then-branch of an if / else
    names = ("order_by", "limit", "offset")

    class Unknown(Exception):
        pass

    def ev(e, env):
        k = e["k"]
        if k == "unary" and e["op"].strip() == "!":
            return not ev(e["e"], env)
        if k == "binary" and e["op"].strip() in ("&&", "||"):
            a, b = ev(e["lhs"], env), ev(e["rhs"], env)
            return (a and b) if e["op"].strip() == "&&" else (a or b)
        if k == "mcall" and not e["args"] and e["m"] in ("is_empty", "is_none", "is_some"):
            r = e["recv"]
            while r["k"] in ("ref", "paren") or (r["k"] == "mcall" and r["m"] in ("as_ref", "iter", "clone") and not r["args"]):
                r = r["e"] if r["k"] in ("ref", "paren") else r["recv"]
            nm = path_of(r)
            if nm in env:
                return env[nm] if e["m"] == "is_some" else not env[nm]
        if k == "binary" and e["op"].strip() in ("==", "!=", ">") and e["rhs"]["k"] == "lit" and str(e["rhs"]["v"]) == "0" and e["lhs"]["k"] == "mcall" and e["lhs"]["m"] == "len":
            nm = path_of(e["lhs"]["recv"])
            if nm in env:
                return (not env[nm]) if e["op"].strip() == "==" else env[nm]
        raise Unknown(show(e, 60))

    sites = []
    for n in find(f.body, "if"):
        if n["cond"]["k"] == "letcond" or n.get("else") is None:
            continue
        mentioned = {x["segs"][0] for x in walk(n["cond"]) if x["k"] == "path" and len(x["segs"]) == 1} & set(names)
        tv = block_value(n["then"])
        if mentioned and tv is not None and tv["k"] == "call" and path_of(tv["f"]) == "Ok" and len(tv["args"]) == 1 and tv["args"][0]["k"] == "path":
            sites.append(n)
    if len(sites) != 1:
        rep.undecidable("E26", key, "expected one `if <no ORDER BY / LIMIT / OFFSET> { Ok(relation) } else { .. }` in try_from_query, found %d" % len(sites), f.where())
        return
    cond = sites[0]["cond"]
    for combo in itertools.product((False, True), repeat=3):
        env = dict(zip(names, combo))
        try:
            taken = ev(cond, env)
        except Unknown as u:
            rep.undecidable("E26", key, "the condition of the shortcut cannot be evaluated: `%s`" % u, f.where())
            return
        present = [n_ for n_ in names if env[n_]]
        rep.instance("E26", "%s:%s" % (key, "+".join(present) or "none"), {"present": present, "shortcut_taken": taken}, nontrivial=False)
        if taken and present:
            rep.violation("E26", key, "a query with %s (and nothing else) takes the shortcut `%s`: the clause is dropped" % (" and ".join(p_.upper().replace("_", " ") for p_ in present), show(cond, 80)), "src/sql/relation.rs:%d" % sites[0]["l"])
            return


def e27(rep, src):
    """The output name of an unaliased column reference is the column's own name."""
    rep.rule(
        "E27",
        "sql/relation.rs, unaliased select items: the name of `SELECT a` is the identifier a and the name of `SELECT t.a` is its last component (arms `ast::Expr::Identifier(i)` and "
        "`ast::Expr::CompoundIdentifier(is)` -> `is.last()` of the implicit-alias match); only other expressions get a generated `field_xxxx` name",
        floor=2,
        necessary="SQL names the output column of `SELECT t.a FROM t` `a`: with a generated name the schema, the rendered CTE column list and every outer reference to `a` differ from what the query means "
        "(`SELECT a FROM (SELECT t.a FROM t)` is refused)",
    )
    from .canon import canon_view

    fs = [f for f in src.find_fns(file="sql/relation.rs") if f.body and not f.test and any(is_call_to(c, "namer::name_from_content") or (path_of(c["f"]) or "").endswith("name_from_content") for c in find(f.body, "call"))]
    cands = []
    for f0 in fs:
        f = canon_view(f0, src, helpers=False)
        for m in find(f.body, "match"):
            vs = {}
            for a in m["arms"]:
                for pt in (a["pat"]["cases"] if a["pat"]["k"] == "or" else [a["pat"]]):
                    if pt["k"] == "tuplestruct" and "Expr" in pt["path"]["segs"] and pt["path"]["segs"][-1] in ("Identifier", "CompoundIdentifier"):
                        vs[pt["path"]["segs"][-1]] = (a, pt)
            gen = any((path_of(c["f"]) or "").endswith("name_from_content") for a in m["arms"] for c in find(a["body"], "call"))
            if gen and vs:
                cands.append((f0, m, vs))
    key = "implicit-alias"
    if len(cands) != 1:
        rep.undecidable("E27", key, "expected one `match expr { Identifier(..) => .., CompoundIdentifier(..) => .., other => name_from_content(..) }` in sql/relation.rs, found %d" % len(cands), "src/sql/relation.rs")
        return
    f0, m, vs = cands[0]
    for v in ("Identifier", "CompoundIdentifier"):
        k2 = "%s@%s" % (key, v)
        if v not in vs:
            rep.instance("E27", k2, {"variant": v, "arm": None})
            rep.violation("E27", k2, "an unaliased ast::Expr::%s falls to the generated-name arm: `SELECT %s` gets a field_xxxx name instead of `a`" % (v, "a" if v == "Identifier" else "t.a"), "src/sql/relation.rs:%d" % m["l"])
            continue
        a, pt = vs[v]
        b = pat_binds(pt)
        uses = [x for x in walk(a["body"]) if x["k"] == "path" and b and x["segs"][0] == b[0]]
        last = [x for x in find(a["body"], "mcall") if x["m"] == "last" and b and path_of(x["recv"]) == b[0]]
        gen = any((path_of(c["f"]) or "").endswith("name_from_content") for c in find(a["body"], "call"))
        ok = bool(uses) and not gen and (v == "Identifier" or bool(last))
        rep.instance("E27", k2, {"variant": v, "arm": show(a["body"], 80), "named_after_the_column": ok})
        if not ok:
            rep.violation("E27", k2, "the implicit name of an unaliased ast::Expr::%s is `%s`, not the column's own (last) identifier" % (v, show(a["body"], 80)), "src/sql/relation.rs:%d" % a["l"])


def run(rep):
    rep.explanation = (
        "Table agreement and structural rules of the render / read round trip on the default (PostgreSQL) path. E3/E4 join the renderer table (variant -> translator method -> SQL spelling, read from the type-resolved MIR) "
        "with the reader table (SQL name -> builder -> variant, read from the syn AST of sql/expr.rs) for every operator the reader can produce. E7/E8 check that every component of a relation node and every alias is rendered "
        "inside the node's CTE; E9 that operator operands are parenthesised; E10 the GROUP BY alias precedence. Execution on databases, name resolution as a whole, the Map/Reduce split and literal escaping are NOT decided."
    )
    src = Src(facts.src_facts())
    mir = Mir(facts.mir_facts())
    e3_e4(rep, src, mir)
    e5(rep, src)
    e7_e8(rep, src)
    e9(rep, src)
    e10(rep, src)
    e11(rep, src)
    e12(rep, src)
    e13(rep, src)
    e14(rep, src)
    e15(rep, src)
    e17(rep, src)
    e18(rep, src)
    e19(rep, src)
    e20(rep, src)
    e21(rep, src)
    e22(rep, src)
    e23(rep, src)
    e25(rep, src)
    e26(rep, src)
    e27(rep, src)
    rep.assume("sqlparser 0.46 parses NAME(args) into ast::Expr::Function with that name, except the keyword functions listed in KEYWORD_FUNCTIONS")
    rep.assume("operators are rendered through same-named ast::BinaryOperator / UnaryOperator variants (read: function_match_constructor!)")
