"""C07-R oracle: ranges of the library methods that appear inside `Pointwise` value closures.

Reviewed once against chrono 0.4.45 (the version pinned in /repo/Cargo.lock), std and rand 0.8.
One entry per line: (receiver class, method) -> (result, reason).  Result specs:
  ("int", lo, hi)  ("float", lo, hi)  ("obj", Class)  ("enum", Class)  ("opt", spec)
Receiver classes: Date = chrono::NaiveDate, DateTime = chrono::NaiveDateTime, Time = chrono::NaiveTime,
Weekday, IsoWeek, Text = String/&str, Int, Float, Rng (anything behind lock()/borrow_mut()).
A (class, method) pair that is not listed is *unknown*: the rule fails closed on it.
"""

I64MAX = 2**63 - 1
I64MIN = -(2**63)
MIN_YEAR = -262143  # chrono naive/date/mod.rs: MIN_YEAR = (i32::MIN >> 13) + 1
MAX_YEAR = 262142  # chrono naive/date/mod.rs: MAX_YEAR = (i32::MAX >> 13) - 1

METHODS = {
    # ---- Datelike (NaiveDate, NaiveDateTime)
    ("Date", "year"): (("int", MIN_YEAR, MAX_YEAR), "Datelike::year: NaiveDate::MIN.year() = -262143 (BCE years are negative), NaiveDate::MAX.year() = 262142"),
    ("DateTime", "year"): (("int", MIN_YEAR, MAX_YEAR), "NaiveDateTime::year delegates to its NaiveDate"),
    ("Date", "month"): (("int", 1, 12), "Datelike::month: month number starting from 1"),
    ("DateTime", "month"): (("int", 1, 12), "Datelike::month: month number starting from 1"),
    ("Date", "month0"): (("int", 0, 11), "Datelike::month0: month number starting from 0"),
    ("DateTime", "month0"): (("int", 0, 11), "Datelike::month0: month number starting from 0"),
    ("Date", "day"): (("int", 1, 31), "Datelike::day: day of month starting from 1"),
    ("DateTime", "day"): (("int", 1, 31), "Datelike::day: day of month starting from 1"),
    ("Date", "day0"): (("int", 0, 30), "Datelike::day0: day of month starting from 0"),
    ("DateTime", "day0"): (("int", 0, 30), "Datelike::day0: day of month starting from 0"),
    ("Date", "ordinal"): (("int", 1, 366), "Datelike::ordinal: day of year starting from 1, 366 in leap years"),
    ("DateTime", "ordinal"): (("int", 1, 366), "Datelike::ordinal: day of year starting from 1, 366 in leap years"),
    ("Date", "ordinal0"): (("int", 0, 365), "Datelike::ordinal0"),
    ("DateTime", "ordinal0"): (("int", 0, 365), "Datelike::ordinal0"),
    ("Date", "weekday"): (("enum", "Weekday"), "Datelike::weekday: one of the 7 chrono::Weekday variants"),
    ("DateTime", "weekday"): (("enum", "Weekday"), "Datelike::weekday: one of the 7 chrono::Weekday variants"),
    ("Date", "iso_week"): (("obj", "IsoWeek"), "Datelike::iso_week"),
    ("DateTime", "iso_week"): (("obj", "IsoWeek"), "Datelike::iso_week"),
    ("DateTime", "date"): (("obj", "Date"), "NaiveDateTime::date: the date part, any NaiveDate"),
    ("DateTime", "time"): (("obj", "Time"), "NaiveDateTime::time: the time part, any NaiveTime"),
    # ---- IsoWeek
    ("IsoWeek", "week"): (("int", 1, 53), "IsoWeek::week: ISO 8601 week number 1..=53 (long years have 53 weeks: 2020-12-31 is week 53)"),
    ("IsoWeek", "week0"): (("int", 0, 52), "IsoWeek::week0 = week - 1"),
    ("IsoWeek", "year"): (("int", MIN_YEAR - 1, MAX_YEAR + 1), "IsoWeek::year: the ISO year may be the calendar year +-1"),
    # ---- Weekday
    ("Weekday", "num_days_from_sunday"): (("int", 0, 6), "Weekday::num_days_from_sunday: Sun=0 .. Sat=6"),
    ("Weekday", "num_days_from_monday"): (("int", 0, 6), "Weekday::num_days_from_monday: Mon=0 .. Sun=6"),
    ("Weekday", "number_from_monday"): (("int", 1, 7), "Weekday::number_from_monday: Mon=1 .. Sun=7"),
    ("Weekday", "number_from_sunday"): (("int", 1, 7), "Weekday::number_from_sunday: Sun=1 .. Sat=7"),
    # ---- Timelike (NaiveTime, NaiveDateTime)
    ("Time", "hour"): (("int", 0, 23), "Timelike::hour: 0..=23"),
    ("DateTime", "hour"): (("int", 0, 23), "Timelike::hour: 0..=23"),
    ("Time", "minute"): (("int", 0, 59), "Timelike::minute: 0..=59"),
    ("DateTime", "minute"): (("int", 0, 59), "Timelike::minute: 0..=59"),
    ("Time", "second"): (("int", 0, 59), "Timelike::second: 0..=59 (a leap second is second 59 with nanosecond >= 1e9)"),
    ("DateTime", "second"): (("int", 0, 59), "Timelike::second: 0..=59 (a leap second is second 59 with nanosecond >= 1e9)"),
    ("Time", "nanosecond"): (("int", 0, 1999999999), "Timelike::nanosecond: 0..=999_999_999, up to 1_999_999_999 during a leap second"),
    ("DateTime", "nanosecond"): (("int", 0, 1999999999), "Timelike::nanosecond: 0..=999_999_999, up to 1_999_999_999 during a leap second"),
    ("Time", "num_seconds_from_midnight"): (("int", 0, 86399), "Timelike::num_seconds_from_midnight: non-leap seconds past midnight"),
    ("DateTime", "num_seconds_from_midnight"): (("int", 0, 86399), "Timelike::num_seconds_from_midnight"),
    # ---- strings
    ("Text", "len"): (("int", 0, I64MAX), "str::len: a byte length is >= 0 (and fits i64 once try_into().unwrap() succeeded)"),
    ("Text", "find"): (("opt", ("int", 0, I64MAX)), "str::find: None or a byte offset >= 0"),
    ("Text", "rfind"): (("opt", ("int", 0, I64MAX)), "str::rfind: None or a byte offset >= 0"),
    # ---- random numbers
    ("Rng", "gen::<f64>"): (("float", 0.0, 1.0), "rand 0.8 Standard distribution for f64: uniform in [0, 1)"),
}

# Methods that return (a view of / a conversion of) their receiver: the abstract value is unchanged.
IDENTITY_METHODS = {
    "into": "From/Into between a wrapped value and Value / between numeric types of the same value",
    "clone": "copy",
    "cloned": "copy",
    "to_owned": "copy",
    "to_string": "String of a str is the same text (only applied to text values)",
    "as_str": "view",
    "as_ref": "view",
    "deref": "view",
    "borrow": "view",
    "borrow_mut": "view",
    "lock": "the guarded value",
    "unwrap": "the Ok/Some payload (panics otherwise: no value is produced)",
    "expect": "the Ok/Some payload",
    "try_into": "the same number when it fits (unwrap() follows)",
}

# Constructor calls that wrap their single argument without changing the value.
IDENTITY_CALLS = {
    "Arc::new": "shared pointer",
    "Box::new": "box",
    "Some": "Option payload (handled as Opt)",
    "Value::integer": "Value of an i64",
    "Value::float": "Value of an f64",
    "Value::text": "Value of a String",
    "Value::from": "Value of the wrapped value",
    "Value::Optional": "Value of an Optional",
    "value::Optional::new": "Optional of an Option",
    "Optional::new": "Optional of an Option",
    "String::from": "the same text",
    "i64::from": "widening",
    "f64::from": "widening",
}

WEEKDAYS = ["Mon", "Tue", "Wed", "Thu", "Fri", "Sat", "Sun"]
ENUMS = {"Weekday": WEEKDAYS}

# `DataType::<v>()` / `data_type::<V>::default()` builders whose value is the whole variant.
VARIANTS = {
    "unit": "Unit", "boolean": "Boolean", "integer": "Integer", "float": "Float", "text": "Text", "bytes": "Bytes",
    "date": "Date", "time": "Time", "date_time": "DateTime", "duration": "Duration", "id": "Id",
}
VARIANT_NAMES = set(VARIANTS.values())
# the class of the wrapped element handed to the closure for a domain variant
ELEMENT_CLASS = {"Date": "Date", "DateTime": "DateTime", "Time": "Time", "Text": "Text", "Integer": "Int", "Float": "Float", "Boolean": "Bool"}
