"""C10 — predicate narrowing (WHERE / ON) never drops a row that satisfies the predicate.

Arm tables of the narrowing functions (DESIGN.md §3/C10).  Every arm of
  DataType::filter / filter_by_column / filter_by_value / filter_by_function / replace   (expr/mod.rs)
  DataType::filter_by_join_operator                                                        (relation/mod.rs)
is evaluated symbolically (qv/util_symex.py: locals disappear, only the shape of the computed value remains) and the
resulting term is judged against the predicate the arm stands for:

  rows(term) ⊇ { rows of `self` on which the predicate of this arm is true }

assuming the recursive calls (`filter`) and the lattice primitives (`super_intersection` ⊇ ∩, `super_union` ⊇ ∪,
`super_image` ⊇ image, greatest/least images) over-approximate — which is what C06/C11 are about.  The judgement is a
small calculus: a term is put in disjunctive normal form over *atoms* ("filtered by operand k", "column c replaced by V",
"emptied"); an arm is sound iff some disjunct only uses atoms its predicate implies (both operands for And, one operand
for each side of Or, a replacement that contains every value the column takes on satisfying rows for comparisons,
equalities and IN lists, nothing for unsupported functions).
"""
from . import facts
from .core import Src, Anchor, find, walk, show
from .util_symex import Ev, strip, norm, tshow, split_or, phi

LEVEL = "other"
EXHAUSTIVE = True

EXPR = "expr/mod.rs"
REL = "relation/mod.rs"
FILTERS = ("filter", "filter_by_column", "filter_by_value", "filter_by_function")


class Undecided(Exception):
    pass


def last(p):
    return p.split("::")[-1]


def is_self(t):
    return strip(t) == ("var", "self")


# ---------------------------------------------------------------------------------------------- per-arm evaluation


def as_guarded_match(fn, src):
    """`if let P = x { if c { return a; } } b` and `match x { P => if c { a } else { b }, .. }` read as the guarded match `match x { P if c => a, P => b, .. }`
    (canonical form: if-let as match, early returns eliminated; then an arm whose value is an if/else is split on its condition)."""
    if any(s_["k"] == "expr" and s_["e"]["k"] == "match" for s_ in fn.body["stmts"]) and not any(x["k"] == "return" for x in walk(fn.body)):
        g = fn
    else:
        from .canon import canon_view

        g = canon_view(fn, src, iflet=True, helpers=False)
    import copy

    g2 = copy.copy(g)
    body = dict(g.body)
    stmts = []
    for st in body["stmts"]:
        if st["k"] == "expr" and st["e"]["k"] == "match":
            arms = []
            for a in st["e"]["arms"]:
                b = a["body"]
                while b["k"] == "block" and len(b["stmts"]) == 1 and b["stmts"][0]["k"] == "expr":
                    b = b["stmts"][0]["e"]
                if not a.get("guard") and b["k"] == "if" and b["cond"]["k"] != "letcond" and b.get("else") is not None:
                    arms.append(dict(a, guard=b["cond"], body=b["then"]))
                    arms.append(dict(a, body=b["else"]))
                else:
                    arms.append(a)
            st = dict(st, e=dict(st["e"], arms=arms))
        stmts.append(st)
    body["stmts"] = stmts
    g2.node = dict(g.node, body=body)
    return g2


def top_match(fn):
    """The (single) `match` that is a top-level statement of the function body, with its position."""
    stmts = fn.body["stmts"]
    hits = [(i, s["e"]) for i, s in enumerate(stmts) if s["k"] == "expr" and s["e"]["k"] == "match"]
    if len(hits) != 1:
        raise Anchor("%s: expected exactly one top-level `match`, found %d" % (fn.qual, len(hits)))
    return hits[0]


def run_stmts(ev, stmts, env):
    val = ("tuple", ())
    for i, s in enumerate(stmts):
        val = ("tuple", ())
        if s["k"] == "let":
            t = ev.eval(s.get("init"), env) if s.get("init") is not None else ("unk", "uninit")
            ev.bind(s["pat"], t, env)
        elif s["k"] == "expr":
            v = ev.eval(s["e"], env)
            if not s.get("semi") and i == len(stmts) - 1:
                val = v
    return val


HELPERS = {}  # private free functions of expr/mod.rs (an extracted helper reads like the code it was extracted from); filled by run()


def arms_of(fn):
    """Yield (arm, alternative pattern, result term, scrutinee term, env, ev) for every alternative of every arm of the
    top-level match; the result is the value the *function* returns when that alternative is taken."""
    idx, m = top_match(fn)
    stmts = fn.body["stmts"]
    for a in m["arms"]:
        for alt in split_or(a["pat"]):
            ev = Ev(HELPERS)
            env = {}
            run_stmts(ev, stmts[:idx], env)
            scrut = ev.eval(m["e"], env)
            ev.bind(alt, scrut, env)
            guard = ev.eval(a["guard"], env) if a.get("guard") else None
            body = a["body"]
            v = ev.block(body, env) if body["k"] == "block" else ev.eval(body, env)
            rest = stmts[idx + 1 :]
            if rest:
                v = run_stmts(ev, rest, env)
            for r in ev.returns:
                v = phi([v, r])
            yield a, alt, v, scrut, guard, env, ev


# ---------------------------------------------------------------------------------------------- the calculus


def dnf(t):
    """Disjunctive normal form of a row-set term over atoms:
    ("P", pred_term)   rows kept by narrowing with predicate `pred_term` (filter / filter_by_*)
    ("R", col, value)  column `col` replaced by `value`
    ("EMPTY",)         no row kept
    Raises Undecided on a shape the calculus has no rule for."""
    t = strip(t)
    if t == ("var", "self"):
        return [frozenset()]
    k = t[0]
    if k == "phi":
        out = [frozenset()]
        for x in t[1]:
            out = [a | b for a in out for b in dnf(x)]
        return out
    if k == "m":
        name, recv, args = t[1], t[2], t[3]
        if name in FILTERS and len(args) == 1:
            return [c | {("P", strip(args[0]))} for c in dnf(recv)]
        if name == "super_intersection" and len(args) == 1:
            return [a | b for a in dnf(recv) for b in dnf(args[0])]
        if name == "super_union" and len(args) == 1:
            return dnf(recv) + dnf(args[0])
        if name == "unwrap_or" and len(args) == 1:
            return [a | b for a in dnf(recv) for b in dnf(args[0])]
        if name == "replace" and len(args) == 2:
            return [c | {("R", strip(args[0]), args[1])} for c in dnf(recv)]
        if name == "try_empty" and not args:
            dnf(recv)
            return [frozenset([("EMPTY",)])]
    if k == "call" and len(t[2]) == 2 and last(t[1]) in ("super_intersection", "super_union"):
        a, b = dnf(t[2][0]), dnf(t[2][1])
        return [x | y for x in a for y in b] if last(t[1]) == "super_intersection" else a + b
    raise Undecided("no rule for the row-set term %s" % tshow(t))


class Ctx:
    """What the arm's pattern says about the predicate."""

    def __init__(self, kind, args=None, roles=None, variant=None):
        self.kind = kind  # and | or | cmp | eq | inlist | none | pred
        self.args = args  # term of the argument slice
        self.roles = roles or {}  # operand index -> "big" | "small"   (cmp)
        self.variant = variant
        self.latent = []

    def arg(self, i):
        return ("elem", i, self.args)

    def arg_index(self, t):
        t = strip(t)
        if t[0] == "elem" and strip(t[2]) == strip(self.args):
            return t[1]
        return None

    def col_index(self, c):
        """c is the identifier bound by `Expr::Column(c)` on operand i -> i."""
        c = strip(c)
        if c[0] == "proj" and last(c[1]) == "Column" and c[2] == 0:
            return self.arg_index(c[3])
        return None


def rows_ok(t, ctx, why=None):
    """Does the row-set term contain every row of self on which the predicate of ctx holds (no extra assumption)?"""
    try:
        alts = dnf(t)
    except Undecided:
        return False
    return any(all(atom_implied(a, ctx, side=None) for a in c) for c in alts)


def atom_implied(a, ctx, side):
    """Is the atom implied by the predicate?  side: for Or, the operand assumed true (0 / 1)."""
    if a[0] == "EMPTY":
        return False
    if a[0] == "P":
        i = ctx.arg_index(a[1])
        if ctx.kind == "and":
            return i in (0, 1)
        if ctx.kind == "or":
            return i is not None and i == side
        return False
    if a[0] == "R":
        if ctx.kind not in ("cmp", "eq", "inlist"):
            return False
        i = ctx.col_index(a[1])
        if i is None:
            return False
        return vsound(a[2], i, ctx)
    return False


def is_extremum_fn(t):
    t = strip(t)
    if t[0] == "call" and not t[2] and last(t[1]) in ("greatest", "least"):
        return last(t[1])
    return None


def vsound(t, i, ctx):
    """Does the type term `t` contain every value operand/column i takes on a row that satisfies the predicate?"""
    t = strip(t)
    k = t[0]
    if k == "phi":
        return all(vsound(x, i, ctx) for x in t[1])
    if k == "m":
        name, recv, args = t[1], t[2], t[3]
        if name == "super_intersection" and len(args) == 1:
            return vsound(recv, i, ctx) and vsound(args[0], i, ctx)
        if name == "super_union" and len(args) == 1:
            return vsound(recv, i, ctx) or vsound(args[0], i, ctx)
        if name == "unwrap_or" and len(args) == 1:
            if not vsound(recv, i, ctx):
                return False
            if vsound(args[0], i, ctx):
                return True
            # the whole unfiltered input type used as a *column* type: a type confusion, reachable only if
            # DataType::super_intersection fails (nested Function types) — recorded, not reported (no failing input)
            if is_self(args[0]) and strip(recv)[0] == "m" and strip(recv)[1] in ("super_intersection", "super_union"):
                ctx.latent.append("fallback of %s is the whole input type, not the column type" % tshow(t))
                return True
            return False
        if name == "super_image" and len(args) == 1:
            j = ctx.arg_index(recv)
            if j is not None:
                # image of operand j under the (sound) current type
                if not rows_ok(args[0], ctx):
                    return False
                return j == i or ctx.kind == "eq"
            ext = is_extremum_fn(recv)
            if ext and ctx.kind == "cmp":
                want = "greatest" if ctx.roles.get(i) == "big" else "least"
                if ext != want:
                    return False
                s = strip(args[0])
                if s[0] == "call" and last(s[1]) == "structured_from_data_types" and len(s[2]) == 1:
                    arr = strip(s[2][0])
                    if arr[0] == "array" and len(arr[1]) == 2:
                        a, b = arr[1]
                        j = 1 - i
                        return (vsound(a, i, ctx) and vsound(b, j, ctx)) or (vsound(b, i, ctx) and vsound(a, j, ctx))
                return False
            return False
        if name == "data_type" and not args:
            # the non-null part of an Optional: NULL never satisfies a comparison / equality / IN
            r = strip(recv)
            if r[0] == "proj" and last(r[1]) == "Optional" and r[2] == 0 and ctx.kind in ("cmp", "eq", "inlist"):
                return vsound(r[3], i, ctx)
            return False
    if k == "index":
        # datatype[col]: the current type of the column itself
        return ctx.col_index(t[2]) == i and rows_ok(t[1], ctx)
    if k == "call" and last(t[1]) == "from_iter" and len(t[2]) == 1 and ctx.kind == "inlist":
        # the type of the literal list: sound for the tested column (operand 0)
        l = strip(t[2][0])
        ok = l[0] == "proj" and last(l[1]) == "List" and l[2] == 0 and strip(l[3])[0] == "proj" and last(strip(l[3])[1]) == "Value" and ctx.arg_index(strip(l[3])[3]) == 1
        return ok and i == 0
    return False


# ---------------------------------------------------------------------------------------------- F1


CMP_BIG = {"Gt": 0, "GtEq": 0, "Lt": 1, "LtEq": 1}


def fn_variant(p):
    """`function::Function::X` pattern -> X."""
    if p["k"] == "path" and len(p["segs"]) >= 2 and p["segs"][-2] == "Function":
        return p["segs"][-1]
    return None


def f1(rep, src):
    rep.rule(
        "F1",
        "arm table of DataType::filter_by_function, keyed by function::Function variant: the value returned on each arm contains every row of `self` satisfying the arm's predicate — "
        "And: every disjunct of the result is narrowed only by its own two operands; Or: some disjunct is narrowed by at most the left operand and some by at most the right one (∪, never ∩); "
        "Gt/GtEq/Lt/LtEq: the greater operand's column is replaced only by greatest(l,r) ∩ image(it), the smaller one's only by least(l,r) ∩ image(it) (operand order per variant); "
        "Eq: a column is replaced only by types built from image(l), image(r) with ∩; InList: the column is replaced by list-type ∩ its own type; "
        "any other variant and the default arm return the input unchanged; every error fallback is the unfiltered type",
        floor=8,
        necessary="each arm is the place where a sound operator has an unsound twin (∩ for ∪, least for greatest, swapped operands, emptying default): the twin drops rows that satisfy the predicate",
    )
    fn = src.one_fn(name="filter_by_function", file=EXPR, self_ty="DataType")
    seen = set()
    for a, alt, res, scrut, guard, env, ev in arms_of(fn):
        where = "src/%s:%d" % (EXPR, a["l"])
        variant, args = None, None
        default = alt["k"] in ("wild", "ident")
        if alt["k"] == "tuple" and len(alt["elems"]) == 2 and scrut[0] == "tuple":
            variant = fn_variant(alt["elems"][0])
            args = strip(scrut[1][1])
        if not default and variant is None:
            rep.undecidable("F1", "filter_by_function/" + show(alt, 50), "arm pattern is not (function::Function::<Variant>, [operands])", where)
            continue
        name = "default" if default else variant
        key = "filter_by_function/" + name
        if variant in ("And", "Or"):
            ctx = Ctx(variant.lower(), args, variant=variant)
        elif variant in CMP_BIG:
            big = CMP_BIG[variant]
            ctx = Ctx("cmp", args, roles={big: "big", 1 - big: "small"}, variant=variant)
        elif variant == "Eq":
            ctx = Ctx("eq", args, variant=variant)
        elif variant == "InList":
            ctx = Ctx("inlist", args, variant=variant)
        else:
            ctx = Ctx("none", args, variant=variant)
        if guard is not None:
            rep.undecidable("F1", key, "arm with a guard: %s" % tshow(guard), where)
            continue
        # operand patterns must bind operand k from position k of the argument slice (sub-patterns only restrict the arm)
        if not default:
            sl = alt["elems"][1]
            if sl["k"] != "slice" or len([e for e in sl["elems"] if e["k"] != "rest"]) != 2 or len(sl["elems"]) != 2:
                if ctx.kind != "none":
                    rep.undecidable("F1", key, "operand pattern is not a two-element slice: %s" % show(sl), where)
                    continue
        try:
            alts = dnf(res)
        except Undecided as e:
            rep.undecidable("F1", key, str(e), where)
            continue
        sample = {"arm": name, "returns": tshow(res)[:300]}
        rep.instance("F1", key + ("#%d" % a["l"] if key in seen else ""), sample, nontrivial=ctx.kind != "none")
        seen.add(key)
        rep.extra.setdefault("filter_by_function", {})[name] = tshow(res)[:600]
        if ctx.kind == "or":
            for side, nm in ((0, "first (left)"), (1, "second (right)")):
                if not any(all(atom_implied(x, ctx, side) for x in c) for c in alts):
                    rep.violation("F1", key, "the result of the Or arm does not contain the rows on which only the %s operand holds: %s" % (nm, tshow(res)[:300]), where)
        else:
            if not any(all(atom_implied(x, ctx, None) for x in c) for c in alts):
                if ctx.kind == "none" and not default and not any(a[0] == "EMPTY" for c in alts for a in c):
                    # a narrowing arm for a variant this rule has no predicate model for: it may be sound (the rule cannot tell), so the report says so
                    rep.undecidable("F1", key, "new narrowing arm for Function::%s: the rule has a model for And/Or/Gt/GtEq/Lt/LtEq/Eq/InList only; %s" % (variant, explain(ctx, alts, res)[:200]), where)
                else:
                    rep.violation("F1", key, explain(ctx, alts, res), where)
        for l in ctx.latent:
            rep.extra.setdefault("latent", []).append({"arm": key, "note": l})


def explain(ctx, alts, res):
    bad = []
    for c in alts:
        for a in c:
            if not atom_implied(a, ctx, None):
                if a[0] == "EMPTY":
                    bad.append("the type is emptied")
                elif a[0] == "P":
                    bad.append("narrowed by %s which the predicate does not imply" % tshow(a[1]))
                elif a[0] == "R":
                    i = ctx.col_index(a[1])
                    if ctx.kind in ("cmp", "eq", "inlist") and i is not None:
                        role = ctx.roles.get(i)
                        bad.append(
                            "column of operand %d%s replaced by %s, which need not contain its values on satisfying rows"
                            % (i, " (the %s side of %s)" % ("greater" if role == "big" else "smaller", ctx.variant) if role else "", tshow(a[2])[:260])
                        )
                    else:
                        bad.append("column %s replaced by %s" % (tshow(a[1]), tshow(a[2])[:200]))
    what = {"none": "an arm without a narrowing model must return the input unchanged", "and": "And arm", "cmp": "comparison arm", "eq": "Eq arm", "inlist": "InList arm"}.get(ctx.kind, ctx.kind)
    return "%s (%s): %s" % (what, ctx.variant or "default", "; ".join(sorted(set(bad))) or tshow(res)[:300])


# ---------------------------------------------------------------------------------------------- F2


def join_variant(p):
    q = p
    if q["k"] == "tuplestruct":
        q = q["path"]
    if q["k"] == "path" and len(q["segs"]) >= 2 and q["segs"][-2] == "JoinOperator":
        return q["segs"][-1]
    return None


def side_name(t):
    t = strip(t)
    if t[0] == "call" and not t[2] and last(t[1]) in ("left_name", "right_name") and "Join" in t[1]:
        return last(t[1])[:-5]
    return None


def f2(rep, src):
    rep.rule(
        "F2",
        "arm table of DataType::filter_by_join_operator, keyed by JoinOperator variant: Inner narrows by its own ON expression only; LeftOuter keeps the left side *unfiltered* (right side: filtered or not), "
        "RightOuter keeps the right side unfiltered; FullOuter and Cross return the input unchanged; each side is read back under its own name",
        floor=5,
        necessary="an outer join keeps every row of the preserved side whether or not the ON predicate holds: narrowing that side by the predicate drops rows the join outputs",
    )
    fn = src.one_fn(name="filter_by_join_operator", file=REL, self_ty="DataType")
    preserved = {"Inner": set(), "LeftOuter": {"left"}, "RightOuter": {"right"}, "FullOuter": {"left", "right"}, "Cross": {"left", "right"}}
    idx, m = top_match(fn)
    for a, alt, res, scrut, guard, env, ev in arms_of(fn):
        where = "src/%s:%d" % (REL, a["l"])
        v = join_variant(alt)
        if v is None or v not in preserved:
            rep.undecidable("F2", "filter_by_join_operator/" + show(alt, 40), "arm is not keyed by a known JoinOperator variant (a catch-all cannot be checked per join kind)", where)
            continue
        key = "filter_by_join_operator/" + v
        rep.instance("F2", key, {"arm": v, "returns": tshow(res)[:300]})
        rep.extra.setdefault("filter_by_join_operator", {})[v] = tshow(res)[:400]
        on = strip(("proj", alt["path"]["p"], 0, scrut)) if alt["k"] == "tuplestruct" else None

        def narrowed_only_by_on(t, allow_on):
            """t is `self` possibly narrowed by the arm's own ON expression."""
            try:
                alts = dnf(t)
            except Undecided:
                return None
            for c in alts:
                if all(x[0] == "P" and allow_on and on is not None and strip(x[1]) == on for x in c):
                    return True
            return False

        r = strip(res)
        sides = None
        if r[0] == "call" and last(r[1]) == "structured" and len(r[2]) == 1 and strip(r[2][0])[0] == "array":
            sides = {}
            for el in strip(r[2][0])[1]:
                if el[0] == "tuple" and len(el[1]) == 2 and side_name(el[1][0]):
                    sides[side_name(el[1][0])] = el[1][1]
                else:
                    sides = None
                    break
        if sides is None:
            ok = narrowed_only_by_on(res, allow_on=not preserved[v])
            if ok is None:
                rep.undecidable("F2", key, "cannot decide the shape of the result: %s" % tshow(res)[:300], where)
            elif not ok:
                what = "narrows the preserved side(s) %s" % sorted(preserved[v]) if preserved[v] else "is narrowed by something else than its ON expression"
                rep.violation("F2", key, "%s join: the result %s: %s" % (v, what, tshow(res)[:300]), where)
            continue
        if set(sides) != {"left", "right"}:
            rep.violation("F2", key, "%s join: the rebuilt type does not have exactly the two sides (found %s)" % (v, sorted(sides)), where)
            continue
        for sd, t in sides.items():
            t = strip(t)
            if not (t[0] == "index" and side_name(t[2]) is not None):
                rep.undecidable("F2", key, "%s side is not read back by name from a type: %s" % (sd, tshow(t)[:200]), where)
                continue
            if side_name(t[2]) != sd:
                rep.violation("F2", key, "%s join: the %s side is rebuilt from the %s side" % (v, sd, side_name(t[2])), where)
                continue
            ok = narrowed_only_by_on(t[1], allow_on=sd not in preserved[v])
            if ok is None:
                rep.undecidable("F2", key, "cannot decide where the %s side comes from: %s" % (sd, tshow(t)[:200]), where)
            elif not ok:
                if sd in preserved[v]:
                    rep.violation("F2", key, "%s join: the preserved %s side is narrowed by the ON predicate (%s)" % (v, sd, tshow(t)[:200]), where)
                else:
                    rep.violation("F2", key, "%s join: the %s side is narrowed by something else than the arm's ON expression (%s)" % (v, sd, tshow(t)[:200]), where)
    # every JoinOperator variant must be decided by an explicit arm
    declared = src.enum_variants("JoinOperator", file=REL)
    named = set()
    for a in m["arms"]:
        for alt in split_or(a["pat"]):
            if join_variant(alt):
                named.add(join_variant(alt))
    for v in declared:
        if v not in named:
            rep.violation("F2", "filter_by_join_operator/" + v, "JoinOperator::%s has no explicit arm (or the rule has no model for it)" % v, fn.where())
        elif v not in preserved:
            rep.undecidable("F2", "filter_by_join_operator/" + v, "no model for join kind %s" % v, fn.where())


# ---------------------------------------------------------------------------------------------- F3


def expr_variant(p):
    q = p["path"] if p["k"] == "tuplestruct" else p
    if q["k"] == "path" and len(q["segs"]) >= 2 and q["segs"][-2] == "Expr":
        return q["segs"][-1]
    return None


def f3(rep, src):
    rep.rule(
        "F3",
        "entry dispatch: every arm of DataType::filter returns `self` narrowed only by the payload of the Expr variant it matched (Aggregate and Struct: unchanged); "
        "filter_by_column narrows only when the column's type is a single value (`len() == 1`) and then by that value; "
        "filter_by_value empties the type only for the Boolean literal under the guard `!b` (false), every other value returns the input unchanged",
        floor=8,
        necessary="these are the leaves of the recursion: a leaf that narrows on anything else than a constant-false predicate drops satisfying rows for every predicate built on it",
    )
    # --- filter
    fn = src.one_fn(name="filter", file=EXPR, self_ty="DataType")
    declared = src.enum_variants("Expr", file=EXPR)
    named = set()
    for a, alt, res, scrut, guard, env, ev in arms_of(fn):
        where = "src/%s:%d" % (EXPR, a["l"])
        v = expr_variant(alt)
        key = "filter/" + (v or ("default" if alt["k"] in ("wild", "ident") else show(alt, 40)))
        if v:
            named.add(v)
        rep.instance("F3", key, {"arm": key, "returns": tshow(res)[:200]})
        if guard is not None:
            rep.undecidable("F3", key, "arm with a guard", where)
            continue
        try:
            alts = dnf(res)
        except Undecided as e:
            rep.undecidable("F3", key, str(e), where)
            continue
        payload = ("proj", alt["path"]["p"], 0, scrut) if alt["k"] == "tuplestruct" and len(alt["elems"]) == 1 else None
        ok = any(all(x[0] == "P" and payload is not None and strip(x[1]) == strip(payload) for x in c) for c in alts)
        if not ok:
            rep.violation("F3", key, "DataType::filter on Expr::%s returns %s: not the input narrowed by that expression's own payload" % (v or "?", tshow(res)[:200]), where)
    for v in declared:
        if v not in named:
            rep.instance("F3", "filter/" + v, {"arm": "covered by a catch-all"}, nontrivial=False)
    # --- filter_by_value
    fn = as_guarded_match(src.one_fn(name="filter_by_value", file=EXPR, self_ty="DataType"), src)
    for a, alt, res, scrut, guard, env, ev in arms_of(fn):
        where = "src/%s:%d" % (EXPR, a["l"])
        name = last(alt["path"]["p"]) if alt["k"] == "tuplestruct" else ("default" if alt["k"] in ("wild", "ident") else show(alt, 40))
        key = "filter_by_value/" + name
        rep.instance("F3", key, {"arm": key, "guard": tshow(guard) if guard else None, "returns": tshow(res)[:200]})
        try:
            alts = dnf(res)
        except Undecided as e:
            rep.undecidable("F3", key, str(e), where)
            continue
        if any(not c for c in alts):
            continue  # returns the input unchanged
        empties = all(c == frozenset([("EMPTY",)]) for c in alts)
        is_bool = alt["k"] == "tuplestruct" and last(alt["path"]["p"]) == "Boolean" and len(alt["elems"]) == 1 and "Value" in alt["path"]["p"]
        b = norm(("proj", alt["path"]["p"], 0, scrut)) if is_bool else None
        g_ok = guard is not None and guard[0] == "not" and norm(guard[1]) == b
        if not (empties and is_bool and g_ok and strip(scrut) == ("var", fn.params[1]["pat"]["name"])):
            rep.violation(
                "F3",
                key,
                "filter_by_value narrows (%s) on an arm that is not `Value::Boolean(b) if !b` (pattern %s, guard %s)" % (tshow(res)[:120], show(alt, 60), tshow(guard) if guard else "none"),
                where,
            )
    # --- filter_by_column
    fn = src.one_fn(name="filter_by_column", file=EXPR, self_ty="DataType")
    pname = fn.params[1]["pat"]["name"]
    for a, alt, res, scrut, guard, env, ev in arms_of(fn):
        where = "src/%s:%d" % (EXPR, a["l"])
        name = last(alt["path"]["p"]) if alt["k"] == "tuplestruct" else ("default" if alt["k"] in ("wild", "ident") else show(alt, 40))
        key = "filter_by_column/" + name
        rep.instance("F3", key, {"arm": key, "guard": tshow(guard) if guard else None, "returns": tshow(res)[:200]})
        try:
            alts = dnf(res)
        except Undecided as e:
            rep.undecidable("F3", key, str(e), where)
            continue
        if any(not c for c in alts):
            continue
        # the scrutinee must be the list of values of the column's own type: try_into(self[predicate])
        s = strip(scrut)
        src_ok = False
        if (s[0] == "call" and last(s[1]) == "try_into" and len(s[2]) == 1) or (s[0] == "m" and s[1] == "try_into"):
            inner = strip(s[2][0] if s[0] == "call" else s[2])
            src_ok = inner[0] == "index" and is_self(inner[1]) and strip(inner[2]) == ("var", pname)
        vals = norm(scrut)
        ok_pat = alt["k"] == "tuplestruct" and alt["path"]["p"] == "Ok"
        g = norm(guard) if guard is not None else None
        g_ok = g is not None and g[0] == "bin" and g[1] == "==" and {g[2], g[3]} == {("m", "len", vals, ()), ("lit", "1")}
        want = frozenset([("P", ("index", vals, ("lit", "0")))])
        if not (src_ok and ok_pat and g_ok and all(frozenset(("P", norm(x[1])) if x[0] == "P" else x for x in c) == want for c in alts)):
            rep.violation(
                "F3",
                key,
                "filter_by_column narrows (%s) on an arm that is not `Ok(v) if v.len() == 1 => filter_by_value(&v[0])` over the values of the column's own type (guard %s)"
                % (tshow(res)[:160], tshow(guard) if guard else "none"),
                where,
            )


# ---------------------------------------------------------------------------------------------- F4


def f4(rep, src):
    rep.rule(
        "F4",
        "DataType::replace touches only the named column: in the Struct and Union arms the field whose name equals the head of the path is rebuilt by the recursive `replace` on the tail, "
        "every other field is copied; the leaf arm returns the new type",
        floor=3,
        necessary="replacing any other field by the narrowed type narrows a column the predicate says nothing about",
    )
    fns = [f for f in src.find_fns(name="replace", file=EXPR, self_ty="DataType")]
    if len(fns) != 1:
        raise Anchor("DataType::replace not found in %s" % EXPR)
    fn = fns[0]
    ps = [p for p in fn.params if not p.get("self")]
    if len(ps) != 2:
        raise Anchor("DataType::replace: expected (name, dt) parameters")
    dt = ps[1]["pat"]["name"]
    ms = [m for m in find(fn.body, "match") if m["e"]["k"] == "path" and m["e"]["p"] == "self"]
    if len(ms) != 1:
        raise Anchor("DataType::replace: expected one `match self`")
    from .flow import mentions

    for a in ms[0]["arms"]:
        for alt in split_or(a["pat"]):
            where = "src/%s:%d" % (EXPR, a["l"])
            name = last(alt["path"]["p"]) if alt["k"] == "tuplestruct" else "default"
            key = "replace/" + name
            body = a["body"]
            if alt["k"] != "tuplestruct":
                # leaf: the value of the arm is the new type
                tail = body["stmts"][-1]["e"] if body["k"] == "block" and body["stmts"] and body["stmts"][-1]["k"] == "expr" else body
                rep.instance("F4", key, {"arm": name, "returns": show(tail, 60)})
                unchanged = tail["k"] == "mcall" and tail["m"] == "clone" and tail["recv"]["k"] == "path" and tail["recv"]["p"] == "self"
                if not ((tail["k"] == "path" and tail["p"] == dt) or unchanged):
                    rep.violation("F4", key, "the leaf arm of DataType::replace returns neither the new type `%s` nor the input, but %s" % (dt, show(tail, 80)), where)
                continue
            # composite arm: find the head of the split path and the per-field closure
            heads = []
            for s in find(body, "let"):
                init = s.get("init")
                if init is not None and any(x["k"] == "mcall" and x["m"] == "split_head" for x in walk(init)) and s["pat"]["k"] == "tuple" and len(s["pat"]["elems"]) == 2:
                    heads.append((s["pat"]["elems"][0].get("name"), s["pat"]["elems"][1].get("name")))
            ifs = [(c, i) for c in find(body, "closure") for i in find(c["body"], "if") if mentions(i, {dt})]
            rep.instance("F4", key, {"arm": name, "head/tail": heads, "conditionals": len(ifs)})
            if len(heads) != 1 or len(ifs) != 1:
                rep.undecidable("F4", key, "expected one `let (head, tail) = name.split_head()` and one per-field conditional mentioning `%s`" % dt, where)
                continue
            head, tailn = heads[0]
            clo, iff = ifs[0]
            fields = [p for p in walk({"k": "tuple", "elems": clo["params"], "l": 0}) if p["k"] == "ident"]
            fname = fields[0]["name"] if fields else None
            cond = iff["cond"]

            def bare(x):
                while x["k"] in ("ref", "unary"):
                    x = x["e"]
                return x["p"] if x["k"] == "path" else None

            eq = cond["k"] == "binary" and cond["op"].strip() == "==" and {bare(cond["lhs"]), bare(cond["rhs"])} == {head, fname}
            then_rep = [x for x in find(iff["then"], "mcall") if x["m"] == "replace" and mentions(x, {dt}) and mentions(x, {tailn})]
            else_dt = iff.get("else") is None or mentions(iff["else"], {dt})
            if not eq:
                rep.violation("F4", key, "the field rebuilt with the new type is not selected by `head == field name` but by `%s`" % show(cond, 80), where)
            elif not then_rep or else_dt:
                rep.violation("F4", key, "the branches of `%s` do not rebuild the matching field (recursive replace on the tail) and copy the others" % show(cond, 60), where)


def run(rep):
    rep.explanation = (
        "Arm-table proof over the narrowing functions (syn AST of the current tree, evaluated symbolically per match arm). Decides, for every arm of DataType::filter, filter_by_column, "
        "filter_by_value, filter_by_function (And, Or, Gt, GtEq, Lt, LtEq, Eq, InList, default), replace and filter_by_join_operator (Inner, LeftOuter, RightOuter, FullOuter, Cross), that the value "
        "returned contains every row of the input on which the arm's predicate holds, *given* that the recursive calls and the lattice primitives (super_intersection, super_union, super_image, "
        "greatest/least) over-approximate.  Does NOT decide those primitives (C06, C11) nor the for-all over rows and predicates itself."
    )
    src = Src(facts.src_facts())
    HELPERS.clear()
    HELPERS.update({f.name: f.node for f in src.fns if f.file == "expr/mod.rs" and not f.self_ty and not f.test and f.body and (f.node.get("vis") or "") == ""})
    f1(rep, src)
    f2(rep, src)
    f3(rep, src)
    f4(rep, src)
    rep.assume("super_intersection / super_union / super_image / function::greatest / function::least over-approximate ∩ / ∪ / image / max / min (C06, C11)")
    rep.assume("rustc accepts the tree: operand and payload types are the ones the patterns name")
    # who narrows: the only callers of try_empty / replace inside the narrowing functions were enumerated above; other writers of a
    # narrowed type would have to go through these functions (DataType::filter is the only public narrowing entry point)
