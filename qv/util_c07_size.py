"""Concrete term evaluator for the relation-size constructors (C07 rule Z2) and the row-count semantics they must contain.

`Evaluator.call(fn, args)` interprets the syn AST of `Map::new`, `Reduce::new`, `Join::new`, `Set::new`, `Values::new`
(following their calls to `X::size` and `JoinOperator::has_unique_constraint`) on stub arguments: relations that only
have a size interval, an operator that only has a variant (and the two uniqueness flags of its ON expression), limit /
offset numbers.  Integers carry the set of input symbols they were computed from (for the polarity diagnostic).
Nothing of Qrlew is executed: this is evaluation of the extracted term on a grid of small inputs.
"""
from .core import show, path_of, strip_generics

I64MAX = 2**63 - 1
I64MIN = -(2**63)


class Undecided(Exception):
    pass


class Overflow(Exception):
    pass


class Int:
    __slots__ = ("v", "tags")

    def __init__(self, v, tags=frozenset()):
        self.v, self.tags = v, frozenset(tags)

    def __repr__(self):
        return "%d" % self.v


class Size:
    def __init__(self, lo, hi):
        self.lo, self.hi = lo, hi


class Rel:
    def __init__(self, name, lo, hi):
        self.name = name
        self.size = Size(Int(lo, {name + ".min"}), Int(hi, {name + ".max"}))


class Op:
    def __init__(self, enum, variant, payload, flags=(False, False)):
        self.enum, self.variant, self.payload, self.flags = enum, variant, payload, flags


class Some:
    def __init__(self, v):
        self.v = v


NONE = ("None",)


class Lst:
    def __init__(self, name, n):
        self.name, self.n = name, n


class Opaque:
    def __init__(self, what=""):
        self.what = what


class Struct:
    def __init__(self, name, fields):
        self.name, self.fields = name, fields


class Closure:
    def __init__(self, node, env):
        self.node, self.env = node, env


def chk(v, node):
    if v > I64MAX or v < I64MIN:
        raise Overflow(show(node, 60))
    return v


class Evaluator:
    def __init__(self, fns, stubs, resolve=None):
        """fns: {'Map::size': Fn, ...} interpretable functions; stubs: {'JoinOperator::expr_has_unique_constraint': callable};
        resolve(qual) -> Fn | None finds further helper functions of the same file lazily (an extracted helper is followed)."""
        self.fns, self.stubs, self.resolve = fns, stubs, resolve
        self.failed = set()
        self.lazy = set()

    def helper(self, qual, args, self_val=None):
        """Follow a call into a helper that is not one of the anchors; Opaque when it is not interpretable."""
        if qual in self.failed or self.resolve is None:
            return None
        if qual not in self.fns:
            f = self.resolve(qual)
            if f is None or f.body is None:
                self.failed.add(qual)
                return None
            self.fns[qual] = f
            self.lazy.add(qual)
        try:
            return self.call(qual, args, self_val)
        except Overflow:
            raise
        except Return:
            raise
        except Exception:
            if qual in self.lazy:
                self.failed.add(qual)
                del self.fns[qual]
                return None
            raise

    # ------------------------------------------------------------------ functions
    def call(self, qual, args, self_val=None):
        f = self.fns[qual]
        env = {}
        ps = f.params
        if ps and ps[0].get("self"):
            env["self"] = self_val
            ps = ps[1:]
        if len(ps) != len(args):
            raise Undecided("%s called with %d arguments" % (qual, len(args)))
        for p, a in zip(ps, args):
            self.bind(p["pat"], a, env)
        env["Self"] = qual.split("::")[0]
        try:
            return self.block(f.body, env)
        except Return as r:
            return r.v

    def bind(self, pat, v, env):
        k = pat["k"]
        if k == "ident":
            env[pat["name"]] = v
        elif k in ("ref", "typed"):
            self.bind(pat["pat"], v, env)
        elif k == "wild":
            pass
        elif k == "tuple" and isinstance(v, tuple) and len(v) == len(pat["elems"]):
            for p, x in zip(pat["elems"], v):
                self.bind(p, x, env)
        elif k == "tuple" and isinstance(v, Opaque):
            for p in pat["elems"]:
                self.bind(p, Opaque(v.what), env)
        else:
            raise Undecided("cannot bind pattern `%s`" % show(pat, 60))

    def block(self, b, env):
        env = dict(env)
        res = None
        for s in b["stmts"]:
            if s["k"] == "let":
                self.bind(s["pat"], self.ev(s["init"], env), env)
                res = None
            elif s["k"] == "expr":
                v = self.ev(s["e"], env)
                res = None if s.get("semi") else v
            elif s["k"] == "macro":
                res = None  # assert!/debug_assert!/println!: no value
            else:
                raise Undecided("statement `%s`" % show(s, 60))
        return res if res is not None else ()

    # ------------------------------------------------------------------ patterns (match)
    def matches(self, pat, v, env):
        k = pat["k"]
        if k == "wild":
            return True
        if k == "ident":
            if pat["name"] == "None":
                return v is NONE
            env[pat["name"]] = v
            return True
        if k == "ref":
            return self.matches(pat["pat"], v, env)
        if k == "or":
            return any(self.matches(c, v, env) for c in pat["cases"])
        if k == "lit" and isinstance(v, Int) and pat["t"] == "int":
            return v.v == int(pat["v"])
        if k == "lit" and isinstance(v, bool) and pat["t"] == "bool":
            return v == pat["v"]
        if k == "tuple" and isinstance(v, tuple) and len(v) == len(pat["elems"]):
            return all(self.matches(p, x, env) for p, x in zip(pat["elems"], v))
        if k in ("path", "tuplestruct", "struct"):
            segs = (pat if k == "path" else pat["path"])["segs"]
            head = segs[-1]
            if head == "None" and k == "path":
                return v is NONE
            if head == "Some" and k == "tuplestruct":
                return isinstance(v, Some) and self.matches(pat["elems"][0], v.v, env)
            if isinstance(v, Op) and len(segs) >= 2 and segs[-2] == v.enum:
                if head != v.variant:
                    return False
                if k == "tuplestruct":
                    for p in pat["elems"]:
                        self.matches(p, Opaque("payload of %s" % v.variant), env)
                return True
        raise Undecided("cannot decide pattern `%s` here" % show(pat, 60))

    # ------------------------------------------------------------------ expressions
    def ev(self, n, env):
        k = n["k"]
        if k == "lit":
            if n["t"] == "int":
                return Int(int(n["v"]), {"const"})
            if n["t"] == "bool":
                return bool(n["v"])
            return Opaque("literal")
        if k == "path":
            segs = n["segs"]
            if len(segs) == 1 and segs[0] in env:
                return env[segs[0]]
            if segs == ["None"]:
                return NONE
            p = n["p"].replace(" ", "")
            if p in ("i64::MAX", "std::i64::MAX"):
                return Int(I64MAX, {"const"})
            if len(segs) >= 2 and segs[-2] in ("JoinOperator", "SetOperator", "SetQuantifier"):
                return Op(segs[-2], segs[-1], False)
            return Opaque(n["p"])
        if k in ("ref", "expr", "try"):
            return self.ev(n["e"], env)
        if k == "unary":
            v = self.ev(n["e"], env)
            if n["op"] == "*":
                return v
            if n["op"] == "!" and isinstance(v, bool):
                return not v
            if n["op"] == "-" and isinstance(v, Int):
                return Int(-v.v, v.tags)
            raise Undecided("unary `%s`" % show(n, 60))
        if k == "cast":
            v = self.ev(n["e"], env)
            if isinstance(v, Int) and n["ty"].replace(" ", "") in ("i64", "usize", "u64", "i128", "isize"):
                return v
            raise Undecided("cast `%s`" % show(n, 60))
        if k == "binary":
            a, b = self.ev(n["lhs"], env), self.ev(n["rhs"], env)
            op = n["op"]
            if isinstance(a, bool) and isinstance(b, bool) and op in ("||", "&&", "==", "!="):
                return {"||": a or b, "&&": a and b, "==": a == b, "!=": a != b}[op]
            if isinstance(a, Int) and isinstance(b, Int):
                t = a.tags | b.tags
                if op in ("+", "-", "*"):
                    return Int(chk({"+": a.v + b.v, "-": a.v - b.v, "*": a.v * b.v}[op], n), t)
                if op in ("<", "<=", ">", ">=", "==", "!="):
                    return {"<": a.v < b.v, "<=": a.v <= b.v, ">": a.v > b.v, ">=": a.v >= b.v, "==": a.v == b.v, "!=": a.v != b.v}[op]
            if isinstance(a, Opaque) or isinstance(b, Opaque):
                return Opaque("binary")
            raise Undecided("operator in `%s`" % show(n, 60))
        if k == "block":
            return self.block(n, env)
        if k == "if":
            c = n["cond"]
            if c["k"] == "letcond":
                e2 = dict(env)
                if self.matches(c["pat"], self.ev(c["e"], env), e2):
                    return self.block(n["then"], e2)
                return self.ev(n["else"], env) if n.get("else") else ()
            cv = self.ev(c, env)
            if not isinstance(cv, bool):
                raise Undecided("condition `%s` is not decided by the stubs" % show(c, 60))
            if cv:
                return self.block(n["then"], env)
            return self.ev(n["else"], env) if n.get("else") else ()
        if k == "match":
            sv = self.ev(n["e"], env)
            for a in n["arms"]:
                e2 = dict(env)
                if self.matches(a["pat"], sv, e2):
                    if a.get("guard"):
                        g = self.ev(a["guard"], e2)
                        if not isinstance(g, bool):
                            raise Undecided("guard `%s`" % show(a["guard"], 60))
                        if not g:
                            continue
                    return self.ev(a["body"], e2)
            raise Undecided("no arm of `match %s` applies" % show(n["e"], 40))
        if k == "tuple":
            return tuple(self.ev(e, env) for e in n["elems"])
        if k == "closure":
            return Closure(n, env)
        if k == "struct":
            return Struct(n["path"]["segs"][-1], {f["name"]: self.ev(f["e"], env) for f in n["fields"]})
        if k == "return":
            raise Return(self.ev(n["e"], env))
        if k == "macro":
            if n["name"] == "vec":
                return Opaque("vec")
            if n["name"] == "matches" and len(n.get("args") or []) == 0:
                raise Undecided("`matches!` is not interpreted")
            return Opaque(n["name"] + "!")
        if k == "call":
            return self.fcall(n, env)
        if k == "mcall":
            return self.mcall(n, env)
        if k in ("array", "index", "field", "range"):
            return Opaque(k)
        raise Undecided("expression `%s`" % show(n, 60))

    def apply(self, clo, args):
        if not isinstance(clo, Closure) or len(clo.node["params"]) != len(args):
            raise Undecided("not a closure of %d parameters" % len(args))
        env = dict(clo.env)
        for p, a in zip(clo.node["params"], args):
            self.bind(p, a, env)
        return self.ev(clo.node["body"], env)

    def fcall(self, n, env):
        p = path_of(n["f"])
        if p is None:
            return Opaque("call")
        p = strip_generics(p.replace(" ", "")) if not p.startswith("<") else p.replace(" ", "")
        if p.startswith("Self::") and "Self" in env:
            p = env["Self"] + p[4:]
        if p in self.fns and p not in self.lazy:
            return self.call(p, [self.ev(a, env) for a in n["args"]])
        if p in self.stubs:
            return self.stubs[p]([self.ev(a, env) for a in n["args"]])
        args = [self.ev(a, env) for a in n["args"]]
        if p in ("<i64asBound>::max", "i64::max_value"):
            return Int(I64MAX, {"const"})
        if p in ("<i64asBound>::min", "i64::min_value"):
            return Int(I64MIN, {"const"})
        tail = p.split("::")
        if tail[-1] in ("max", "min") and len(args) == 2 and tail[:-1] in (["std", "cmp"], ["cmp"], ["i64"], ["Ord"], []) and all(isinstance(a, Int) for a in args):
            f = max if tail[-1] == "max" else min
            return Int(f(args[0].v, args[1].v), args[0].tags | args[1].tags)
        if tail[-1] == "Some" and len(args) == 1:
            return Some(args[0])
        if len(tail) >= 2 and tail[-2] == "Integer":
            ints = all(isinstance(a, Int) for a in args)
            if tail[-1] == "from_interval" and len(args) == 2 and ints:
                return Size(args[0], args[1])
            if tail[-1] == "from_min" and len(args) == 1 and ints:
                return Size(args[0], Int(I64MAX, {"const"}))
            if tail[-1] == "from_max" and len(args) == 1 and ints:
                return Size(Int(I64MIN, {"const"}), args[0])
            if tail[-1] in ("from", "from_value") and len(args) == 1 and ints:
                return Size(args[0], args[0])
            raise Undecided("size built by `%s`" % show(n, 60))
        if len(tail) >= 2 and tail[-2] in ("JoinOperator", "SetOperator", "SetQuantifier") and tail[-1][:1].isupper():
            return Op(tail[-2], tail[-1], True)
        r = self.helper(p, args)
        return r if r is not None else Opaque(p)

    def mcall(self, n, env):
        m = n["m"]
        r = self.ev(n["recv"], env)
        A = n["args"]
        if isinstance(r, Rel):
            if m == "size" and not A:
                return r.size
            return Opaque("%s.%s()" % (r.name, m))
        if isinstance(r, Size):
            if m == "max" and not A:
                return Some(r.hi)
            if m == "min" and not A:
                return Some(r.lo)
            if m in ("clone", "into", "to_owned") and not A:
                return r
            raise Undecided("`%s` on a size interval" % m)
        if isinstance(r, Some) or r is NONE:
            if m in ("cloned", "copied", "clone", "as_ref") and not A:
                return r
            if m == "unwrap_or" and len(A) == 1:
                d = self.ev(A[0], env)
                return r.v if isinstance(r, Some) else d
            if m == "unwrap_or_else" and len(A) == 1:
                return r.v if isinstance(r, Some) else self.apply(self.ev(A[0], env), [])
            if m in ("unwrap", "expect"):
                if isinstance(r, Some):
                    return r.v
                raise Undecided("unwrap of None")
            if m == "map_or_else" and len(A) == 2:
                return self.apply(self.ev(A[1], env), [r.v]) if isinstance(r, Some) else self.apply(self.ev(A[0], env), [])
            if m == "map_or" and len(A) == 2:
                return self.apply(self.ev(A[1], env), [r.v]) if isinstance(r, Some) else self.ev(A[0], env)
            if m == "map" and len(A) == 1:
                return Some(self.apply(self.ev(A[0], env), [r.v])) if isinstance(r, Some) else NONE
            if m in ("is_some", "is_none") and not A:
                return isinstance(r, Some) == (m == "is_some")
            raise Undecided("`%s` on an Option" % m)
        if isinstance(r, Int):
            if m in ("clone", "into", "to_owned") and not A:
                return r
            if len(A) == 1:
                o = self.ev(A[0], env)
                if isinstance(o, Int):
                    t = r.tags | o.tags
                    if m == "min":
                        return Int(min(r.v, o.v), t)
                    if m == "max":
                        return Int(max(r.v, o.v), t)
                    sat = lambda x: max(I64MIN, min(I64MAX, x))
                    if m == "saturating_mul":
                        return Int(sat(r.v * o.v), t)
                    if m == "saturating_add":
                        return Int(sat(r.v + o.v), t)
                    if m == "saturating_sub":
                        return Int(sat(r.v - o.v), t)
            raise Undecided("`%s` on an integer in `%s`" % (m, show(n, 60)))
        if isinstance(r, Op):
            q = "%s::%s" % (r.enum, m)
            if q in self.fns and q not in self.lazy:
                return self.call(q, [Opaque("arg") for _ in A], self_val=r)
            if m == "clone":
                return r
            h = self.helper(q, [self.ev(a, env) for a in A], self_val=r)
            return h if h is not None else Opaque(q)
        if isinstance(r, Lst):
            if m == "len" and not A:
                return Int(r.n, {r.name + ".len"})
            if m == "is_empty" and not A:
                return r.n == 0
            if m in ("clone", "iter", "as_slice"):
                return r
            return Opaque("%s.%s()" % (r.name, m))
        if isinstance(r, Struct) and m in ("into", "clone"):
            return r
        if isinstance(r, bool) and m == "clone":
            return r
        return Opaque("." + m)


class Return(Exception):
    def __init__(self, v):
        self.v = v


# --------------------------------------------------------------------------- row-count semantics (the oracle)
# Each function returns (least, greatest) number of rows over all databases whose inputs have between a and b rows
# (and over every choice the size function is not told about: filter / ON expression / grouping keys / values).
# Derivations are in the comments; they were cross-checked by brute force over small key assignments (see report).


def cap(x):
    return min(x, I64MAX)


def rows_map(a, b, limit, offset, has_filter):
    """LIMIT/OFFSET after an optional filter: rows = min(limit, max(0, kept - offset)), kept in [0 or a, b]."""
    f = lambda kept: max(0, kept - (offset or 0)) if limit is None else min(limit, max(0, kept - (offset or 0)))
    return (0 if has_filter else f(a)), f(b)


def rows_reduce(a, b, n_keys):
    """No grouping key: exactly one row, even over an empty input.  Keys: one row per distinct key, 1..n rows when n >= 1 rows."""
    if n_keys == 0:
        return 1, 1
    return (1 if a >= 1 else 0), b


def rows_join(variant, uL, uR, al, bl, ar, br):
    """uL (uR): the ON expression equates a UNIQUE column of the left (right) input, so every right (left) row matches <= 1 left (right) row."""

    def inner(l, r):
        if l == 0 or r == 0:
            return 0
        return min(l, r) if uL and uR else r if uL else l if uR else l * r

    def left_outer(l, r, uL, uR):  # every left row is preserved: rows = sum over left rows of max(1, #matches)
        if l == 0:
            return 0
        if r == 0 or uR:
            return l
        return l + r - 1 if uL else l * r  # uL only: one left row takes all r right rows, the l-1 others are unmatched

    if variant == "Inner":
        return 0, cap(inner(bl, br))
    if variant == "Cross":
        return al * ar, cap(bl * br)
    if variant == "LeftOuter":
        return al, cap(left_outer(bl, br, uL, uR))
    if variant == "RightOuter":
        return ar, cap(left_outer(br, bl, uR, uL))
    if variant == "FullOuter":  # rows = pairs + unmatched left + unmatched right; no match at all gives l + r
        hi = bl + br if (uL or uR or bl == 0 or br == 0) else max(bl + br, bl * br)
        return max(al, ar), cap(hi)
    raise Undecided("no row-count semantics for JoinOperator::%s" % variant)


def rows_set(variant, all_rows, al, bl, ar, br):
    """all_rows: the quantifier keeps duplicates (ALL); otherwise the result is de-duplicated."""
    if variant == "Union":
        return (al + ar if all_rows else (1 if max(al, ar) >= 1 else 0)), cap(bl + br)
    if variant == "Intersect":
        return 0, min(bl, br)
    if variant == "Except":
        lo = max(0, al - br) if all_rows else (1 if al >= 1 and br == 0 else 0)
        return lo, bl
    raise Undecided("no row-count semantics for SetOperator::%s" % variant)
