"""Interval / finite-set abstract interpreter for `Pointwise` value closures (C07 rule R).

Values: Num (interval, optional finite value set, int/float), Strs (finite set of strings or any text),
En (subset of an enum's variants), Obj (an arbitrary value of a class), Opt, Bool, BOTTOM (diverges).
Anything outside the tables of qv/c07_ranges.py raises Unknown: the rule fails closed on it.
"""
import math
import re

from .core import show, path_of, strip_generics
from . import c07_ranges as T


class Unknown(Exception):
    pass


class Num:
    def __init__(self, lo, hi, isfloat=False, vals=None):
        self.lo, self.hi, self.isfloat = lo, hi, isfloat
        self.vals = frozenset(vals) if vals is not None and len(vals) <= 64 else None

    cls = property(lambda s: "Float" if s.isfloat else "Int")

    def __repr__(self):
        if self.vals is not None and len(self.vals) <= 8:
            return "{%s}" % ", ".join(fmt(v) for v in sorted(self.vals))
        return "[%s, %s]" % (fmt(self.lo), fmt(self.hi))


def fmt(v):
    return repr(v) if isinstance(v, float) else str(v)


class Strs:
    cls = "Text"

    def __init__(self, vals=None):
        self.vals = None if vals is None else frozenset(vals)

    def __repr__(self):
        return "text" if self.vals is None else "{%s}" % ", ".join(sorted(self.vals))


class En:
    def __init__(self, ty, variants):
        self.cls, self.variants = ty, frozenset(variants)

    def __repr__(self):
        return "%s{%s}" % (self.cls, ",".join(sorted(self.variants)))


class Obj:
    def __init__(self, cls):
        self.cls = cls

    def __repr__(self):
        return "any %s" % self.cls


class Opt:
    cls = "Opt"

    def __init__(self, inner, may_none):
        self.inner, self.may_none = inner, may_none  # inner None = never Some

    def __repr__(self):
        return "Option(%r%s)" % (self.inner, ", None" if self.may_none else "")


class Bool:
    cls = "Bool"

    def __repr__(self):
        return "bool"


class Bottom:
    cls = "Bottom"

    def __repr__(self):
        return "!"


BOTTOM = Bottom()


def join(a, b):
    if a is BOTTOM:
        return b
    if b is BOTTOM:
        return a
    if isinstance(a, Num) and isinstance(b, Num):
        vals = a.vals | b.vals if a.vals is not None and b.vals is not None else None
        return Num(min(a.lo, b.lo), max(a.hi, b.hi), a.isfloat or b.isfloat, vals)
    if isinstance(a, Strs) and isinstance(b, Strs):
        return Strs(None if a.vals is None or b.vals is None else a.vals | b.vals)
    if isinstance(a, En) and isinstance(b, En) and a.cls == b.cls:
        return En(a.cls, a.variants | b.variants)
    if isinstance(a, Opt) and isinstance(b, Opt):
        inner = b.inner if a.inner is None else a.inner if b.inner is None else join(a.inner, b.inner)
        return Opt(inner, a.may_none or b.may_none)
    if isinstance(a, Bool) and isinstance(b, Bool):
        return a
    if isinstance(a, Obj) and isinstance(b, Obj) and a.cls == b.cls:
        return a
    raise Unknown("join of %r and %r" % (a, b))


def from_spec(spec):
    k = spec[0]
    if k == "int":
        return Num(spec[1], spec[2], False)
    if k == "float":
        return Num(spec[1], spec[2], True)
    if k == "obj":
        return Obj(spec[1])
    if k == "enum":
        return En(spec[1], T.ENUMS[spec[1]])
    if k == "opt":
        return Opt(from_spec(spec[1]), True)
    raise Unknown("range spec %r" % (spec,))


INT_TYPES = {"i64": (T.I64MIN, T.I64MAX), "i32": (-(2**31), 2**31 - 1), "u32": (0, 2**32 - 1), "u64": (0, 2**64 - 1), "usize": (0, 2**64 - 1), "isize": (T.I64MIN, T.I64MAX), "i128": (-(2**127), 2**127 - 1)}


def tdiv(a, b):
    q = abs(a) // abs(b)
    return q if (a >= 0) == (b >= 0) else -q


def corners(a, b, f):
    vs = [f(x, y) for x in (a.lo, a.hi) for y in (b.lo, b.hi)]
    return min(vs), max(vs)


def arith(op, a, b, node):
    if not (isinstance(a, Num) and isinstance(b, Num)):
        raise Unknown("operator `%s` on %r and %r in `%s`" % (op, a, b, show(node, 60)))
    isf = a.isfloat or b.isfloat
    vals = None
    if op in ("+", "-", "*"):
        f = {"+": lambda x, y: x + y, "-": lambda x, y: x - y, "*": lambda x, y: x * y}[op]
        lo, hi = corners(a, b, f)
        if a.vals is not None and b.vals is not None and len(a.vals) * len(b.vals) <= 64:
            vals = {f(x, y) for x in a.vals for y in b.vals}
    elif op == "/":
        if b.lo <= 0 <= b.hi:
            raise Unknown("division by a range containing 0 in `%s`" % show(node, 60))
        lo, hi = corners(a, b, (lambda x, y: x / y) if isf else tdiv)
    elif op == "%":
        if isf or b.lo != b.hi or b.lo <= 0:
            raise Unknown("`%%` with a non-constant or non-positive modulus in `%s`" % show(node, 60))
        m = b.lo
        lo, hi = (0 if a.lo >= 0 else -(m - 1)), (m - 1 if a.hi > 0 else 0)
    else:
        raise Unknown("operator `%s` in `%s`" % (op, show(node, 60)))
    return Num(lo, hi, isf, vals)


def pat_range(src):
    m = re.match(r"^\s*(-?\s*\d+)?\s*\.\.(=)?\s*(-?\s*\d+)?\s*$", src)
    if not m:
        return None
    lo = int(m.group(1).replace(" ", "")) if m.group(1) else -math.inf
    hi = int(m.group(3).replace(" ", "")) if m.group(3) else math.inf
    if m.group(3) and not m.group(2):
        hi -= 1
    return lo, hi


class Remaining:
    """The part of a `match` scrutinee not yet covered by the previous (unguarded) arms: integer intervals or enum variants."""

    def __init__(self, val):
        self.ivs = [(val.lo, val.hi)] if isinstance(val, Num) and not val.isfloat else None
        self.vars = set(val.variants) if isinstance(val, En) else None

    def empty(self):
        return (self.ivs is not None and not self.ivs) or (self.vars is not None and not self.vars)

    def remove(self, pat):
        k = pat["k"]
        if k == "or":
            for c in pat["cases"]:
                self.remove(c)
        elif k in ("wild", "ident") and not (k == "ident" and pat["name"] == "None"):
            if self.ivs is not None:
                self.ivs = []
            if self.vars is not None:
                self.vars = set()
        elif self.vars is not None and k == "path":
            self.vars.discard(pat["segs"][-1])
        elif self.ivs is not None and k in ("lit", "range"):
            r = (int(pat["v"]), int(pat["v"])) if k == "lit" and pat.get("t") == "int" else pat_range(pat["src"]) if k == "range" else None
            if r:
                out = []
                for lo, hi in self.ivs:
                    if r[1] < lo or r[0] > hi:
                        out.append((lo, hi))
                        continue
                    if lo < r[0]:
                        out.append((lo, r[0] - 1))
                    if r[1] < hi:
                        out.append((r[1] + 1, hi))
                self.ivs = out


def is_identity_call(p):
    p = strip_generics(p)
    for k in T.IDENTITY_CALLS:
        if p == k or p.endswith("::" + k):
            return True
    return False


class Interp:
    def __init__(self, helpers=None):
        self.used = []  # (class, method, reason) table rows used, for the evidence
        # private free functions of the analysed file ({name: fn node}): a call is interpreted through the helper's body
        self.helpers = helpers or {}
        self._depth = 0

    def lit(self, n):
        t = n["t"]
        if t == "int":
            if (n.get("suffix") or "").startswith("f"):
                return Num(float(n["v"]), float(n["v"]), True)
            v = int(n["v"])
            return Num(v, v, False, {v})
        if t == "float":
            v = float(n["v"])
            return Num(v, v, True, {v})
        if t == "str":
            return Strs({n["v"]})
        if t == "bool":
            return Bool()
        raise Unknown("literal `%s`" % show(n))

    def bind(self, pat, val, env):
        k = pat["k"]
        if k == "ident":
            if pat["name"] != "None":
                env[pat["name"]] = val
            return
        if k in ("wild", "lit", "range", "path"):
            return
        if k == "ref":
            return self.bind(pat["pat"], val, env)
        if k == "typed":
            return self.bind(pat["pat"], val, env)
        if k == "or":
            for c in pat["cases"]:
                self.bind(c, val, env)
            return
        if k == "tuplestruct":
            head = pat["path"]["segs"][-1]
            if head in ("Some", "Optional") and len(pat["elems"]) == 1:
                if isinstance(val, Opt):
                    inner = val if head == "Optional" else (val.inner if val.inner is not None else BOTTOM)
                    return self.bind(pat["elems"][0], inner, env)
            if all(e["k"] in ("wild", "rest") for e in pat["elems"]):
                return
        raise Unknown("pattern `%s` over %r" % (show(pat), val))

    def arm_reachable(self, pat, val):
        k = pat["k"]
        if k == "or":
            return any(self.arm_reachable(c, val) for c in pat["cases"])
        if isinstance(val, En) and k == "path":
            return pat["segs"][-1] in val.variants
        if isinstance(val, Num) and not val.isfloat:
            if k == "lit" and pat["t"] == "int":
                return val.lo <= int(pat["v"]) <= val.hi
            if k == "range":
                r = pat_range(pat["src"])
                if r:
                    return not (r[1] < val.lo or r[0] > val.hi)
        if isinstance(val, Opt):
            if k == "ident" and pat["name"] == "None":
                return val.may_none
            if k == "tuplestruct" and pat["path"]["segs"][-1] == "Some":
                return val.inner is not None
        return True

    def ev(self, n, env):
        k = n["k"]
        if k == "lit":
            return self.lit(n)
        if k == "path":
            segs = n["segs"]
            if len(segs) == 1 and segs[0] in env:
                return env[segs[0]]
            if segs == ["None"]:
                return Opt(None, True)
            if len(segs) >= 2 and segs[-2] in T.ENUMS and segs[-1] in T.ENUMS[segs[-2]]:
                return En(segs[-2], [segs[-1]])
            p = n["p"].replace(" ", "")
            consts = {"i64::MAX": T.I64MAX, "i64::MIN": T.I64MIN, "u32::MAX": 2**32 - 1, "i32::MAX": 2**31 - 1}
            if p in consts:
                return Num(consts[p], consts[p], False, {consts[p]})
            raise Unknown("name `%s`" % n["p"])
        if k == "cast":
            v = self.ev(n["e"], env)
            ty = n["ty"].replace(" ", "")
            if not isinstance(v, Num):
                raise Unknown("cast of %r `as %s`" % (v, ty))
            if ty in ("f64", "f32"):
                return Num(float(v.lo), float(v.hi), True, None if v.vals is None else {float(x) for x in v.vals})
            if ty in INT_TYPES:
                lo, hi = (math.trunc(v.lo), math.trunc(v.hi)) if v.isfloat else (v.lo, v.hi)
                tl, th = INT_TYPES[ty]
                if lo < tl or hi > th:
                    raise Unknown("cast `%s` may wrap (%r does not fit %s)" % (show(n, 60), v, ty))
                return Num(lo, hi, False, None if v.vals is None or v.isfloat else v.vals)
            raise Unknown("cast `as %s`" % ty)
        if k == "unary":
            v = self.ev(n["e"], env)
            if n["op"] == "-" and isinstance(v, Num):
                return Num(-v.hi, -v.lo, v.isfloat, None if v.vals is None else {-x for x in v.vals})
            if n["op"] == "*":
                return v
            if n["op"] == "!" and isinstance(v, Bool):
                return v
            raise Unknown("unary `%s` on %r" % (n["op"], v))
        if k == "ref":
            return self.ev(n["e"], env)
        if k == "binary":
            op = n["op"]
            a, b = self.ev(n["lhs"], env), self.ev(n["rhs"], env)
            if op in ("==", "!=", "<", "<=", ">", ">=", "&&", "||"):
                return Bool()
            return arith(op, a, b, n)
        if k == "block":
            env = dict(env)
            res = None
            for s in n["stmts"]:
                if s["k"] == "let":
                    if s.get("init") is None:
                        raise Unknown("`let` without initialiser")
                    self.bind(s["pat"], self.ev(s["init"], env), env)
                    res = None
                elif s["k"] == "expr":
                    v = self.ev(s["e"], env)
                    res = None if s.get("semi") else v
                    if v is BOTTOM:
                        return BOTTOM
                elif s["k"] == "macro":
                    v = self.ev(s, env)
                    if v is BOTTOM:
                        return BOTTOM
                    res = None
                else:
                    raise Unknown("statement `%s`" % show(s, 60))
            if res is None:
                raise Unknown("block without a value `%s`" % show(n, 60))
            return res
        if k == "expr":
            return self.ev(n["e"], env)
        if k == "if":
            c = n["cond"]
            then_env = dict(env)
            if c["k"] == "letcond":
                self.bind(c["pat"], self.ev(c["e"], env), then_env)
            else:
                self.ev(c, env)
            a = self.ev(n["then"], then_env)
            if not n.get("else"):
                raise Unknown("`if` without `else` used as a value")
            return join(a, self.ev(n["else"], env))
        if k == "match":
            sv = self.ev(n["e"], env)
            res = BOTTOM
            left = Remaining(sv)
            for a in n["arms"]:
                if not self.arm_reachable(a["pat"], sv) or left.empty():
                    continue
                if not a.get("guard"):
                    left.remove(a["pat"])
                e2 = dict(env)
                self.bind(a["pat"], sv, e2)
                res = join(res, self.ev(a["body"], e2))
            return res
        if k == "return":
            return self.ev(n["e"], env)
        if k == "macro":
            if n["name"] in ("panic", "unreachable", "unimplemented", "todo"):
                return BOTTOM
            if n["name"] == "format":
                return Strs(None)
            raise Unknown("macro `%s!`" % n["name"])
        if k == "call":
            p = path_of(n["f"])
            if p is None:
                raise Unknown("call `%s`" % show(n, 60))
            if is_identity_call(p) and len(n["args"]) == 1:
                v = self.ev(n["args"][0], env)
                if strip_generics(p).split("::")[-1] == "Some":
                    return Opt(v, False)
                return v
            nm = strip_generics(p)
            h = self.helpers.get(nm) if "::" not in nm else None
            if h is not None and self._depth < 3 and h.get("body") is not None:
                ps = [q for q in ((h.get("sig") or {}).get("params") or []) if not q.get("self")]
                if len(ps) == len(n["args"]):
                    e2 = {}
                    for q, a in zip(ps, n["args"]):
                        self.bind(q["pat"], self.ev(a, env), e2)
                    self._depth += 1
                    try:
                        return self.ev(h["body"], e2)
                    finally:
                        self._depth -= 1
            raise Unknown("function `%s`" % strip_generics(p))
        if k == "mcall":
            return self.mcall(n, env)
        raise Unknown("expression `%s`" % show(n, 60))

    def apply(self, clo, args, env):
        if clo["k"] != "closure" or len(clo["params"]) != len(args):
            raise Unknown("closure `%s`" % show(clo, 60))
        e2 = dict(env)
        for p, a in zip(clo["params"], args):
            self.bind(p, a, e2)
        return self.ev(clo["body"], e2)

    def mcall(self, n, env):
        m = n["m"]
        recv = self.ev(n["recv"], env)
        if recv is BOTTOM:
            return BOTTOM
        if m in T.IDENTITY_METHODS:
            if m == "to_string" and not isinstance(recv, Strs):
                return Strs(None)
            if m in ("lock", "borrow_mut") and not isinstance(recv, (Num, Strs, Opt, En, Bool)):
                return Obj("Rng") if recv.cls in ("Rng", "Captured") else recv
            if m in ("unwrap", "expect") and isinstance(recv, Opt):
                return recv.inner if recv.inner is not None else BOTTOM
            return recv
        if isinstance(recv, Opt):
            if m == "map" and len(n["args"]) == 1:
                return Opt(None if recv.inner is None else self.apply(n["args"][0], [recv.inner], env), recv.may_none)
            if m == "unwrap_or" and len(n["args"]) == 1:
                d = self.ev(n["args"][0], env)
                return d if recv.inner is None else (join(recv.inner, d) if recv.may_none else recv.inner)
            if m in ("is_none", "is_some"):
                return Bool()
        if isinstance(recv, Num) and m in ("min", "max") and len(n["args"]) == 1:
            o = self.ev(n["args"][0], env)
            if isinstance(o, Num):
                f = min if m == "min" else max
                return Num(f(recv.lo, o.lo), f(recv.hi, o.hi), recv.isfloat or o.isfloat)
        if isinstance(recv, Num) and m == "abs" and not n["args"]:
            lo = 0 if recv.lo <= 0 <= recv.hi else min(abs(recv.lo), abs(recv.hi))
            return Num(lo, max(abs(recv.lo), abs(recv.hi)), recv.isfloat)
        if isinstance(recv, Num) and m == "clamp" and len(n["args"]) == 2:
            a, b = self.ev(n["args"][0], env), self.ev(n["args"][1], env)
            if isinstance(a, Num) and isinstance(b, Num):
                return Num(max(recv.lo, a.lo), min(recv.hi, b.hi), recv.isfloat)
        if isinstance(recv, Num) and recv.isfloat and m in ("round", "floor", "ceil", "trunc") and not n["args"]:
            return Num(float(math.floor(recv.lo)), float(math.ceil(recv.hi)), True)
        name = m + ("::" + n["turbofish"].replace(" ", "").lstrip(":") if n.get("turbofish") else "")
        key = (recv.cls, name)
        if key in T.METHODS:
            spec, why = T.METHODS[key]
            row = "%s.%s -> %s  (%s)" % (key[0], key[1], spec[1:] if spec[0] in ("int", "float") else spec, why)
            if row not in self.used:
                self.used.append(row)
            return from_spec(spec)
        raise Unknown("method `%s` on %r: not in the range table (qv/c07_ranges.py)" % (name, recv))


# --------------------------------------------------------------------------- declared co-domains


class Decl:
    """A declared co-domain: variant + (full | intervals | values | strings) (+ optional wrapper)."""

    def __init__(self, variant, full, intervals=None, strs=None, optional=False, text=""):
        self.variant, self.full, self.intervals, self.strs, self.optional, self.text = variant, full, intervals, strs, optional, text

    def __repr__(self):
        return self.text


def const_num(n):
    """Constant folding of the numeric literals used in co-domain builders."""
    if n["k"] == "lit" and n["t"] in ("int", "float"):
        return float(n["v"]) if n["t"] == "float" or (n.get("suffix") or "").startswith("f") else int(n["v"])
    if n["k"] == "unary" and n["op"] == "-":
        return -const_num(n["e"])
    if n["k"] == "path":
        c = {"i64::MAX": T.I64MAX, "i64::MIN": T.I64MIN}.get(n["p"].replace(" ", ""))
        if c is not None:
            return c
    if n["k"] == "cast":
        return const_num(n["e"])
    raise Unknown("co-domain bound `%s` is not a numeric literal" % show(n, 60))


def const_str(n):
    if n["k"] == "lit" and n["t"] == "str":
        return n["v"]
    if n["k"] == "mcall" and n["m"] in ("to_string", "into", "to_owned") and not n["args"]:
        return const_str(n["recv"])
    if n["k"] == "call" and strip_generics(path_of(n["f"]) or "").endswith("String::from") and len(n["args"]) == 1:
        return const_str(n["args"][0])
    raise Unknown("co-domain value `%s` is not a string literal" % show(n, 60))


DECL_HELPERS = {}  # private zero-argument functions of data_type/function.rs (name -> body): a table of values factored out of a co-domain


def elems_of(n):
    if n["k"] == "array":
        return n["elems"]
    if n["k"] == "call" and not n["args"] and n["f"]["k"] == "path" and len(n["f"]["segs"]) == 1 and n["f"]["segs"][0] in DECL_HELPERS:
        b = DECL_HELPERS[n["f"]["segs"][0]]
        while b["k"] == "block" and len(b["stmts"]) == 1 and b["stmts"][0]["k"] == "expr":
            b = b["stmts"][0]["e"]
        return elems_of(b)
    if n["k"] == "macro" and n["name"] == "vec" and "args" in n:
        return n["args"]
    if n["k"] == "ref":
        return elems_of(n["e"])
    raise Unknown("co-domain value list `%s` is not a literal array" % show(n, 60))


def parse_decl(n):
    """DataType / data_type::<Variant> builder expression -> Decl.  Raises Unknown on anything else."""
    text = show(n, 90)
    if n["k"] == "path":
        segs = n["segs"]
        if segs[-2:] == ["DataType", "Any"]:
            return Decl("Any", True, text=text)
        raise Unknown("co-domain `%s` is not a literal builder" % text)
    if n["k"] == "mcall" and n["m"] in ("into", "clone") and not n["args"]:
        return parse_decl(n["recv"])
    if n["k"] != "call" or path_of(n["f"]) is None:
        raise Unknown("co-domain `%s` is not a literal builder" % text)
    segs = strip_generics(path_of(n["f"])).split("::")
    args = n["args"]
    head, fn = (segs[-2] if len(segs) >= 2 else ""), segs[-1]
    if head == "DataType":
        if fn in T.VARIANTS and not args:
            return Decl(T.VARIANTS[fn], True, text=text)
        if fn == "optional" and len(args) == 1:
            d = parse_decl(args[0])
            d.optional, d.text = True, text
            return d
        if fn in ("structured_from_data_types", "sum", "list", "structured", "union", "set", "array", "function"):
            return Decl("Composite", True, text=text)
        for v, variant in T.VARIANTS.items():
            if fn.startswith(v + "_"):
                return parse_restricted(variant, fn[len(v) + 1 :], args, text)
        raise Unknown("co-domain builder `DataType::%s`" % fn)
    if head in T.VARIANT_NAMES:
        if fn in ("default", "full") and not args:
            return Decl(head, True, text=text)
        if fn.startswith("from_"):
            return parse_restricted(head, fn[5:], args, text)
    raise Unknown("co-domain `%s` is not a literal builder" % text)


def parse_restricted(variant, kind, args, text):
    if variant in ("Integer", "Float"):
        conv = float if variant == "Float" else (lambda x: x)
        lo_all, hi_all = (-math.inf, math.inf) if variant == "Float" else (T.I64MIN, T.I64MAX)
        if kind == "interval" and len(args) == 2:
            iv = [(conv(const_num(args[0])), conv(const_num(args[1])))]
        elif kind == "min" and len(args) == 1:
            iv = [(conv(const_num(args[0])), hi_all)]
        elif kind == "max" and len(args) == 1:
            iv = [(lo_all, conv(const_num(args[0])))]
        elif kind == "value" and len(args) == 1:
            v = conv(const_num(args[0]))
            iv = [(v, v)]
        elif kind == "values" and len(args) == 1:
            iv = [(conv(const_num(e)), conv(const_num(e))) for e in elems_of(args[0])]
        elif kind == "intervals" and len(args) == 1:
            iv = [(conv(const_num(e["elems"][0])), conv(const_num(e["elems"][1]))) for e in elems_of(args[0])]
        else:
            raise Unknown("co-domain builder `%s`" % text)
        return Decl(variant, False, intervals=iv, text=text)
    if variant == "Text" and kind in ("values", "value") and len(args) == 1:
        vals = [const_str(args[0])] if kind == "value" else [const_str(e) for e in elems_of(args[0])]
        return Decl("Text", False, strs=frozenset(vals), text=text)
    raise Unknown("restricted co-domain `%s`: no abstract domain for %s_%s" % (text, variant, kind))


def contained(val, decl):
    """None if every concrete value of `val` is in `decl`, else a message naming a value that is not."""
    if val is BOTTOM:
        return None
    if isinstance(val, Opt):
        if val.may_none and not decl.optional:
            return "None (NULL) may be produced but the co-domain is not optional"
        return None if val.inner is None else contained(val.inner, decl)
    if decl.full:
        return None
    if isinstance(val, Num):
        if decl.intervals is None:
            return "a number is produced for a %s co-domain" % decl.variant
        if val.isfloat != (decl.variant == "Float"):
            return "a %s is produced for a %s co-domain" % (val.cls, decl.variant)
        pts = sorted(val.vals) if val.vals is not None else None
        if pts is not None:
            bad = [p for p in pts if not any(lo <= p <= hi for lo, hi in decl.intervals)]
            return None if not bad else "value %s is outside" % fmt(bad[-1])
        for lo, hi in decl.intervals:
            if lo <= val.lo and val.hi <= hi:
                return None
        if len(decl.intervals) == 1:
            lo, hi = decl.intervals[0]
            return "value %s is outside" % (fmt(val.hi) if val.hi > hi else fmt(val.lo))
        return "range %r is not inside one declared interval" % val
    if isinstance(val, Strs):
        if decl.strs is None:
            return "a text is produced for a %s co-domain" % decl.variant
        if val.vals is None:
            return "an arbitrary text is produced"
        bad = sorted(val.vals - decl.strs)
        return None if not bad else "value %r is outside" % bad[0]
    raise Unknown("no containment test between %r and the declared co-domain %s" % (val, decl.text))
