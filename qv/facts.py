"""Fact extraction from /repo's *current working tree*, cached by content hash.

  src facts : tools/srcfacts (syn 2)      -> .cache/facts/<hash>/src.json
  mir facts : tools/mirfacts (rustc_private driver under `cargo +nightly check --lib`)
                                          -> .cache/facts/<hash>/mir[-<features>].json

The hash covers src/**, Cargo.toml and Cargo.lock, so an edited tree is always re-extracted.
The qrlew fingerprint in the shared target dir is removed before each MIR extraction so that
cargo cannot skip the driver; the run fails closed if the fact file was not (re)written.
"""
import fcntl
import glob
import hashlib
import json
import os
import shutil
import subprocess
import sys
import time

from .core import VERIF, REPO

CACHE = os.path.join(VERIF, ".cache")
SRCFACTS = os.path.join(VERIF, "tools", "srcfacts", "target", "release", "srcfacts")
MIRFACTS = os.path.join(VERIF, "tools", "mirfacts", "target", "release", "mirfacts")


class FactError(Exception):
    pass


def tree_hash(repo=None):
    repo = repo or REPO
    h = hashlib.sha256()
    files = []
    for root, dirs, fs in os.walk(os.path.join(repo, "src")):
        dirs.sort()
        for f in sorted(fs):
            files.append(os.path.join(root, f))
    for extra in ("Cargo.toml", "Cargo.lock"):
        p = os.path.join(repo, extra)
        if os.path.exists(p):
            files.append(p)
    for p in files:
        h.update(os.path.relpath(p, repo).encode())
        h.update(b"\0")
        with open(p, "rb") as fh:
            h.update(fh.read())
        h.update(b"\0")
    # the extractor binaries are part of the key: a rebuilt tool invalidates the cache
    for tool in (SRCFACTS, MIRFACTS):
        if os.path.exists(tool):
            st = os.stat(tool)
            h.update(("%s:%d:%d" % (tool, st.st_size, int(st.st_mtime))).encode())
    return h.hexdigest()[:20]


def _target_dir():
    """cargo target directory of the extraction: one per lane when QV_TARGET_DIR is set (parallel sweeps over scratch copies), else the shared one under .cache"""
    return os.environ.get("QV_TARGET_DIR") or os.path.join(CACHE, "target")


def _lock():
    os.makedirs(CACHE, exist_ok=True)
    t = os.environ.get("QV_TARGET_DIR")
    fh = open(os.path.join(t, "extract.lock") if t and os.path.isdir(t) else os.path.join(CACHE, "extract.lock"), "w")
    fcntl.flock(fh, fcntl.LOCK_EX)
    return fh


def _touch(d):
    """least-recently-USED pruning: a cache entry that is read is as fresh as one that is written (the entry of /repo itself must survive a sweep over scratch copies)"""
    try:
        if os.path.isdir(d):
            os.utime(d, None)
    except OSError:
        pass


def _prune(keep):
    d = os.path.join(CACHE, "facts")
    if not os.path.isdir(d):
        return
    entries = sorted((os.path.getmtime(os.path.join(d, e)), e) for e in os.listdir(d))
    for _, e in entries[:-40]:
        if e != keep:
            shutil.rmtree(os.path.join(d, e), ignore_errors=True)


def ensure_tools():
    if not (os.path.exists(SRCFACTS) and os.path.exists(MIRFACTS)):
        subprocess.run([os.path.join(VERIF, "setup.sh"), "--tools-only"], check=True, stdout=sys.stderr)


def src_facts(repo=None):
    repo = repo or REPO
    ensure_tools()
    h = tree_hash(repo)
    d = os.path.join(CACHE, "facts", h)
    out = os.path.join(d, "src.json")
    _touch(d)
    if not os.path.exists(out):
        lk = _lock()
        try:
            if not os.path.exists(out):
                os.makedirs(d, exist_ok=True)
                tmp = out + ".tmp%d" % os.getpid()
                r = subprocess.run([SRCFACTS, os.path.join(repo, "src"), tmp], capture_output=True, text=True)
                if r.returncode != 0 or not os.path.exists(tmp):
                    raise FactError("srcfacts failed (does /repo parse?): " + r.stderr[-2000:])
                os.replace(tmp, out)
                _prune(h)
        finally:
            lk.close()
    with open(out) as fh:
        return json.load(fh)


def single_file_facts(path):
    """syn facts of one file outside the crate (e.g. a sqlparser source file used as an oracle)."""
    ensure_tools()
    key = hashlib.sha256((path + str(os.path.getmtime(path))).encode()).hexdigest()[:16]
    d = os.path.join(CACHE, "facts", "ext")
    os.makedirs(d, exist_ok=True)
    out = os.path.join(d, key + ".json")
    if not os.path.exists(out):
        tmp = out + ".tmp%d" % os.getpid()
        r = subprocess.run([SRCFACTS, path, tmp], capture_output=True, text=True)
        if r.returncode != 0:
            raise FactError("srcfacts failed on %s: %s" % (path, r.stderr[-1000:]))
        os.replace(tmp, out)
    with open(out) as fh:
        return json.load(fh)


def nightly_sysroot():
    r = subprocess.run(["rustc", "+nightly", "--print", "sysroot"], capture_output=True, text=True)
    if r.returncode != 0:
        raise FactError("nightly toolchain not available: " + r.stderr)
    return r.stdout.strip()


def mir_facts(repo=None, features=None):
    repo = repo or REPO
    if features is None:
        features = os.environ.get("QV_FEATURES", "")
    ensure_tools()
    h = tree_hash(repo)
    d = os.path.join(CACHE, "facts", h)
    tag = "" if not features else "-" + features.replace(",", "_")
    out = os.path.join(d, "mir%s.json" % tag)
    _touch(d)
    if not os.path.exists(out):
        lk = _lock()
        try:
            if not os.path.exists(out):
                os.makedirs(d, exist_ok=True)
                target = _target_dir()
                os.makedirs(target, exist_ok=True)
                for fp in glob.glob(os.path.join(target, "debug", ".fingerprint", "qrlew-*")):
                    shutil.rmtree(fp, ignore_errors=True)
                tmp = out + ".part%d" % os.getpid()
                if os.path.exists(tmp):
                    os.remove(tmp)
                env = dict(os.environ)
                env.update(
                    {
                        "LD_LIBRARY_PATH": nightly_sysroot() + "/lib",
                        "CARGO_NET_OFFLINE": "true",
                        "RUSTFLAGS": "-Zmir-opt-level=0 -Awarnings",
                        "RUSTC_WORKSPACE_WRAPPER": MIRFACTS,
                        "MIRFACTS_OUT": tmp,
                        "MIRFACTS_CRATE": "qrlew",
                        "CARGO_TARGET_DIR": target,
                        # no incremental session: rustc's dep-graph serialisation can ICE after the driver forced extra queries, and nothing is reused anyway (the fingerprint is deleted)
                        "CARGO_INCREMENTAL": "0",
                    }
                )
                env.pop("RUSTC_WRAPPER", None)
                cmd = ["cargo", "+nightly", "check", "--offline", "--lib"]
                if features:
                    cmd += ["--features", features]
                t0 = time.time()
                r = subprocess.run(cmd, cwd=repo, env=env, capture_output=True, text=True)
                if r.returncode != 0:
                    raise FactError("cargo check of /repo failed (does the tree compile?):\n" + r.stderr[-3000:])
                if not os.path.exists(tmp):
                    raise FactError("the MIR driver did not run on crate qrlew (no fact file written)")
                os.replace(tmp, out)
                sys.stderr.write("mirfacts: extracted in %.1fs\n" % (time.time() - t0))
                _prune(h)
        finally:
            lk.close()
    with open(out) as fh:
        return json.load(fh)
