"""Exact contexts must not print through a lossy Display (shared by C08/C17 rule E17 and C12 rule J6).

The value wrappers of data_type/value.rs (`Text(String)`, `DateTime(NaiveDateTime)`, ..) have `Display` impls meant for people; most of them are
transparent (`write!(f, "{}", self.0)`), `Float` is not (5 significant digits).  Two kinds of code need the *exact* text of the inner value:
the SQL literal renderer (`RelationToQueryTranslator::value`) and the X -> Text injections.  They may print the wrapper itself only while its
Display is transparent; otherwise they have to print the inner value."""
from .core import find, walk, show, path_of

VALUE_FILE = "data_type/value.rs"


def transparent_displays(src):
    """{wrapper type name: (transparent?, body text)} for `impl fmt::Display for <T>` in data_type/value.rs"""
    out = {}
    for f in src.find_fns(name="fmt", file=VALUE_FILE):
        if not (f.trait or "").replace(" ", "").endswith("Display"):
            continue
        ty = (f.self_ty or "").split("<")[0]
        fmt_p = [p["pat"]["name"] for p in f.params if not p.get("self") and p["pat"]["k"] == "ident"]
        st = f.body["stmts"]
        body = st[0]["e"] if len(st) == 1 and st[0]["k"] == "expr" else None
        ok = False
        if body is not None and body["k"] == "macro" and body.get("name") == "write" and body.get("args") and len(body["args"]) == 3:
            a = body["args"]
            ok = path_of(a[0]) in fmt_p and a[1]["k"] == "lit" and a[1].get("v") == "{}" and show(a[2], 0).replace(" ", "") in ("self.0", "&self.0", "*self.0")
        elif body is not None and body["k"] in ("mcall", "call"):
            t = show(body, 0).replace(" ", "")
            ok = bool(fmt_p) and t in ("self.0.fmt(%s)" % fmt_p[0], "fmt::Display::fmt(&self.0,%s)" % fmt_p[0], "Display::fmt(&self.0,%s)" % fmt_p[0])
        out[ty] = (ok, show(f.body, 90))
    return out


def wrapper_prints(body, names):
    """Expressions of body that print one of `names` (wrapper-typed bindings) through Display without dereferencing it:
    `n.to_string()`, `format!("{}", n)`, `format!("{n}")`.  `**n` / `*n` / `n.0` / `n.deref()` reach the inner value and are not listed."""
    hits = []
    for x in walk(body):
        if x["k"] == "mcall" and x["m"] == "to_string" and not x["args"] and path_of(x["recv"]) in names:
            hits.append((path_of(x["recv"]), x))
        if x["k"] == "macro" and str(x.get("name", "")).split("::")[-1] in ("format", "write", "writeln") and x.get("args"):
            args = x["args"]
            fmt_i = 0 if x["name"].endswith("format") else 1
            if len(args) > fmt_i and args[fmt_i]["k"] == "lit" and args[fmt_i].get("t") == "str":
                fs = str(args[fmt_i]["v"])
                for n in names:
                    if "{%s}" % n in fs or "{%s:" % n in fs:
                        hits.append((n, x))
                for a in args[fmt_i + 1 :]:
                    if path_of(a) in names:
                        hits.append((path_of(a), x))
    return hits
