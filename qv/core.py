"""Shared plumbing of the rule layer: fact loading, AST helpers, reports, evidence.

Nothing here (or in any rule module) executes Qrlew code: the inputs are the two fact
files produced from /repo's current working tree by tools/srcfacts (syn AST) and
tools/mirfacts (type-checked MIR), see qv/facts.py.
"""
import json
import os
import sys
import time

VERIF = os.path.dirname(os.path.dirname(os.path.abspath(__file__)))
REPO = os.environ.get("QV_REPO", "/repo")

# --------------------------------------------------------------------------- AST helpers


def is_node(x):
    return isinstance(x, dict) and "k" in x


def children(n):
    """Direct child nodes (dicts with 'k') of an AST node, in source order."""
    if isinstance(n, dict):
        for key, v in n.items():
            if key in ("k", "l", "el"):
                continue
            if isinstance(v, dict):
                if "k" in v:
                    yield v
                else:
                    for c in children(v):
                        yield c
            elif isinstance(v, list):
                for x in v:
                    if isinstance(x, dict):
                        if "k" in x:
                            yield x
                        else:
                            for c in children(x):
                                yield c
                    elif isinstance(x, list):
                        for c in children({"_": x}):
                            yield c


def walk(n, into_closures=True, into_items=False):
    """Pre-order walk over all nodes below (and including) n."""
    stack = [n]
    while stack:
        x = stack.pop()
        if is_node(x):
            yield x
            if x["k"] == "closure" and not into_closures and x is not n:
                continue
            if x["k"] == "item" and not into_items:
                continue
        kids = list(children(x))
        stack.extend(reversed(kids))


def find(n, kind=None, pred=None, **kw):
    for x in walk(n, **kw):
        if kind is not None and x["k"] != kind:
            continue
        if pred is not None and not pred(x):
            continue
        yield x


def path_of(n):
    """'a::b::c' for a path node, else None."""
    if is_node(n) and n["k"] == "path":
        return n["p"]
    return None


def last_seg(n):
    if is_node(n) and n["k"] == "path":
        return n["segs"][-1] if n["segs"] else None
    return None


def is_call_to(n, *suffixes):
    """n is `call` whose function path ends with one of the suffixes ('Type::fn' or 'fn')."""
    if not (is_node(n) and n["k"] == "call"):
        return False
    p = path_of(n["f"])
    if p is None:
        return False
    p = strip_generics(p)
    for s in suffixes:
        if p == s or p.endswith("::" + s):
            return True
    return False


def strip_generics(p):
    out = []
    depth = 0
    for ch in p:
        if ch == "<":
            depth += 1
        elif ch == ">":
            depth -= 1
        elif depth == 0:
            out.append(ch)
    s = "".join(out)
    while "::::" in s:
        s = s.replace("::::", "::")
    return s.strip(":")


def show(n, maxlen=160):
    """Compact source-like rendering of an expression / pattern node (for evidence and messages)."""
    s = _show(n)
    if maxlen and len(s) > maxlen:
        s = s[: maxlen - 1] + "…"
    return s


def _unblock(e):
    """`{ expr }` and `expr` are the same closure body / arm value (rustfmt switches between them)."""
    while is_node(e) and e.get("k") == "block" and len(e["stmts"]) == 1 and e["stmts"][0]["k"] == "expr" and not e["stmts"][0].get("semi") and not e.get("unsafe") and not e.get("label"):
        e = e["stmts"][0]["e"]
    return e


def _show(n):
    if n is None:
        return ""
    if isinstance(n, str):
        return n
    if isinstance(n, list):
        return ", ".join(_show(x) for x in n)
    if not is_node(n):
        return json.dumps(n)
    k = n["k"]
    if k == "lit":
        if n["t"] == "str":
            return json.dumps(n["v"])
        if n["t"] == "bool":
            return "true" if n["v"] else "false"
        return str(n["v"]) + (n.get("suffix") or "")
    if k == "path":
        return n["p"]
    if k == "call":
        return "%s(%s)" % (_show(n["f"]), _show(n["args"]))
    if k == "mcall":
        return "%s.%s(%s)" % (_show(n["recv"]), n["m"], _show(n["args"]))
    if k == "closure":
        return "|%s| %s" % (_show(n["params"]), _show(_unblock(n["body"])))
    if k == "block":
        return "{ %s }" % "; ".join(_show(s) for s in n["stmts"])
    if k == "let":
        return "let %s = %s" % (_show(n["pat"]), _show(n.get("init")))
    if k == "expr":
        return _show(n["e"])
    if k == "if":
        s = "if %s %s" % (_show(n["cond"]), _show(n["then"]))
        if n.get("else"):
            s += " else " + _show(n["else"])
        return s
    if k == "match":
        return "match %s { %s }" % (
            _show(n["e"]),
            ", ".join("%s => %s" % (_show(a["pat"]), _show(_unblock(a["body"]))) for a in n["arms"]),
        )
    if k == "binary":
        return "%s %s %s" % (_show(n["lhs"]), n["op"], _show(n["rhs"]))
    if k == "unary":
        return "%s%s" % (n["op"], _show(n["e"]))
    if k == "ref":
        return "&%s%s" % ("mut " if n.get("mut") else "", _show(n.get("e", n.get("pat"))))
    if k == "field":
        return "%s.%s" % (_show(n["e"]), n["name"])
    if k == "index":
        return "%s[%s]" % (_show(n["e"]), _show(n["i"]))
    if k == "tuple":
        return "(%s)" % _show(n["elems"])
    if k == "array":
        return "[%s]" % _show(n["elems"])
    if k == "struct":
        if "fields" in n and n["fields"] and "e" in n["fields"][0]:
            return "%s { %s }" % (_show(n["path"]), ", ".join("%s: %s" % (f["name"], _show(f["e"])) for f in n["fields"]))
        return "%s { %s }" % (_show(n["path"]), ", ".join("%s: %s" % (f["name"], _show(f.get("pat"))) for f in n.get("fields", [])))
    if k == "macro":
        if "args" in n:
            return "%s!(%s)" % (n["name"], _show(n["args"]))
        return "%s!(%s)" % (n["name"], n.get("tokens", "…"))
    if k in ("return", "break"):
        return "%s %s" % (k, _show(n.get("e")))
    if k == "try":
        return _show(n["e"]) + "?"
    if k == "cast":
        return "%s as %s" % (_show(n["e"]), n["ty"])
    if k == "letcond":
        return "let %s = %s" % (_show(n["pat"]), _show(n["e"]))
    if k == "range":
        return "%s..%s%s" % (_show(n.get("lo")), "=" if n.get("incl") else "", _show(n.get("hi")))
    if k == "ident":
        return n["name"]
    if k == "tuplestruct":
        return "%s(%s)" % (_show(n["path"]), _show(n["elems"]))
    if k == "or":
        return " | ".join(_show(c) for c in n["cases"])
    if k == "exprpat":  # the pattern argument of `matches!(e, P)` (kept as an expression by the parser) in its canonical `match` form
        return _show(n["e"])
    if k == "wild":
        return "_"
    if k == "rest":
        return ".."
    if k == "slice":
        return "[%s]" % _show(n["elems"])
    if k == "typed":
        return "%s: %s" % (_show(n["pat"]), n["ty"])
    if k == "assign":
        return "%s = %s" % (_show(n["lhs"]), _show(n["rhs"]))
    if k in ("other", "range") and "src" in n:
        return n["src"]
    if k == "for":
        return "for %s in %s %s" % (_show(n["pat"]), _show(n["e"]), _show(n["body"]))
    return "<%s>" % k


# --------------------------------------------------------------------------- source index


class Fn:
    """A function / method found in the syn facts."""

    __slots__ = ("name", "node", "file", "module", "self_ty", "trait", "impl", "test", "qual")

    def __init__(self, name, node, file, module, self_ty, trait, impl, test):
        self.name = name
        self.node = node
        self.file = file
        self.module = module
        self.self_ty = self_ty
        self.trait = trait
        self.impl = impl
        self.test = test
        if self_ty and trait:
            self.qual = "<%s as %s>::%s" % (self_ty, trait, name)
        elif self_ty:
            self.qual = "%s::%s" % (self_ty, name)
        else:
            self.qual = "%s::%s" % (module, name) if module else name

    @property
    def line(self):
        return self.node["l"]

    @property
    def body(self):
        return self.node.get("body")

    @property
    def params(self):
        return self.node["sig"]["params"]

    def where(self):
        return "src/%s:%d" % (self.file, self.line)

    def __repr__(self):
        return "Fn(%s @ %s)" % (self.qual, self.where())


def _binds_nothing(p):
    k = p.get("k")
    if k in ("wild", "rest", "lit"):
        return True
    if k == "path":
        return True
    if k == "ident":
        return p.get("name", "a")[:1].isupper() and not p.get("sub")  # `None`
    if k == "tuplestruct":
        return all(_binds_nothing(e) for e in p.get("elems", []))
    if k == "ref":
        return _binds_nothing(p["pat"])
    return False


def _diverges(b):
    if not isinstance(b, dict):
        return False
    if b.get("k") in ("return", "continue", "break"):
        return True
    if b.get("k") == "macro" and b.get("name") in ("panic", "unreachable", "todo", "unimplemented"):
        return True
    if b.get("k") == "block" and b.get("stmts"):
        last = b["stmts"][-1]
        return last.get("k") == "expr" and _diverges(last.get("e"))
    return False


def _match_as_let_else(x):
    """`let v = match S { A(c) => c, <pattern that binds nothing> => <diverges> };` is `let A(v) = S else { <diverges> };` - the same statement written without let-else"""
    m = x["init"]
    if x["pat"].get("k") != "ident" or x["pat"].get("sub") or len(m.get("arms", [])) != 2 or any(a.get("guard") for a in m["arms"]):
        return None
    for keep, other in ((m["arms"][0], m["arms"][1]), (m["arms"][1], m["arms"][0])):
        p, b = keep["pat"], keep["body"]
        while isinstance(b, dict) and b.get("k") == "block" and len(b.get("stmts", [])) == 1 and b["stmts"][0].get("k") == "expr" and not b["stmts"][0].get("semi"):
            b = b["stmts"][0]["e"]
        if not (p.get("k") == "tuplestruct" and len(p.get("elems", [])) == 1 and p["elems"][0].get("k") == "ident" and not p["elems"][0].get("sub") and not p["elems"][0].get("by_ref")):
            continue
        if not (isinstance(b, dict) and b.get("k") == "path" and b.get("segs") == [p["elems"][0]["name"]]):
            continue
        if not (_binds_nothing(other["pat"]) and _diverges(other["body"])):
            continue
        els = other["body"] if other["body"].get("k") == "block" else {"k": "block", "l": other["body"].get("l", 0), "stmts": [{"k": "expr", "l": other["body"].get("l", 0), "e": other["body"], "semi": True}]}
        newpat = dict(p, elems=[dict(x["pat"])])
        return dict(x, pat=newpat, init=m["e"], **{"else": els})
    return None


def _match_as_let_else_then_let(x, rest):
    """`let v = match S { A(c) => E(c), <binds nothing> => <diverges> };` is `let A(c) = S else { <diverges> }; let v = E(c);` - when c is v itself or is not a name the following
    statements use (the binding of c becomes visible to them)."""
    m = x["init"]
    if len(m.get("arms", [])) != 2 or any(a.get("guard") for a in m["arms"]):
        return None
    for keep, other in ((m["arms"][0], m["arms"][1]), (m["arms"][1], m["arms"][0])):
        p = keep["pat"]
        if not (p.get("k") == "tuplestruct" and len(p.get("elems", [])) == 1 and p["elems"][0].get("k") == "ident" and not p["elems"][0].get("sub")):
            continue
        if not (_binds_nothing(other["pat"]) and _diverges(other["body"])) or _diverges(keep["body"]):
            continue
        c = p["elems"][0]["name"]
        vname = x["pat"].get("name") if x["pat"].get("k") == "ident" else None

        def uses(n_):
            if isinstance(n_, list):
                return any(uses(y) for y in n_)
            if isinstance(n_, dict):
                if n_.get("k") == "path" and n_.get("segs") and n_["segs"][0] == c:
                    return True
                return any(uses(v) for v in n_.values() if isinstance(v, (dict, list)))
            return False

        if c != vname and uses(rest):
            continue
        els = other["body"] if other["body"].get("k") == "block" else {"k": "block", "l": other["body"].get("l", 0), "stmts": [{"k": "expr", "l": other["body"].get("l", 0), "e": other["body"], "semi": True}]}
        first = {"k": "let", "l": x.get("l", 0), "pat": p, "init": m["e"], "else": els}
        second = dict(x, init=keep["body"])
        return [first, second]
    return None


def desugar_let_else(n, top=False):
    """In place: `let P = E else { D }; rest..` becomes the tail expression `if let P = E { rest.. } else { D }` of its block, so that every rule reads
    the let-else form (absent from the pinned tree, common in tidy-up refactorings) like the if-let it abbreviates.  In the top-level block of a function or
    closure body a diverging `else { ..; return x; }` is the value x of the body (`top`)."""
    if isinstance(n, list):
        for x in n:
            desugar_let_else(x)
        return
    if not isinstance(n, dict):
        return
    k = n.get("k")
    if k == "block" and isinstance(n.get("stmts"), list):
        st = n["stmts"]
        for i, x in enumerate(st):
            if isinstance(x, dict) and x.get("k") == "let" and x.get("else") is None and isinstance(x.get("init"), dict) and x["init"].get("k") == "match":
                le = _match_as_let_else(x)
                if le is not None:
                    st[i] = x = le
            if isinstance(x, dict) and x.get("k") == "let" and x.get("else") is not None and x.get("init") is not None:
                rest = {"k": "block", "l": x.get("l", 0), "stmts": st[i + 1 :]}
                els = x["else"]
                if top and isinstance(els, dict) and els.get("k") == "block" and els.get("stmts"):
                    last = els["stmts"][-1]
                    if last.get("k") == "expr" and isinstance(last.get("e"), dict) and last["e"].get("k") == "return" and last["e"].get("e") is not None:
                        els = dict(els, stmts=els["stmts"][:-1] + [{"k": "expr", "l": last.get("l", 0), "e": last["e"]["e"], "semi": False}])
                new = {"k": "if", "l": x.get("l", 0), "cond": {"k": "letcond", "l": x.get("l", 0), "pat": x["pat"], "e": x["init"]}, "then": rest, "else": els}
                n["stmts"] = st[:i] + [{"k": "expr", "l": x.get("l", 0), "e": new, "semi": False}]
                desugar_let_else(x["init"])
                desugar_let_else(rest, top)
                desugar_let_else(els)
                for y in n["stmts"][:i]:
                    desugar_let_else(y)
                return
    for key, v in n.items():
        if isinstance(v, (dict, list)):
            desugar_let_else(v, top=(k in ("fn", "closure") and key == "body"))


def desugar_bool_match(n):
    """In place: `match c { true => A, false => B }` (either order, `_` for the second arm) becomes `if c { A } else { B }` - the same expression."""
    if isinstance(n, list):
        for x in n:
            desugar_bool_match(x)
        return
    if not isinstance(n, dict):
        return
    for v in n.values():
        if isinstance(v, (dict, list)):
            desugar_bool_match(v)
    if n.get("k") == "match" and len(n.get("arms", [])) == 2 and not any(a.get("guard") for a in n["arms"]):
        def lit(p):
            return p["v"] if p.get("k") == "lit" and p.get("t") == "bool" else None

        a, b = n["arms"]
        va, vb = lit(a["pat"]), lit(b["pat"])
        if va is not None and (vb is not None and bool(vb) != bool(va) or b["pat"].get("k") == "wild"):
            t, e = (a, b) if bool(va) and str(va) != "false" else (b, a)
            blk = lambda x: x if x.get("k") == "block" else {"k": "block", "l": x.get("l", 0), "stmts": [{"k": "expr", "l": x.get("l", 0), "e": x, "semi": False}]}
            cond, l = n["e"], n.get("l", 0)
            n.clear()
            n.update({"k": "if", "l": l, "cond": cond, "then": blk(t["body"]), "else": blk(e["body"])})


class Src:
    def __init__(self, doc):
        self.doc = doc
        if not doc.get("_let_else_desugared"):
            for f in doc["files"]:
                desugar_bool_match(f["items"])
                desugar_let_else(f["items"])
            doc["_let_else_desugared"] = True
        self.files = {f["file"]: f for f in doc["files"]}
        self.fns = []
        self.impls = []  # (file, module, impl node)
        self.items = []  # (file, module, item) for all non-fn items incl. nested mods
        for f in doc["files"]:
            self._index_items(f["file"], f["module"], f["items"], False)

    def _index_items(self, file, module, items, test):
        for it in items or []:
            k = it["k"]
            t = test or bool(it.get("test"))
            if k == "fn":
                self.fns.append(Fn(it["name"], it, file, module, None, None, None, t))
            elif k == "impl":
                self.impls.append((file, module, it))
                for sub in it["items"]:
                    if sub["k"] == "fn":
                        self.fns.append(
                            Fn(sub["name"], sub, file, module, it["self_ty"], it["trait"], it, t or bool(sub.get("test")))
                        )
                self.items.append((file, module, it, t))
            elif k == "trait":
                for sub in it["items"]:
                    if sub["k"] == "fn" and sub.get("body"):
                        self.fns.append(Fn(sub["name"], sub, file, module, "trait " + it["name"], None, it, t))
                self.items.append((file, module, it, t))
            elif k == "mod":
                self.items.append((file, module, it, t))
                if it.get("items") is not None:
                    self._index_items(file, (module + "::" if module else "") + it["name"], it["items"], t)
            else:
                self.items.append((file, module, it, t))
                # items produced inside item-position macros (parsed best-effort)
                if k == "macro" and it.get("items"):
                    self._index_items(file, module, it["items"], t)
                # items written inside a macro_rules! body that happens to be plain Rust (e.g. a trait defined by `() => { pub trait .. }`)
                if k == "macro" and it.get("def") and isinstance(it.get("tt"), list):
                    for g in it["tt"]:
                        if isinstance(g, dict) and "block" in g:
                            inner = [st["item"] for st in g["block"].get("stmts", []) if st.get("k") == "item"]
                            if inner:
                                self._index_items(file, module, inner, t)

    def find_fns(self, name=None, self_ty=None, trait=None, file=None, test=False, self_ty_re=None, trait_re=None):
        import re

        out = []
        for f in self.fns:
            if f.test != test:
                continue
            if name is not None and f.name != name:
                continue
            if file is not None and f.file != file:
                continue
            if self_ty is not None and (f.self_ty or "") != self_ty:
                continue
            if self_ty_re is not None and not re.search(self_ty_re, f.self_ty or ""):
                continue
            if trait is not None and (f.trait or "") != trait:
                continue
            if trait_re is not None and not re.search(trait_re, f.trait or ""):
                continue
            out.append(f)
        return out

    def one_fn(self, **kw):
        r = self.find_fns(**kw)
        if len(r) != 1:
            raise Anchor("expected exactly one function for %r, found %d%s" % (kw, len(r), "" if not r else ": " + ", ".join(x.where() for x in r[:5])))
        return r[0]

    def find_items(self, kind, name=None, file=None, test=False):
        out = []
        for (f, m, it, t) in self.items:
            if it["k"] != kind or t != test:
                continue
            if name is not None and it.get("name") != name:
                continue
            if file is not None and f != file:
                continue
            out.append((f, m, it))
        return out

    def enum_variants(self, name, file=None):
        r = self.find_items("enum", name=name, file=file)
        if len(r) != 1:
            raise Anchor("enum %s: expected one definition, found %d" % (name, len(r)))
        return [v["name"] for v in r[0][2]["variants"]]


class Anchor(Exception):
    """An anchor (function, impl, table) the rule reads is missing or ambiguous: fail closed."""


# --------------------------------------------------------------------------- report


class Report:
    """Collects rule instances, violations and known findings for one property run."""

    def __init__(self, prop, tier):
        self.prop = prop
        self.tier = tier
        self.t0 = time.time()
        self.rules = {}  # rule -> dict(text, instances, nontrivial(set), floor, samples)
        self.violations = []  # dict(rule,key,msg,where)
        self.undecided = []
        self.errors = []
        self.assumptions = []
        self.explanation = ""
        self.extra = {}

    def rule(self, rid, text, floor=0, necessary=None):
        self.rules[rid] = {
            "id": rid,
            "text": text,
            "floor": floor,
            "necessary_because": necessary,
            "instances": 0,
            "nontrivial": set(),
            "samples": [],
            "violations": 0,
        }

    def instance(self, rid, key, sample=None, nontrivial=True):
        r = self.rules[rid]
        r["instances"] += 1
        if nontrivial:
            r["nontrivial"].add(key)
        if sample is not None and len(r["samples"]) < 6:
            r["samples"].append(sample)

    def violation(self, rid, key, msg, where=""):
        if rid not in self.rules:  # reported while extracting the rule's instances, before its text was registered
            self.rule(rid, "anchors: every function / impl / table a rule of this property reads exists and has a shape the rule can read" if rid == "A0" else "(rule text registered later)")
        self.rules[rid]["violations"] += 1
        self.violations.append({"rule": rid, "key": key, "msg": msg, "where": where})

    def undecidable(self, rid, key, msg, where=""):
        """The rule met something it cannot decide: reported as a violation naming the construct (fail closed)."""
        self.violation(rid, key, "UNDECIDED: " + msg, where)

    def error(self, msg):
        self.errors.append(msg)

    def assume(self, text):
        self.assumptions.append(text)


_SUBREPORTS = {}


def import_rules(rep, origin, rules=None, reason="", keys=None):
    """Run the rules of property `origin` and adopt some of them into `rep` as rules `<origin>.<id>`.

    A property P imports a rule of Q when the rule is also a necessary condition of P (P's guarantee is built on the mechanism Q's rule decides:
    e.g. the schema of a relation (C07) contains what execution produces only if range propagation (C06) is sound).  The imported rule is the same
    code reading the same tree; its reports appear under P with the rule id `Q.R`, and a finding already recorded for (Q, R, key) is the same
    finding here.  Imports are not transitive (the origin's own imports are not run).  `rules`: ids to adopt (None: all of the origin's own rules);
    `keys`: regex restricting the adopted instances/violations to the constructs P depends on."""
    import importlib
    import re as _re

    if getattr(rep, "is_sub", False):
        return
    ck = (origin, os.environ.get("QV_FEATURES"))
    sub = _SUBREPORTS.get(ck)
    if sub is None:
        sub = Report(origin, rep.tier)
        sub.is_sub = True
        mod = importlib.import_module("qv.%s" % origin.lower())
        try:
            mod.run(sub)
        except Anchor as e:
            msg = str(e)
            sub.violation("A0", "anchor:" + _re.sub(r"[^A-Za-z0-9_:<>.,]+", "_", msg)[:80], "UNDECIDED: anchor lost: %s" % msg, "")
        _SUBREPORTS[ck] = sub
    for e in sub.errors:
        rep.error("imported rules of %s: %s" % (origin, e))
    kre = _re.compile(keys) if keys else None
    adopted = []
    for rid, r in sub.rules.items():
        if "." in rid:
            continue
        if rules is not None and rid not in rules and rid != "A0":
            continue
        nid = "%s.%s" % (origin, rid)
        nt = set(k for k in r["nontrivial"] if kre is None or kre.search(k))
        rep.rules[nid] = {
            "id": nid,
            "text": "[%s/%s%s] %s" % (origin, rid, (", restricted to keys matching /%s/" % keys) if keys else "", r["text"]),
            "floor": r["floor"] if kre is None else 0,
            "necessary_because": ("for this property: %s.  In %s: %s" % (reason, origin, r["necessary_because"])) if reason else r["necessary_because"],
            "instances": r["instances"] if kre is None else len(nt),
            "nontrivial": nt,
            "samples": list(r["samples"]) if kre is None else [],
            "violations": 0,
        }
        adopted.append(rid)
    for v in sub.violations:
        if v["rule"] not in adopted or (kre is not None and not kre.search(v["key"])):
            continue
        nid = "%s.%s" % (origin, v["rule"])
        rep.rules[nid]["violations"] += 1
        rep.violations.append(dict(v, rule=nid, origin=(origin, v["rule"])))
    rep.extra.setdefault("imported_rules", []).append({"from": origin, "rules": sorted(adopted), "because": reason, "keys": keys})


def load_known():
    """known_findings.json (+ per-property fragments under known_findings.d/ while they are being triaged)."""
    import glob

    out = {"findings": [], "fixed": []}
    ps = [os.path.join(VERIF, "known_findings.json")] + sorted(glob.glob(os.path.join(VERIF, "known_findings.d", "*.json")))
    for p in ps:
        if os.path.exists(p):
            d = json.load(open(p))
            out["findings"] += d.get("findings", [])
            out["fixed"] += d.get("fixed", [])
    return out


def msg_sig(msg):
    """Signature of a violation message (digits normalised): a known finding that carries `msg_sig` only covers this failure."""
    import hashlib
    import re

    def canon_span(m):
        # inside a quoted closure, parameter names are canonical: renaming `|x, y|` to `|num, den|` leaves the finding the same
        t = m.group(0)
        pm = re.search(r"\|([^|]*)\|", t)
        if pm:
            names = [n.strip().lstrip("&").split(":")[0].strip() for n in pm.group(1).split(",") if re.match(r"^\s*&?\s*(mut\s+)?[A-Za-z_][A-Za-z_0-9]*\s*(:.*)?$", n)]
            for i, n in enumerate(names):
                n = n.replace("mut ", "").strip()
                if n and n != "_":
                    t = re.sub(r"(?<![A-Za-z_0-9.])%s(?![A-Za-z_0-9])" % re.escape(n), "p%d_" % i, t)
            # messages quote closures truncated to a width: with longer parameter names the cut falls elsewhere, so only a fixed prefix of the canonical text counts
            # (the reason that follows the quotation is part of the signature in full)
            t = t[:48]
        return t

    msg = re.sub(r"`[^`]*`", canon_span, msg)
    return hashlib.sha1(re.sub(r"\d+", "#", msg).encode()).hexdigest()[:12]


def finish(rep, level="other", exhaustive=False):
    """Print VIOLATION / KNOWN-FINDING lines, write evidence, return the exit code."""
    known = load_known()
    kidx = {}
    for f in known.get("findings", []):
        kidx[(f["property"], f["rule"], f["key"])] = f
    ev_path = os.path.join(os.environ.get("QV_EVIDENCE_DIR", os.path.join(VERIF, "evidence")), rep.prop + ".json")
    # floors
    # vacuity guard: `floor` is the instance count confirmed by hand on the pinned tree.  A rule that suddenly matches far fewer sites has
    # lost its anchors (checker error).  A small drop is what legitimate edits do (a site merged into a helper, an early return removed),
    # so the guard trips below 60 % of the confirmed count (and always at 0 when the count was positive); lost sites that matter are
    # reported by the rules themselves as UNDECIDED / anchor violations.
    for rid, r in rep.rules.items():
        if not r["floor"]:
            continue
        threshold = max(1, (r["floor"] * 6) // 10)
        if r["instances"] < threshold:
            rep.error(
                "rule %s matched %d instances, below the vacuity threshold %d (60%% of the %d confirmed by hand on the pinned tree): anchors lost?"
                % (rid, r["instances"], threshold, r["floor"])
            )
    new, listed, listed_elsewhere = [], [], []
    seen = set()
    for v in rep.violations:
        k = (rep.prop, v["rule"], v["key"])
        if k in seen:
            continue
        seen.add(k)
        if "origin" in v:
            # an imported rule: the finding recorded for the origin property is the same defect
            k = (v["origin"][0], v["origin"][1], v["key"])
        if os.environ.get("QV_SIG_DUMP") and k in kidx:
            with open(os.environ["QV_SIG_DUMP"], "a") as fh:
                fh.write(json.dumps({"k": list(k), "sig": msg_sig(v["msg"]), "msg": v["msg"][:200]}) + "\n")
        if k in kidx and kidx[k].get("msg_sig") in (None, msg_sig(v["msg"])):
            # a finding reported through an imported rule is recorded (and was confirmed by input) under its own property: it is listed there once
            (listed_elsewhere if "origin" in v else listed).append((v, kidx[k]))
        elif k in kidx:
            # same construct, different failure: a listed finding never masks another violation of the same construct
            new.append(dict(v, key=v["key"] + "@changed", msg=v["msg"] + " [differs from the known finding recorded for this construct]"))
        else:
            new.append(v)
    stale = [f for (k, f) in kidx.items() if k[0] == rep.prop and k not in seen]
    for v, f in listed:
        print("KNOWN-FINDING: property=%s rule=%s key=%s %s" % (rep.prop, v["rule"], v["key"], f.get("what", v["msg"])))
    for v, f in listed_elsewhere:
        print("NOTE property=%s adopted rule %s reports a finding recorded under %s (rule=%s key=%s): listed and reported there" % (rep.prop, v["rule"], v["origin"][0], v["origin"][1], v["key"]))
    for v in new:
        print("VIOLATION property=%s replay=%s#%s" % (rep.prop, ev_path, v["key"].replace(" ", "_")))
        print("  rule=%s key=%s at %s: %s" % (v["rule"], v["key"], v["where"], v["msg"]))
    for e in rep.errors:
        print("ERROR property=%s %s" % (rep.prop, e))
    for f in stale:
        # a listed finding that no longer fires is not an alarm: it is reported for housekeeping
        print("NOTE property=%s known finding no longer reported: rule=%s key=%s" % (rep.prop, f["rule"], f["key"]))
    evals = sum(r["instances"] for r in rep.rules.values())
    nontriv = sum(len(r["nontrivial"]) for r in rep.rules.values())
    samples = []
    for rid, r in rep.rules.items():
        for s in r["samples"][:3]:
            samples.append({"rule": rid, "instance": s})
    if not samples:
        samples = [{"note": "no instance"}]
    cov = {
        "explanation": rep.explanation,
        "evaluations": evals,
        "distinct_nontrivial": nontriv,
        "rule": "one evaluation = one rule instance (table row, call site, closure, arm, body or term) extracted from /repo's current source and decided by the rule; "
        "distinct_nontrivial = distinct instance keys on which the rule had something to decide (rows with labels to compare, closures with a coordinate to classify, ...)",
        "samples": samples,
        "exhaustive": bool(exhaustive),
        "rules": [
            {
                "id": r["id"],
                "text": r["text"],
                "necessary_because": r["necessary_because"],
                "instances": r["instances"],
                "distinct_nontrivial": len(r["nontrivial"]),
                "floor": r["floor"],
                "violations": r["violations"],
            }
            for r in rep.rules.values()
        ],
        "violations": new,
        "known_findings": [dict(v, what=f.get("what")) for v, f in listed],
        "findings_of_adopted_rules_listed_under_their_own_property": [{"rule": v["rule"], "key": v["key"], "listed_under": v["origin"][0]} for v, f in listed_elsewhere],
        "errors": rep.errors,
    }
    cov.update(rep.extra)
    ev = {
        "property_id": rep.prop,
        "tier": rep.tier,
        "seed": int(os.environ.get("VERIF_SEED", "0") or 0),
        "level": level,
        "coverage": cov,
        "assumptions": rep.assumptions,
        "wall_s": round(time.time() - rep.t0, 3),
        "violations": len(new),
    }
    os.makedirs(os.path.dirname(ev_path), exist_ok=True)
    tmp = ev_path + ".tmp%d" % os.getpid()
    with open(tmp, "w") as fh:
        json.dump(ev, fh, indent=1, sort_keys=False, default=lambda o: sorted(o) if isinstance(o, set) else str(o))
    os.replace(tmp, ev_path)
    if new:
        return 1
    if rep.errors:
        return 2
    print(
        "OK property=%s tier=%s rules=%d instances=%d known_findings=%d wall=%.1fs"
        % (rep.prop, rep.tier, len(rep.rules), evals, len(listed), time.time() - rep.t0)
    )
    return 0


# --------------------------------------------------------------------------- guarded walk


def walk_guards(n, guards=(), into_closures=True):
    """Pre-order walk yielding (node, guards): guards is a tuple of
    ('if', cond_node, True|False) for enclosing if-branches and
    ('arm', match_node, arm_index) for enclosing match arms."""
    if isinstance(n, list):
        for x in n:
            for r in walk_guards(x, guards, into_closures):
                yield r
        return
    if not isinstance(n, dict):
        return
    if "k" not in n:
        for v in n.values():
            if isinstance(v, (dict, list)):
                for r in walk_guards(v, guards, into_closures):
                    yield r
        return
    yield n, guards
    k = n["k"]
    if k == "if":
        for r in walk_guards(n["cond"], guards, into_closures):
            yield r
        for r in walk_guards(n["then"], guards + (("if", n["cond"], True),), into_closures):
            yield r
        if n.get("else"):
            for r in walk_guards(n["else"], guards + (("if", n["cond"], False),), into_closures):
                yield r
        return
    if k == "match":
        for r in walk_guards(n["e"], guards, into_closures):
            yield r
        for i, a in enumerate(n["arms"]):
            g = guards + (("arm", n, i),)
            if a.get("guard"):
                for r in walk_guards(a["guard"], g, into_closures):
                    yield r
            for r in walk_guards(a["body"], g, into_closures):
                yield r
        return
    if k == "closure" and not into_closures:
        return
    if k == "item":
        return
    for key, v in n.items():
        if key in ("k", "l", "el"):
            continue
        if isinstance(v, (dict, list)):
            for r in walk_guards(v, guards, into_closures):
                yield r


def pat_binds(p):
    """Names bound by a pattern."""
    out = []
    for x in walk(p):
        if x["k"] == "ident":
            out.append(x["name"])
    return out


def subst_paths(n, env):
    """Copy of AST node n with every single-segment path that names a key of env replaced by env[name] (no capture analysis:
    closures / inner lets that re-bind the name stop the substitution for their own scope)."""
    if isinstance(n, list):
        return [subst_paths(x, env) for x in n]
    if not is_node(n):
        return n
    if n.get("k") == "path" and len(n.get("segs", [])) == 1 and n["segs"][0] in env:
        return env[n["segs"][0]]
    if n.get("k") == "closure":
        bound = set()
        for p in n.get("params", []):
            bound |= set(pat_binds(p))
        inner = {k: v for k, v in env.items() if k not in bound}
        return dict(n, body=subst_paths(n["body"], inner))
    if n.get("k") == "block":
        inner = dict(env)
        out = []
        for st in n["stmts"]:
            if st.get("k") == "let":
                st2 = dict(st)
                if st.get("init") is not None:
                    st2["init"] = subst_paths(st["init"], inner)
                for b in pat_binds(st["pat"]):
                    inner.pop(b, None)
                out.append(st2)
            else:
                out.append(subst_paths(st, inner))
        return dict(n, stmts=out)
    return {k: (subst_paths(v, env) if isinstance(v, (dict, list)) and k not in ("pat", "params", "ty") else v) for k, v in n.items()}


def inline_lets(block):
    """`{ let a = e1; let b = e2(a); tail(a, b) }` -> the tail expression with the locals replaced by their initialisers
    (a named local reads like the expression it names).  Only plain `let <ident> [: T] = init;` statements are inlined; returns None when
    the block has another kind of statement before its tail."""
    if block is None or block.get("k") != "block":
        return block
    env = {}
    stmts = block["stmts"]
    for i, st in enumerate(stmts):
        last = i == len(stmts) - 1
        if st["k"] == "let" and st.get("init") is not None:
            p = st["pat"]
            while p["k"] == "typed":
                p = p["pat"]
            if p["k"] != "ident" or p.get("mut"):
                return None
            env[p["name"]] = subst_paths(st["init"], env)
        elif st["k"] == "expr" and last and not st.get("semi"):
            return subst_paths(st["e"], env)
        else:
            return None
    return None
