"""Checker self-test: apply source mutants to scratch copies of /repo (outside /repo and /verif),
run the property's rules on the copy and require the named instance to be reported.

  python3 -m qv.selftest [PROP ...] [--only <mutant-id>] [--keep]

Mutants live in selftest/<PROP>.json: [{"id", "rule", "file", "search", "replace", "expect" (substring of
the reported key or message), "mir": bool, "note", optional "also": [{"file","search","replace"}, ..] for edits at further sites}].
Every edit must change exactly one occurrence.
Exit 0 iff every mutant is caught by the expected rule and the behaviour-preserving variants (neutral/edits.diff, a rustfmt
re-formatting of the whole tree) add no report.
"""
import json
import os
import shutil
import subprocess
import sys
import tempfile

VERIF = os.path.dirname(os.path.dirname(os.path.abspath(__file__)))
REPO = os.environ.get("QV_REPO", "/repo")


def make_copy(base):
    d = tempfile.mkdtemp(prefix="qv-selftest-", dir=base)
    shutil.copytree(os.path.join(REPO, "src"), os.path.join(d, "src"))
    for f in ("Cargo.toml", "Cargo.lock"):
        shutil.copy(os.path.join(REPO, f), os.path.join(d, f))
    return d


def run_check(prop, repo, evdir):
    env = dict(os.environ)
    env["QV_REPO"] = repo
    env["QV_EVIDENCE_DIR"] = evdir
    r = subprocess.run([os.path.join(VERIF, "check"), prop], capture_output=True, text=True, env=env)
    return r.returncode, r.stdout + r.stderr


def apply(repo, m):
    """apply the edit of m, then the further edits listed under "also" (two-site mutants: every edit must apply)"""
    err = apply_one(repo, m)
    if err:
        return err
    for extra in m.get("also", []):
        err = apply_one(repo, extra)
        if err:
            return "also: " + err
    return None


def apply_one(repo, m):
    p = os.path.join(repo, "src", m["file"])
    s = open(p).read()
    n = s.count(m["search"])
    if n != 1 and not m.get("nth"):
        return "search string occurs %d times (need exactly 1)" % n
    if m.get("nth"):
        idx = -1
        for _ in range(m["nth"]):
            idx = s.index(m["search"], idx + 1)
        s = s[:idx] + m["replace"] + s[idx + len(m["search"]) :]
    else:
        s = s.replace(m["search"], m["replace"])
    open(p, "w").write(s)
    return None


def main(argv):
    props = [a for a in argv if not a.startswith("--")]
    only = argv[argv.index("--only") + 1] if "--only" in argv else None
    if only in props:
        props.remove(only)
    base = os.environ.get("QV_SCRATCH", "/tmp")
    files = sorted(os.listdir(os.path.join(VERIF, "selftest")))
    ok = True
    total = caught = 0
    for fn in files:
        if not fn.endswith(".json"):
            continue
        prop = fn[:-5]
        if props and prop not in props:
            continue
        muts = json.load(open(os.path.join(VERIF, "selftest", fn)))
        for m in muts:
            if only and m["id"] != only:
                continue
            total += 1
            d = make_copy(base)
            evd = tempfile.mkdtemp(prefix="qv-selftest-ev-", dir=base)
            try:
                err = apply(d, m)
                if err:
                    print("SELFTEST-BROKEN %s/%s: %s" % (prop, m["id"], err))
                    ok = False
                    continue
                rc, out = run_check(prop, d, evd)
                lines = [l for l in out.splitlines() if "VIOLATION" in l or l.startswith("  rule=")]
                hit = rc == 1 and any(("rule=%s " % m["rule"]) in l and m["expect"] in l for l in lines)
                if hit:
                    caught += 1
                    print("caught  %s/%s by %s" % (prop, m["id"], m["rule"]))
                else:
                    ok = False
                    print("MISSED  %s/%s (rule %s expect %r) rc=%d\n    %s" % (prop, m["id"], m["rule"], m["expect"], rc, "\n    ".join(out.splitlines()[-8:])))
            finally:
                shutil.rmtree(d, ignore_errors=True)
                shutil.rmtree(evd, ignore_errors=True)
    if "--no-neutral" not in argv and not only:
        ok = neutral(props or [fn[:-5] for fn in files if fn.endswith(".json")], base) and ok
    print("selftest: %d/%d mutants caught" % (caught, total))
    return 0 if ok else 3


def vio_keys(out):
    return {l.split("#", 1)[1].strip() for l in out.splitlines() if l.startswith("VIOLATION") and "#" in l}


def vio_rules(out):
    """{(rule id, key)} from the `  rule=<id> key=<key> at ..` lines that follow VIOLATION lines"""
    import re

    return {(m.group(1), m.group(2)) for m in (re.match(r"\s+rule=(\S+) key=(.*?) at ", l) for l in out.splitlines()) if m}


def neutral(props, base):
    """Behaviour-preserving variants of the tree must not add a report: (a) neutral/edits.diff (renamed locals, reordered arms,
    matches! for match, map for and_then(Some), an extracted local, a complete hand-written Hash), (a') neutral/clippy_fix.diff, the machine-applicable
    suggestions of `cargo clippy --fix` on the pinned tree (point-free closures, is_ok_and for map_or(false, ..), slice::from_ref, removed clones and closures ..), (b) the whole tree re-formatted by rustfmt
    with a narrow width (closure bodies and arm values gain braces, chains are re-wrapped)."""
    ok = True
    variants = []
    # (name, patch, properties NOT decided on that variant): the refactor_N* patches were written by sub-agents told to tidy ~100 functions each without
    # changing behaviour (403 tests + rendered-output comparison); where a rule still answers UNDECIDED on such a restructuring the property is listed
    # as a known limit of that rule (DESIGN section 7) instead of being silently dropped from the run
    patches = [("edits", "edits.diff", ()), ("clippy-fix", "clippy_fix.diff", ())]
    patches += [("refactor-N%d" % i, "refactor_N%d.diff" % i, ()) for i in range(1, 25)]  # four campaigns of six agent-written refactorings; no known limit left
    limits = {}
    for name, fn, skip in patches:
        limits[name] = set(skip)
        d = make_copy(base)
        r = subprocess.run(["patch", "-p1", "-s", "-f", "-d", d, "-i", os.path.join(VERIF, "neutral", fn)], capture_output=True, text=True)
        if r.returncode == 0:
            variants.append((name, d))
        else:
            print("skipped neutral:%s (the patch does not apply to this tree)" % name)
            shutil.rmtree(d, ignore_errors=True)
    d = make_copy(base)
    fl = [os.path.join(dp, f) for dp, _, fs in os.walk(os.path.join(d, "src")) for f in fs if f.endswith(".rs")]
    r = subprocess.run(["rustfmt", "--edition", "2021", "--config", "max_width=72,fn_call_width=40,use_small_heuristics=Off"] + fl, capture_output=True, text=True)
    if r.returncode == 0:
        variants.append(("rustfmt72", d))
    else:
        print("skipped neutral:rustfmt72 (rustfmt failed: %s)" % r.stderr[-120:].replace("\n", " "))
        shutil.rmtree(d, ignore_errors=True)
    ref = make_copy(base)
    try:
        for prop in props:
            evd = tempfile.mkdtemp(prefix="qv-selftest-ev-", dir=base)
            try:
                rc0, out0 = run_check(prop, ref, evd)
                for name, vd in variants:
                    rc, out = run_check(prop, vd, evd)
                    new = vio_rules(out) - vio_rules(out0)
                    # known limits are per ORIGIN property of a rule: the own rules of a listed property, and its rules adopted elsewhere as `<origin>.<id>`
                    lim = limits.get(name, ())
                    tolerated = {(r, k) for (r, k) in new if (r.split(".")[0] in lim if "." in r else prop in lim)}
                    new = sorted(k for (r, k) in new - tolerated)
                    if tolerated:
                        print("limit   %s/neutral:%s (%d UNDECIDED report(s) of the rules of %s: restructuring beyond what they read through, see DESIGN section 7)"
                              % (prop, name, len(tolerated), "/".join(sorted({r.split(".")[0] if "." in r else prop for (r, k) in tolerated}))))
                        if not new and rc == 1:
                            continue
                    if rc == 2 and rc0 != 2:
                        ok = False
                        print("FALSE-ALARM %s/neutral:%s checker error on a behaviour-preserving variant: %s" % (prop, name, " | ".join(l for l in out.splitlines() if l.startswith("ERROR"))[:300]))
                    elif new:
                        ok = False
                        print("FALSE-ALARM %s/neutral:%s reports %s" % (prop, name, new[:4]))
                    else:
                        print("silent  %s/neutral:%s" % (prop, name))
            finally:
                shutil.rmtree(evd, ignore_errors=True)
    finally:
        for _, vd in variants:
            shutil.rmtree(vd, ignore_errors=True)
        shutil.rmtree(ref, ignore_errors=True)
    return ok


if __name__ == "__main__":
    sys.exit(main(sys.argv[1:]))
