"""Entry-point sets (DESIGN §2.2) and instantiation-aware reachability shared by C08/C16/C17/C18."""
import re

from . import facts
from .mir import Mir
from .mono import MonoGraph

ENTRY = {
    "PARSE": [
        r"^sql::relation::parse(_with_dialect)?$",
        r"^sql::expr::parse_expr(_with_dialect)?$",
        r"^sql::reader::(Reader::parse|parse_expr|parse_postgres_expr)$",
        r"TryFrom<.*QueryWithRelations.* for relation::Relation>::try_from$",
        r"^sql::expr::<impl std::convert::TryFrom<.*> for expr::Expr>::try_from$",
    ],
    "RENDER": [
        r"From<&.*relation::Relation> for sqlparser::ast::Query>::from$",
        r"From<dialect_translation::RelationWithTranslator",
        r"^<(relation::Relation|expr::Expr|data_type::DataType|data_type::value::Value|relation::schema::Schema|relation::field::Field) as std::fmt::Display>::fmt$",
        r"From<&.*expr::Expr> for sqlparser::ast::Expr>::from$",
    ],
    "TYPE": [
        r"^relation::(Map|Reduce|Join|Set)::new$",
        r"^<relation::builder::(Map|Reduce|Join|Set)Builder<.*> as builder::Ready<relation::.*>>::try_build$",
        r"^<expr::Expr as data_type::function::Function>::(super_image|domain)$",
        r"^<data_type::DataType as data_type::Variant>::(is_subset_of|super_union|super_intersection|contains)$",
        r"^<relation::(Relation|Map|Reduce|Join|Set|Table|Values) as relation::Variant>::(schema|size)$",
    ],
    "REWRITE": [
        r"rewriting::<impl relation::Relation>::rewrite_as_privacy_unit_preserving$",
        r"rewriting::<impl relation::Relation>::rewrite_with_differential_privacy$",
    ],
}
FLOORS = {"PARSE": 8, "RENDER": 6, "TYPE": 15, "REWRITE": 2}

# Edges that are infeasible because of an invariant of their callers.  One entry = one edge; the entry is
# only honoured while the reachable callers of `caller` are within `only_if_callers` (otherwise it is
# reported stale and ignored, i.e. the analysis falls back to the conservative graph).
SUPPRESSED_EDGES = [
    {
        "caller": "<relation::schema::Schema as std::convert::From<data_type::DataType>>::from",
        "callee": "relation::field::Field::from_data_type",
        "only_if_callers": ["relation::JoinOperator::filtered_schemas"],
        "reason": "reached only from JoinOperator::filtered_schemas, whose argument is a field of DataType::structured([...]) filtered by a predicate: always a Struct, so the `_ =>` arm (counter-named field) is dead on that path",
    },
]


class Reach:
    def __init__(self, mirdoc=None):
        self.mir = Mir(mirdoc or facts.mir_facts())
        self.g = MonoGraph(self.mir.doc["mono"])
        self._cache = {}

    def roots(self, name):
        return self.g.root_ids(ENTRY[name])

    def reach(self, names):
        key = tuple(sorted(names))
        if key in self._cache:
            return self._cache[key]
        roots = []
        for n in names:
            roots += self.roots(n)
        sup = set()
        stale = []
        # first pass without suppression to validate the caller invariants
        seen0 = self.g.reach(roots)
        nodes = self.g.nodes
        callers_of = {}
        for i in seen0:
            for (c, _l) in nodes[i]["c"]:
                callers_of.setdefault(c, set()).add(i)
        for e in SUPPRESSED_EDGES:
            targets = [i for i in seen0 if nodes[i]["p"] == e["caller"]]
            if not targets:
                continue  # not reachable at all: nothing to suppress
            # local callers, looking through non-local wrappers such as <T as Into<U>>::into
            local_callers = set()
            frontier = set(targets)
            for _ in range(4):
                nxt = set()
                for t in frontier:
                    for c in callers_of.get(t, ()):
                        if nodes[c]["l"]:
                            local_callers.add(nodes[c]["p"])
                        else:
                            nxt.add(c)
                frontier = nxt
            allowed = set(e["only_if_callers"])
            # a private helper of the same impl whose only local callers are allowed callers is part of them (`filtered_schemas` split into a per-side helper)
            for _round in range(2):
                for c_path in sorted(local_callers - allowed):
                    if not any(c_path.rsplit("::", 1)[0] == a.rsplit("::", 1)[0] for a in allowed):
                        continue
                    ids = [i for i in seen0 if nodes[i]["p"] == c_path]
                    up, fr = set(), set(ids)
                    for _ in range(4):
                        nx = set()
                        for t in fr:
                            for c in callers_of.get(t, ()):
                                if nodes[c]["l"]:
                                    up.add(nodes[c]["p"])
                                else:
                                    nx.add(c)
                        fr = nx
                    if up and up <= allowed:
                        allowed.add(c_path)
            if local_callers <= allowed:
                sup.add((e["caller"], e["callee"]))
            else:
                stale.append({"edge": (e["caller"], e["callee"]), "unexpected_callers": sorted(local_callers - allowed)})
        seen = self.g.reach(roots, suppressed=sup) if sup else seen0
        res = (seen, self.g.local_paths(seen), sorted(sup), stale)
        self._cache[key] = res
        return res

    def chain(self, seen, i):
        return self.g.chain(seen, i)
