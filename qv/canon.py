"""Canonical form of a function body for the syntactic rules.

Every transformation below is a behaviour-preserving rewrite that maintainers apply in one direction or the other when tidying code;
the rules that opt in (`canon_fn`) therefore read the same thing before and after such an edit:

  R1  early returns          `if c { ..; return a; } rest`                 -> `if c { ..; a } else { rest }`     (function and closure bodies)
  R2  named locals           `let x = e; .. x ..`                          -> `.. e ..`                          (immutable `let <ident> [: T] = e;` only)
  R3  extracted helpers      `helper(a, b)` / `Self::helper(a)` / `r.helper(a)` -> the helper's body with its parameters replaced
                             (private functions of the same file whose canonical body is one expression, and that no rule anchors on)
  R4  bool-to-option sugar   `c.then_some(a).unwrap_or(b)`, `c.then(|| a).unwrap_or_else(|| b)`  -> `if c { a } else { b }`
  R5  matches!               `matches!(e, P)`                              -> `match e { P => true, _ => false }`
  R6  if-let                 `if let P = e { a } else { b }`               -> `match e { P => a, _ => b }`       (only on request)
  R7  Self                   `Self::f(..)`, `Self { .. }`                  -> `<Type>::f(..)`, `<Type> { .. }`   (inside an impl)

The result is only used for analysis (expressions may be duplicated, evaluation order is not preserved)."""
from .core import is_node, pat_binds

MAX_HELPER_DEPTH = 3


def _paths_rebound(pat):
    return set(pat_binds(pat)) if pat is not None else set()


def subst(n, env):
    """Copy of n with single-segment paths naming a key of env replaced (closures, lets, match arms and for loops that re-bind a name shadow it)."""
    if isinstance(n, list):
        return [subst(x, env) for x in n]
    if not isinstance(n, dict) or not env:
        return n
    if not is_node(n):  # plain records inside nodes (struct-literal fields, match arms): recurse into their values
        return {a: (subst(b, env) if isinstance(b, (dict, list)) and a not in ("pat", "params", "ty", "path") else b) for a, b in n.items()}
    k = n.get("k")
    if k == "path" and len(n.get("segs", [])) == 1 and n["segs"][0] in env:
        return env[n["segs"][0]]
    if k == "closure":
        bound = set()
        for p in n.get("params", []):
            bound |= _paths_rebound(p)
        return dict(n, body=subst(n["body"], {a: b for a, b in env.items() if a not in bound}))
    if k == "block":
        inner = dict(env)
        out = []
        for st in n["stmts"]:
            if st.get("k") == "let":
                st2 = dict(st)
                if st.get("init") is not None:
                    st2["init"] = subst(st["init"], inner)
                for b in _paths_rebound(st["pat"]):
                    inner.pop(b, None)
                out.append(st2)
            else:
                out.append(subst(st, inner))
        return dict(n, stmts=out)
    if k == "match":
        arms = []
        for a in n["arms"]:
            bound = _paths_rebound(a["pat"])
            e2 = {x: y for x, y in env.items() if x not in bound}
            arms.append(dict(a, body=subst(a["body"], e2), guard=subst(a["guard"], e2) if a.get("guard") else a.get("guard")))
        return dict(n, e=subst(n["e"], env), arms=arms)
    if k == "if" and is_node(n.get("cond")) and n["cond"].get("k") == "letcond":
        bound = _paths_rebound(n["cond"]["pat"])
        e2 = {x: y for x, y in env.items() if x not in bound}
        return dict(n, cond=dict(n["cond"], e=subst(n["cond"]["e"], env)), then=subst(n["then"], e2), **({"else": subst(n["else"], env)} if n.get("else") else {}))
    if k == "for":
        bound = _paths_rebound(n["pat"])
        return dict(n, e=subst(n["e"], env), body=subst(n["body"], {x: y for x, y in env.items() if x not in bound}))
    return {a: (subst(b, env) if isinstance(b, (dict, list)) and a not in ("pat", "params", "ty", "path") else b) for a, b in n.items()}


def _tail_only(block):
    """the single expression of `{ e }`, else None"""
    if is_node(block) and block.get("k") == "block":
        st = block["stmts"]
        if len(st) == 1 and st[0]["k"] == "expr" and not st[0].get("semi"):
            return st[0]["e"]
        return None
    return block


def _has_return(n):
    """a `return` of this function body occurs in n (closures are other bodies)"""
    if isinstance(n, list):
        return any(_has_return(x) for x in n)
    if not isinstance(n, dict):
        return False
    if n.get("k") == "return":
        return True
    if n.get("k") == "closure":
        return False
    return any(_has_return(v) for k, v in n.items() if isinstance(v, (dict, list)) and k not in ("pat", "params", "ty", "path", "sig"))


def _as_stmts(b):
    """statements of a block used in statement position (its value, if any, is dropped)"""
    if b is None:
        return []
    if is_node(b) and b.get("k") == "block":
        out = []
        for st in b["stmts"]:
            if st.get("k") == "expr" and not st.get("semi"):
                out.append(dict(st, semi=True))
            else:
                out.append(st)
        return out
    return [{"k": "expr", "e": b, "semi": True, "l": b.get("l", 0) if is_node(b) else 0}]


def _seq(stmts, l=0):
    """Block equivalent to the statement list in which no `return` is left: the code after a conditional that may return is copied into
    its branches, a `return x` ends its branch with the value x (R1, general form)."""
    out = []
    for i, st in enumerate(stmts):
        rest = stmts[i + 1 :]
        if st.get("k") == "expr" and is_node(st["e"]):
            e = st["e"]
            if e.get("k") == "return":
                if e.get("e") is not None:
                    out.append({"k": "expr", "e": e["e"], "semi": False, "l": st.get("l", l)})
                return {"k": "block", "l": l, "stmts": out}
            value_pos = (not st.get("semi")) and not rest
            if e.get("k") == "if" and _has_return(e):
                then_s = (e["then"]["stmts"] if value_pos and is_node(e["then"]) and e["then"].get("k") == "block" else _as_stmts(e["then"])) + ([] if value_pos else rest)
                els = e.get("else")
                if value_pos:
                    else_s = els["stmts"] if is_node(els) and els.get("k") == "block" else ([{"k": "expr", "e": els, "semi": False, "l": l}] if els is not None else [])
                else:
                    else_s = _as_stmts(els) + rest
                new_if = dict(e, then=_seq(then_s, e.get("l", l)))
                new_if["else"] = _seq(else_s, e.get("l", l))
                out.append({"k": "expr", "e": new_if, "semi": False, "l": st.get("l", l)})
                return {"k": "block", "l": l, "stmts": out}
            if e.get("k") == "match" and _has_return(e.get("arms")):
                arms = []
                for a in e["arms"]:
                    body = a["body"]
                    if value_pos:
                        bs = body["stmts"] if is_node(body) and body.get("k") == "block" else [{"k": "expr", "e": body, "semi": False, "l": a.get("l", l)}]
                    else:
                        bs = _as_stmts(body) + rest
                    arms.append(dict(a, body=_seq(bs, a.get("l", l))))
                out.append({"k": "expr", "e": dict(e, arms=arms), "semi": False, "l": st.get("l", l)})
                return {"k": "block", "l": l, "stmts": out}
        if st.get("k") == "let" and is_node(st.get("init")) and st["init"].get("k") == "match" and _has_return(st["init"].get("arms")):
            # `let x = match e { P => v, _ => return r };` : the arms that return end the function, the others bind x
            e = st["init"]
            arms = []
            for a in e["arms"]:
                body = a["body"]
                if _has_return(body):
                    bs = body["stmts"] if is_node(body) and body.get("k") == "block" else [{"k": "expr", "e": body, "semi": False, "l": a.get("l", l)}]
                    arms.append(dict(a, body=_seq(bs, a.get("l", l))))
                else:
                    arms.append(dict(a, body=_seq([dict(st, init=body)] + rest, a.get("l", l))))
            out.append({"k": "expr", "e": dict(e, arms=arms), "semi": False, "l": st.get("l", l)})
            return {"k": "block", "l": l, "stmts": out}
        out.append(st)
    return {"k": "block", "l": l, "stmts": out}


def early_returns(block):
    """R1 on a function / closure body."""
    if not is_node(block) or block.get("k") != "block" or not _has_return(block):
        return block
    return dict(_seq(block["stmts"], block.get("l", 0)), el=block.get("el"))


def _uses(nodes, name):
    """occurrences of the single-segment path `name` in nodes (stops at a re-binding `let name = ..`, counting its initialiser)"""
    n = 0

    def rec(x):
        nonlocal n
        if isinstance(x, list):
            for y in x:
                rec(y)
        elif isinstance(x, dict):
            if x.get("k") == "path" and x.get("segs") == [name]:
                n += 1
                return
            if x.get("k") == "macro" and x.get("args") is None and isinstance(x.get("tt"), (list, str)) and name in str(x.get("tt")):
                n += 2  # used inside an unparsed macro: unknown number of uses
            for k2, v in x.items():
                if isinstance(v, (dict, list)) and k2 not in ("pat", "params", "ty", "sig"):
                    rec(v)

    for st in nodes:
        rec(st)
        if isinstance(st, dict) and st.get("k") == "let" and name in _paths_rebound(st.get("pat")):
            break
    return n


class Canon:
    def __init__(self, helpers=None, self_ty=None, iflet=False, lets=True, keep_lets=(), multi_use=False):
        self.multi_use = multi_use  # inline locals used several times as well (duplicates their expression)
        self.helpers = helpers or {}
        self.self_ty = self_ty
        self.iflet = iflet
        self.lets = lets
        self.keep_lets = set(keep_lets)
        self.depth = 0
        self.inlined = []

    # ------------------------------------------------------------------ blocks
    def block(self, b, toplevel=False):
        if not is_node(b) or b.get("k") != "block":
            return self.expr(b)
        if toplevel:
            b = early_returns(b)
        env = {}
        out = []
        mutated = self._assigned_names(b)
        stmts_all = b["stmts"]
        for si, st in enumerate(stmts_all):
            if st.get("k") == "let":
                init = self.expr(subst(st["init"], env)) if st.get("init") is not None else None
                p = st["pat"]
                while p["k"] == "typed":
                    p = p["pat"]
                if self.lets and init is not None and p["k"] == "ident" and not p.get("mut") and p["name"] not in mutated and p["name"] not in self.keep_lets and (self.multi_use or _uses(stmts_all[si + 1 :], p["name"]) <= 1):
                    ty = st["pat"].get("ty") if st["pat"]["k"] == "typed" else st.get("ty")
                    if ty and is_node(init) and init.get("k") == "mcall" and init["m"] in ("collect", "into", "try_into", "sum", "product", "parse", "unzip") and not init.get("turbofish"):
                        init = dict(init, turbofish=str(ty))  # the annotation of the local decides the collection type: keep it on the call
                    env[p["name"]] = init
                    continue
                for nm in _paths_rebound(st["pat"]):
                    env.pop(nm, None)
                out.append(dict(st, init=init))
            elif st.get("k") == "expr":
                out.append(dict(st, e=self.expr(subst(st["e"], env))))
            else:
                out.append(st)
        return dict(b, stmts=out)

    def _assigned_names(self, b):
        names = set()

        def rec(n):
            if isinstance(n, list):
                for x in n:
                    rec(x)
            elif is_node(n):
                if n.get("k") in ("assign", "assignop") and is_node(n.get("lhs")):
                    base = n["lhs"]
                    while is_node(base) and base.get("k") in ("field", "index", "unary", "ref", "paren"):
                        base = base.get("e")
                    if is_node(base) and base.get("k") == "path" and len(base.get("segs", [])) == 1:
                        names.add(base["segs"][0])
                if n.get("k") == "mcall" and n.get("m") in ("push", "extend", "insert", "push_str", "append", "retain", "sort", "dedup", "clear", "remove", "truncate"):
                    base = n["recv"]
                    if is_node(base) and base.get("k") == "path" and len(base.get("segs", [])) == 1:
                        names.add(base["segs"][0])
                for v in n.values():
                    if isinstance(v, (dict, list)):
                        rec(v)

        rec(b)
        return names

    # ------------------------------------------------------------------ expressions
    def expr(self, n):
        if isinstance(n, list):
            return [self.expr(x) for x in n]
        if not isinstance(n, dict):
            return n
        if not is_node(n):
            return {a: (self.expr(b) if isinstance(b, (dict, list)) and a not in ("pat", "params", "ty", "path", "sig") else b) for a, b in n.items()}
        k = n.get("k")
        if k == "block":
            b = self.block(n)
            t = _tail_only(b)
            return t if t is not None and not n.get("unsafe") and not n.get("label") else b
        if k == "paren":
            return self.expr(n["e"])
        if k == "closure":
            body = n["body"]
            if is_node(body) and body.get("k") == "block":
                body = self.block(early_returns(body))
                t = _tail_only(body)
                body = t if t is not None else body
            else:
                body = self.expr(body)
            return dict(n, body=body)
        if k == "macro" and str(n.get("name", "")).split("::")[-1] == "matches" and n.get("args") and len(n["args"]) == 2:
            # R5 (the pattern was parsed as an expression: keep it as an opaque pattern node)
            return {
                "k": "match",
                "l": n.get("l", 0),
                "e": self.expr(n["args"][0]),
                "arms": [
                    {"pat": {"k": "exprpat", "e": n["args"][1], "l": n.get("l", 0)}, "guard": None, "body": {"k": "lit", "t": "bool", "v": True, "l": n.get("l", 0)}, "l": n.get("l", 0)},
                    {"pat": {"k": "wild", "l": n.get("l", 0)}, "guard": None, "body": {"k": "lit", "t": "bool", "v": False, "l": n.get("l", 0)}, "l": n.get("l", 0)},
                ],
            }
        if k == "if":
            cond = n["cond"]
            then = self.expr(n["then"]) if not (is_node(n["then"]) and n["then"].get("k") == "block") else self.block(n["then"])
            els = n.get("else")
            if els is not None:
                els = self.block(els) if is_node(els) and els.get("k") == "block" else self.expr(els)
            if is_node(cond) and cond.get("k") == "letcond":
                c2 = dict(cond, e=self.expr(cond["e"]))
                if self.iflet and els is not None:
                    return {"k": "match", "l": n.get("l", 0), "e": c2["e"], "arms": [{"pat": cond["pat"], "guard": None, "body": then, "l": n.get("l", 0)}, {"pat": {"k": "wild", "l": n.get("l", 0)}, "guard": None, "body": els, "l": n.get("l", 0)}]}
                out = dict(n, cond=c2, then=then)
            else:
                out = dict(n, cond=self.expr(cond), then=then)
            if els is not None:
                out["else"] = els
            return out
        if k == "mcall":
            recv = self.expr(n["recv"])
            args = [self.expr(a) for a in n["args"]]
            m = n["m"]
            # R4
            if m in ("unwrap_or", "unwrap_or_else") and len(args) == 1 and is_node(recv) and recv.get("k") == "mcall" and recv["m"] in ("then_some", "then") and len(recv["args"]) == 1:
                a, b = recv["args"][0], args[0]
                if recv["m"] == "then" and is_node(a) and a.get("k") == "closure" and not a.get("params"):
                    a = a["body"]
                elif recv["m"] == "then":
                    a = None
                if m == "unwrap_or_else" and is_node(b) and b.get("k") == "closure" and not b.get("params"):
                    b = b["body"]
                elif m == "unwrap_or_else":
                    b = None
                if a is not None and b is not None:
                    blk = lambda e: e if is_node(e) and e.get("k") == "block" else {"k": "block", "l": n.get("l", 0), "stmts": [{"k": "expr", "e": e, "semi": False, "l": n.get("l", 0)}]}
                    return {"k": "if", "l": n.get("l", 0), "cond": recv["recv"], "then": blk(a), "else": blk(b)}
            out = dict(n, recv=recv, args=args)
            h = self._helper(m, len(args), method=True)
            if h is not None and is_node(recv):
                return self._inline(h, [recv] + args, n)
            return out
        if k == "call":
            f = n["f"]
            args = [self.expr(a) for a in n["args"]]
            if is_node(f) and f.get("k") == "path":
                segs = f.get("segs", [])
                if self.self_ty and segs and segs[0] == "Self":
                    segs = [self.self_ty] + segs[1:]
                    f = dict(f, segs=segs, p="::".join(segs))
                name = segs[-1] if segs else None
                if name and (len(segs) == 1 or (len(segs) == 2 and segs[0] in ("Self", self.self_ty))):
                    h = self._helper(name, len(args), method=False)
                    if h is not None:
                        return self._inline(h, args, n)
            else:
                f = self.expr(f)
            return dict(n, f=f, args=args)
        if k == "struct" and self.self_ty and is_node(n.get("path")) and n["path"].get("segs") == ["Self"]:
            n = dict(n, path=dict(n["path"], segs=[self.self_ty], p=self.self_ty))
        if k == "match":
            return dict(n, e=self.expr(n["e"]), arms=[dict(a, body=(self.block(a["body"]) if is_node(a["body"]) and a["body"].get("k") == "block" and _tail_only(a["body"]) is None else self.expr(a["body"])), guard=self.expr(a["guard"]) if a.get("guard") else a.get("guard")) for a in n["arms"]])
        return {a: (self.expr(b) if isinstance(b, (dict, list)) and a not in ("pat", "params", "ty", "path", "sig") else b) for a, b in n.items()}

    # ------------------------------------------------------------------ helpers (R3)
    def _helper(self, name, nargs, method):
        h = self.helpers.get(name)
        if h is None or self.depth >= MAX_HELPER_DEPTH:
            return None
        ps = (h.get("sig") or {}).get("params") or []
        has_self = bool(ps and ps[0].get("self"))
        if has_self != method:
            return None
        if len(ps) - (1 if has_self else 0) != nargs:
            return None
        return h

    def _inline(self, h, args, call):
        ps = (h.get("sig") or {}).get("params") or []
        env = {}
        for p, a in zip(ps, args):
            if p.get("self"):
                env["self"] = a
                continue
            pat = p["pat"]
            while pat["k"] == "typed":
                pat = pat["pat"]
            if pat["k"] != "ident":
                return dict(call)
            env[pat["name"]] = a
        self.depth += 1
        try:
            sub = Canon(self.helpers, self.self_ty, self.iflet, True, multi_use=True)
            sub.depth = self.depth
            body = sub.block(h["body"], toplevel=True)
        finally:
            self.depth -= 1
        t = _tail_only(body)
        if t is None:
            return dict(call)
        self.inlined.append(h.get("name"))
        return subst(t, env)


def helpers_of(src, file, keep=()):
    """private functions of a file that a rule may see through (R3): {name: fn node}; names in `keep` are anchors of some rule and stay calls."""
    out = {}
    dup = set()
    for f in src.fns:
        if f.file != file or f.test or not f.body or f.name in keep:
            continue
        if (f.node.get("vis") or "") not in ("", "pub(self)"):
            continue
        if f.trait:
            continue
        if f.name in out:
            dup.add(f.name)
        out[f.name] = f.node
    for d in dup:
        out.pop(d, None)
    return out


def canon_fn(f, src=None, keep=(), iflet=False, lets=True, keep_lets=(), helpers=True, multi_use=False):
    """Canonical body of Fn f (see module doc)."""
    hs = helpers_of(src, f.file, keep=set(keep) | {f.name}) if (src is not None and helpers) else {}
    st = (f.self_ty or "").split("<")[0].replace("trait ", "") or None
    c = Canon(hs, st, iflet=iflet, lets=lets, keep_lets=keep_lets, multi_use=multi_use)
    return c.block(f.body, toplevel=True)


def inline_local_closures(f):
    """A copy of Fn f in which every call `name(a, b)` of a local closure `let name = |p, q| BODY;` (immutable, defined at the top level of the function body and
    never used as a value) is replaced by BODY[p := a, q := b] and the `let` is dropped: a local closure is a helper like any other."""
    import copy

    body = f.body
    if body is None or body.get("k") != "block":
        return f
    stmts = list(body["stmts"])
    changed = False
    i = 0
    while i < len(stmts):
        st = stmts[i]
        if st.get("k") == "let" and st["pat"].get("k") == "ident" and not st["pat"].get("mut") and is_node(st.get("init")) and st["init"].get("k") == "closure":
            name, clo = st["pat"]["name"], st["init"]
            params = []
            ok = True
            for p in clo["params"]:
                q = p["pat"] if p.get("k") == "typed" else p
                if q.get("k") != "ident":
                    ok = False
                    break
                params.append(q["name"])
            rest = stmts[i + 1 :]
            uses = [x for y in rest for x in _walk(y) if x.get("k") == "path" and x.get("segs") == [name]]
            calls = [x for y in rest for x in _walk(y) if x.get("k") == "call" and is_node(x.get("f")) and x["f"].get("k") == "path" and x["f"].get("segs") == [name]]
            if ok and uses and len(uses) == len(calls) and all(len(c["args"]) == len(params) for c in calls):

                def repl(n):
                    if isinstance(n, list):
                        return [repl(x) for x in n]
                    if not isinstance(n, dict):
                        return n
                    if n.get("k") == "call" and is_node(n.get("f")) and n["f"].get("k") == "path" and n["f"].get("segs") == [name]:
                        args = [repl(a) for a in n["args"]]
                        return subst(clo["body"], dict(zip(params, args)))
                    return {a: (repl(b) if isinstance(b, (dict, list)) else b) for a, b in n.items()}

                stmts = stmts[:i] + [repl(y) for y in rest]
                changed = True
                continue
        i += 1
    if not changed:
        return f
    g = copy.copy(f)
    g.node = dict(f.node, body=dict(body, stmts=stmts))
    return g


def accumulate_loop_as_fold(f):
    """A copy of Fn f whose trailing `let mut acc = INIT; for PAT in ITER { acc = STEP; } acc` (also `acc += E`) is the tail expression
    `ITER.fold(INIT, |acc, PAT| STEP)`: the loop form of a fold reads like the fold."""
    import copy

    body = f.body
    if body is None or body.get("k") != "block" or len(body["stmts"]) < 3:
        return f
    st = body["stmts"]
    let, loop, tail = st[-3], st[-2], st[-1]
    if not (let.get("k") == "let" and let["pat"].get("k") in ("ident", "typed") and let.get("init") is not None and loop.get("k") == "expr" and loop["e"].get("k") == "for" and tail.get("k") == "expr" and not tail.get("semi")):
        return f
    pat = let["pat"] if let["pat"]["k"] == "ident" else let["pat"]["pat"]
    if pat.get("k") != "ident":
        return f
    acc = pat["name"]
    if not (tail["e"].get("k") == "path" and tail["e"].get("segs") == [acc]):
        return f
    lp = loop["e"]
    bs = lp["body"]["stmts"] if lp["body"].get("k") == "block" else [{"k": "expr", "e": lp["body"]}]
    if len(bs) != 1 or bs[0].get("k") != "expr":
        return f
    e = bs[0]["e"]
    l = lp.get("l", 0)
    accp = {"k": "path", "l": l, "p": acc, "segs": [acc]}
    step = None
    if e.get("k") == "assign" and e["lhs"].get("k") == "path" and e["lhs"].get("segs") == [acc]:
        step = e["rhs"]
    elif e.get("k") == "binary" and e.get("op", "").strip() in ("+=", "-=", "*=") and e["lhs"].get("k") == "path" and e["lhs"].get("segs") == [acc]:
        step = {"k": "binary", "l": l, "op": e["op"].strip()[0], "lhs": accp, "rhs": e["rhs"]}
    if step is None:
        return f
    fold = {"k": "mcall", "l": l, "m": "fold", "recv": lp["e"], "args": [let["init"], {"k": "closure", "l": l, "params": [{"k": "ident", "name": acc, "l": l}, lp["pat"]], "body": step}]}
    g = copy.copy(f)
    g.node = dict(f.node, body=dict(body, stmts=st[:-3] + [{"k": "expr", "l": l, "e": fold, "semi": False}]))
    return g


def _walk(n):
    if isinstance(n, list):
        for x in n:
            for y in _walk(x):
                yield y
    elif isinstance(n, dict):
        if "k" in n:
            yield n
        for v in n.values():
            if isinstance(v, (dict, list)):
                for y in _walk(v):
                    yield y


def canon_view(f, src=None, **kw):
    """A copy of Fn f whose body is canonical (same name, file, line ...)."""
    import copy

    g = copy.copy(f)
    g.node = dict(f.node, body=canon_fn(f, src, **kw))
    return g


def value_helpers(src, file):
    """private free functions of `file` whose body is ONE expression over identifier parameters (`fn clamp_float(x: f64) -> f64 { x.clamp(MIN, MAX) }`): name -> (param names, body expr)"""
    out = {}
    for f in src.fns:
        if f.file != file or f.self_ty or f.test or not f.body or (f.node.get("vis") or "") == "pub":
            continue
        ps = [p for p in f.params if not p.get("self")]
        if not ps or any(p["pat"].get("k") != "ident" for p in ps):
            continue
        b = f.body
        while is_node(b) and b.get("k") == "block" and len(b["stmts"]) == 1 and b["stmts"][0].get("k") == "expr" and not b["stmts"][0].get("semi"):
            b = b["stmts"][0]["e"]
        if not is_node(b) or b.get("k") == "block":
            continue
        out[f.name] = ([p["pat"]["name"] for p in ps], b)
    return out


def inline_value_helpers(n, helpers, depth=0):
    """copy of n in which every call `h(a, ..)` of a helper of `value_helpers` is replaced by its body with the arguments substituted (a one-expression helper is the expression it names)"""
    if isinstance(n, list):
        return [inline_value_helpers(x, helpers, depth) for x in n]
    if not isinstance(n, dict) or not helpers:
        return n
    m = {a: (inline_value_helpers(b, helpers, depth) if isinstance(b, (dict, list)) else b) for a, b in n.items()}
    if m.get("k") == "call" and is_node(m.get("f")) and m["f"].get("k") == "path" and len(m["f"].get("segs", [])) == 1 and m["f"]["segs"][0] in helpers and depth < 4:
        names, body = helpers[m["f"]["segs"][0]]
        if len(names) == len(m["args"]):
            args = m["args"]  # the tree is structural: no parentheses needed
            return inline_value_helpers(subst(body, dict(zip(names, args))), helpers, depth + 1)
    return m
