"""A small def-use walker over function-body ASTs (syn facts).

Taint is syntactic may-flow: a `let` binds its names as derived from every tainted name its
initialiser mentions (through method chains, closures, macros with parsed arguments);
re-binding a name from an untainted initialiser removes it (shadowing).  Assignments
`x = e` / `x op= e` add taint.  Parameters are identified by the caller, never by convention.
"""
from .core import walk, is_node, pat_binds


def mentions(e, names):
    """Set of names (single-segment paths) among `names` mentioned anywhere in e."""
    out = set()
    if e is None:
        return out
    for x in walk(e):
        if x["k"] == "path" and len(x["segs"]) == 1 and x["segs"][0] in names:
            out.add(x["segs"][0])
        elif x["k"] == "macro" and "args" not in x and x.get("tokens"):
            # unparsed macro body: fall back to token search
            toks = set(x["tokens"].replace("(", " ").replace(")", " ").replace(",", " ").replace(".", " ").split())
            out |= toks & set(names)
    return out


class Taint:
    """Forward propagation through the statements of a block (recursing into nested blocks,
    if/match arms and loops); self.tainted maps name -> set of source labels."""

    def __init__(self, sources):
        # sources: dict name -> label (or iterable of names)
        if not isinstance(sources, dict):
            sources = {s: s for s in sources}
        self.tainted = {k: {v} for k, v in sources.items()}

    def labels(self, e):
        out = set()
        for n in mentions(e, self.tainted.keys()):
            out |= self.tainted[n]
        return out

    def bind(self, pat, labels):
        for n in pat_binds(pat):
            if labels:
                self.tainted[n] = set(labels)
            else:
                self.tainted.pop(n, None)

    def run_block(self, b):
        """Process a block node; returns labels of its tail expression (value of the block)."""
        val = set()
        stmts = b["stmts"] if b["k"] == "block" else [{"k": "expr", "e": b, "semi": False, "l": b["l"]}]
        for i, s in enumerate(stmts):
            if s["k"] == "let":
                init = s.get("init")
                lab = self.eval(init) if init is not None else set()
                if s.get("else") is not None:
                    self.eval(s["else"])
                self.bind(s["pat"], lab)
            elif s["k"] == "expr":
                lab = self.eval(s["e"])
                if not s.get("semi") and i == len(stmts) - 1:
                    val = lab
        return val

    def eval(self, e):
        """Labels reaching the value of expression e (also updates bindings for nested lets / assignments)."""
        if e is None or not is_node(e):
            return set()
        k = e["k"]
        if k == "block":
            return self.run_block(e)
        if k == "if":
            c = self.eval(e["cond"])
            saved = dict(self.tainted)
            if e["cond"]["k"] == "letcond":
                self.bind(e["cond"]["pat"], self.labels(e["cond"]["e"]))
            a = self.run_block(e["then"])
            t1 = self.tainted
            self.tainted = dict(saved)
            b = self.eval(e["else"]) if e.get("else") else set()
            # merge
            for n, l in t1.items():
                self.tainted.setdefault(n, set()).update(l)
            return a | b
        if k == "match":
            sl = self.eval(e["e"])
            out = set()
            saved = dict(self.tainted)
            merged = {}
            for a in e["arms"]:
                self.tainted = dict(saved)
                self.bind(a["pat"], sl)
                if a.get("guard"):
                    self.eval(a["guard"])
                out |= self.eval(a["body"])
                for n, l in self.tainted.items():
                    merged.setdefault(n, set()).update(l)
            self.tainted = merged if e["arms"] else saved
            return out
        if k == "assign":
            lab = self.eval(e["rhs"])
            for n in mentions(e["lhs"], set(self.tainted.keys()) | set(pat_names_in_expr(e["lhs"]))):
                pass
            for n in pat_names_in_expr(e["lhs"]):
                self.tainted.setdefault(n, set()).update(lab)
                break
            return set()
        if k == "binary" and e["op"].endswith("=") and e["op"] not in ("==", "!=", "<=", ">="):
            lab = self.eval(e["rhs"])
            for n in pat_names_in_expr(e["lhs"]):
                self.tainted.setdefault(n, set()).update(lab)
                break
            return set()
        if k in ("for",):
            lab = self.eval(e["e"])
            self.bind(e["pat"], lab)
            self.run_block(e["body"])
            self.run_block(e["body"])
            return set()
        if k in ("while", "loop"):
            if k == "while":
                self.eval(e["cond"])
            self.run_block(e["body"])
            self.run_block(e["body"])
            return set()
        if k == "closure":
            # the closure value depends on what its body mentions (captures)
            return self.labels(e["body"])
        if k == "letcond":
            lab = self.eval(e["e"])
            self.bind(e["pat"], lab)
            return lab
        # generic expression: evaluate nested blocks for their side effects on bindings, result = labels mentioned
        out = self.labels(e)
        for x in walk(e):
            if x is not e and x["k"] in ("block", "if", "match") :
                # nested control flow inside an expression: make sure inner lets are processed
                out |= self.eval(x)
                break
        return out


def pat_names_in_expr(e):
    out = []
    for x in walk(e):
        if x["k"] == "path" and len(x["segs"]) == 1:
            out.append(x["segs"][0])
    return out


def returns_of(fn_body):
    """Expressions whose value leaves the function: tail expression and `return e`."""
    out = []
    if fn_body["stmts"]:
        last = fn_body["stmts"][-1]
        if last["k"] == "expr" and not last.get("semi"):
            out.append(last["e"])
    for x in walk(fn_body, into_closures=False):
        if x["k"] == "return" and x.get("e") is not None:
            out.append(x["e"])
    return out


def flows_into_return(fn, name):
    t = Taint({name: name})
    val = t.run_block(fn.body)
    if name in val:
        return True
    for x in walk(fn.body, into_closures=False):
        if x["k"] == "return" and x.get("e") is not None and name in t.labels(x["e"]):
            return True
    return False
