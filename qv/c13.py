"""C13 — rewriting search: well-typed derivations, full enumeration, arg-max (rules G1–G4).

Decides (DESIGN §3/C13) the clauses of the statement whose truth is in the shape of
rewriting/rewriting_rule.rs and rewriting/mod.rs:
  G1  the selector keeps a rule iff inputs()[k] == child_k.output() for every child k (conjunctively);
      the eliminator never drops a rule on a positional mismatch (atom k must test child k);
      leaves keep every rule;
  G2  the generic Visitor impl of SelectRewritingRuleVisitor enumerates the full cartesian product of the
      children's candidate lists and attaches [left, right] in that order;
  G3  both public entry points pick the arg-max of the Score visitor among accepted roots and report
      `unreachable_property` otherwise;
  G4  the three generic visitor impls (map-rules, select, rewrite) hand child k's result to the k-th child parameter.
NOT decided: "returns a rewriting exactly when a consistent assignment exists" over all trees (completeness),
ties, resource bounds.
"""
from . import facts
from .core import Src, Anchor, find, walk, show, path_of, is_call_to, pat_binds

LEVEL = "other"
EXHAUSTIVE = True
RR = "rewriting/rewriting_rule.rs"
UNARY = ("map", "reduce")
BINARY = ("join", "set")
LEAF = ("table", "values")


def lit_int(n):
    if n["k"] == "lit" and n["t"] == "int":
        return int(n["v"])
    return None


def strip(e):
    """Peel *x, &x, x.deref(), x.clone(), x.as_ref(), x.borrow()."""
    while True:
        if e["k"] == "unary" and e["op"] in ("*", "!") and e["op"] == "*":
            e = e["e"]
        elif e["k"] == "ref":
            e = e["e"]
        elif e["k"] == "mcall" and e["m"] in ("deref", "clone", "as_ref", "borrow", "to_owned") and not e["args"]:
            e = e["recv"]
        else:
            return e


def conj_atoms(e):
    """Split a && tree; returns (atoms, connectives)."""
    if e["k"] == "binary" and e["op"] in ("&&", "||"):
        a1, c1 = conj_atoms(e["lhs"])
        a2, c2 = conj_atoms(e["rhs"])
        return a1 + a2, c1 + c2 + [e["op"]]
    if e["k"] == "block" and len(e["stmts"]) == 1 and e["stmts"][0]["k"] == "expr":
        return conj_atoms(e["stmts"][0]["e"])
    return [e], []


def inputs_index(e, rule_var):
    """`rr.inputs()[k]` -> k"""
    e = strip(e)
    if e["k"] == "index":
        base = strip(e["e"])
        if base["k"] == "mcall" and base["m"] == "inputs" and path_of(strip(base["recv"])) == rule_var:
            return lit_int(e["i"])
    return None


def child_output(e, child_names):
    """`<child>.attributes().output()` -> child name"""
    e = strip(e)
    if e["k"] == "mcall" and e["m"] == "output":
        r = strip(e["recv"])
        if r["k"] == "mcall" and r["m"] == "attributes":
            p = path_of(strip(r["recv"]))
            if p in child_names:
                return p
    return None


def child_params(fn, tyfrag):
    return [p["pat"]["name"] for p in fn.params if not p.get("self") and tyfrag in p["ty"].replace(" ", "") and p["pat"]["k"] == "ident"]


def rules_param(fn):
    for p in fn.params:
        if not p.get("self") and "[RewritingRule]" in p["ty"].replace(" ", "") and p["pat"]["k"] == "ident":
            return p["pat"]["name"]
    return None


ITER_OK = {"into_iter", "iter", "filter", "cloned", "copied", "collect", "to_vec", "into", "to_owned"}
TRUNCATING = {"take", "skip", "find", "first", "last", "nth", "step_by", "take_while", "skip_while", "find_map", "next", "min_by", "max_by", "position", "dedup", "unique", "zip", "rev", "truncate", "pop", "split_first", "split_last"}


def chain_methods(e):
    """Methods of the method chain ending at e (outermost first)."""
    out = []
    while e["k"] == "mcall":
        out.append(e)
        e = e["recv"]
    return out, e


def _same_rule(e, rv):
    """`r.clone()` / `(*r).clone()` / `r` of the closure's own parameter"""
    t = show(e, 0).replace(" ", "").replace("(*%s)" % rv, rv)
    return t in (rv, rv + ".clone()", "*" + rv, rv + ".to_owned()")


def as_filter(m):
    """A filter_map call that keeps or drops the element itself, as the equivalent `filter` call (None when it is not of that form)."""
    if m["m"] != "filter_map" or not m["args"] or m["args"][0]["k"] != "closure" or len(m["args"][0]["params"]) != 1:
        return None
    cl = m["args"][0]
    bs = pat_binds(cl["params"][0])
    if not bs:
        return None
    rv = bs[0]
    b = cl["body"]
    while b["k"] == "block" and len(b["stmts"]) == 1 and b["stmts"][0]["k"] == "expr":
        b = b["stmts"][0]["e"]
    cond = None
    if b["k"] == "mcall" and b["m"] == "then_some" and len(b["args"]) == 1 and _same_rule(b["args"][0], rv):
        cond = b["recv"]
    elif b["k"] == "mcall" and b["m"] == "then" and len(b["args"]) == 1 and b["args"][0]["k"] == "closure" and not b["args"][0]["params"] and _same_rule(b["args"][0]["body"], rv):
        cond = b["recv"]
    elif b["k"] == "if" and b.get("else") is not None and b["cond"]["k"] != "letcond":
        t, e = show(b["then"], 0).replace(" ", ""), show(b["else"], 0).replace(" ", "")
        if t.strip("{}") in ("Some(%s.clone())" % rv, "Some(%s)" % rv) and e.strip("{}") == "None":
            cond = b["cond"]
    if cond is None:
        return None
    while cond["k"] == "paren":
        cond = cond["e"]
    return dict(m, m="filter", args=[dict(cl, body=cond)])


def loop_selection(stmts, rp):
    """`let mut v = vec![]; for r in <rules> { if P { v.push(r.clone()) } } v` -> the closure `|r| P` (None when the body is not of that form)."""
    if len(stmts) > 3 and all(s_["k"] == "let" for s_ in stmts[:-3]):
        stmts = stmts[-3:]  # leading locals (the sets of outputs of the children) are not part of the loop form
    if len(stmts) != 3 or stmts[0]["k"] != "let" or stmts[0]["pat"]["k"] != "ident" or stmts[1]["k"] != "expr" or stmts[1]["e"]["k"] != "for":
        return None
    v = stmts[0]["pat"]["name"]
    if show(stmts[0].get("init"), 0).replace(" ", "") not in ("vec![]", "vec!()", "Vec::new()"):
        return None
    lp = stmts[1]["e"]
    if rp not in {x["segs"][0] for x in walk(lp["e"]) if x["k"] == "path"} or [m for m in find(lp["e"], "mcall") if m["m"] not in ("iter", "into_iter")]:
        return None
    if path_of(strip(stmts[2]["e"])) != v:
        return None
    bs = pat_binds(lp["pat"])
    as_stmts = lambda b: b["stmts"] if b.get("k") == "block" else [{"k": "expr", "e": b, "l": b.get("l", 0)}]
    body = as_stmts(lp["body"])
    if len(bs) != 1 or len(body) != 1 or body[0]["k"] != "expr" or body[0]["e"]["k"] != "if" or body[0]["e"].get("else") is not None or body[0]["e"]["cond"]["k"] == "letcond":
        return None
    th = as_stmts(body[0]["e"]["then"])
    if len(th) != 1 or th[0]["k"] != "expr" or th[0]["e"]["k"] != "mcall" or th[0]["e"]["m"] != "push" or path_of(th[0]["e"]["recv"]) != v or not _same_rule(th[0]["e"]["args"][0], bs[0]):
        return None
    return {"k": "closure", "l": lp["l"], "params": [lp["pat"]], "body": body[0]["e"]["cond"]}


def setof_names(f):
    """locals of an Eliminator method that hold the set of outputs of a child (they are looked up by name, not inlined)"""
    return [b for s in f.body["stmts"] if s["k"] == "let" and s.get("init") is not None for b in pat_binds(s["pat"])]


def g1(rep, src):
    rep.rule(
        "G1",
        "positional agreement: in every method of `impl SelectRewritingRuleVisitor for RewritingRulesSelector` a rule is kept iff inputs()[k] == child_k.output() for EVERY child k, joined by && "
        "(unary k=0, binary 0=left 1=right); in RewritingRulesEliminator every atom tests inputs()[k] against the outputs of child k; leaves keep all rules; no truncating combinator",
        floor=12,
        necessary="a predicate comparing the wrong child / joined by || selects a derivation whose rule inputs are not the labels its children produce (ill-typed rewriting), a missing or over-strict atom drops consistent derivations",
    )
    sel = {f.name: f for f in src.find_fns(file=RR, trait_re=r"^SelectRewritingRuleVisitor", self_ty_re=r"^RewritingRulesSelector")}
    eli = {f.name: f for f in src.find_fns(file=RR, trait_re=r"^MapRewritingRulesVisitor", self_ty_re=r"^RewritingRulesEliminator")}
    for nm in UNARY + BINARY + LEAF:
        if nm not in sel:
            raise Anchor("RewritingRulesSelector::%s not found" % nm)
        if nm not in eli:
            raise Anchor("RewritingRulesEliminator::%s not found" % nm)
    for who, tab, tyfrag in (("Selector", sel, "RelationWithRewritingRule<"), ("Eliminator", eli, "RelationWithRewritingRules<")):
        for nm, f in sorted(tab.items()):
            if nm not in UNARY + BINARY + LEAF:
                continue
            key = "%s::%s" % (who, nm)
            rp = rules_param(f)
            kids = child_params(f, tyfrag)
            want = 0 if nm in LEAF else (1 if nm in UNARY else 2)
            if rp is None or len(kids) != want:
                rep.undecidable("G1", key, "cannot identify the rules / child parameters (rules=%s children=%s)" % (rp, kids), f.where())
                continue
            # the returned expression: tail of the body (named locals such as `let left_property = left.attributes().output();` are read through)
            from .canon import canon_view

            fc = canon_view(f, src, multi_use=True, keep_lets=tuple(setof_names(f)) if who == "Eliminator" else ())  # private helpers such as `reachable_properties(&child)` are read through
            stmts = fc.body["stmts"]
            tail = stmts[-1]["e"] if stmts and stmts[-1]["k"] == "expr" and not stmts[-1].get("semi") else None
            if tail is None:
                rep.undecidable("G1", key, "no tail expression", f.where())
                continue
            loop = loop_selection(stmts, rp)
            if loop is not None:
                # `let mut v = vec![]; for r in rules { if P { v.push(r.clone()) } } v`  ==  rules.iter().filter(|r| P).cloned().collect()
                ms, names = [], []
                filters = [{"m": "filter", "args": [loop]}]
            else:
                if tail["k"] == "call" and (path_of(tail["f"]) or "") in ("Vec::from", "Vec::from_iter", "From::from", "Into::into") and len(tail["args"]) == 1 and path_of(strip(tail["args"][0])) == rp:
                    tail = tail["args"][0]  # `Vec::from(rules)` is `rules.to_vec()`: all the rules, in order
                ms, root = chain_methods(tail)
                names = [m["m"] for m in ms]
                if path_of(strip(root)) != rp:
                    rep.undecidable("G1", key, "the result is not a chain over the rules parameter `%s`: %s" % (rp, show(tail, 100)), f.where())
                    continue
                # `filter_map(|r| P.then(|| r.clone()))` / `.then_some(r.clone())` / `if P { Some(r.clone()) } else { None }`  ==  filter(|r| P).cloned()
                ms = [as_filter(m) or m for m in ms]
                # `.map(Clone::clone)` / `.map(|r| r.clone())` is `.cloned()`
                def _is_clone_map(m):
                    if m["m"] != "map" or len(m["args"]) != 1:
                        return False
                    a_ = m["args"][0]
                    if a_["k"] == "path" and a_["segs"][-1] in ("clone", "to_owned"):
                        return True
                    return a_["k"] == "closure" and len(a_["params"]) == 1 and bool(pat_binds(a_["params"][0])) and _same_rule(a_["body"], pat_binds(a_["params"][0])[0])
                ms = [dict(m, m="cloned", args=[]) if _is_clone_map(m) else m for m in ms]
                names = [m["m"] for m in ms]
            bad = [n for n in names if n in TRUNCATING or n not in ITER_OK]
            if bad:
                rep.violation("G1", key, "combinator(s) %s on the candidate rules (may drop or reorder consistent rules)" % bad, f.where())
                continue
            if loop is None:
                filters = [m for m in ms if m["m"] == "filter"]
            if nm in LEAF:
                rep.instance("G1", key, {"fn": key, "predicate": "none (leaf keeps all rules)"}, nontrivial=False)
                if filters:
                    rep.violation("G1", key, "a leaf node filters its rules", f.where())
                continue
            if len(filters) != 1:
                rep.violation("G1", key, "expected exactly one filter over the rules, found %d" % len(filters), f.where())
                continue
            cl = filters[0]["args"][0]
            if cl["k"] != "closure" or len(cl["params"]) != 1 or not pat_binds(cl["params"][0]):
                rep.undecidable("G1", key, "filter argument is not a one-parameter closure", f.where())
                continue
            rv = pat_binds(cl["params"][0])[0]
            # `let (left_property, right_property) = (left.attributes().output(), right.attributes().output());`: each name is its component
            tl = {}
            for s_ in stmts:
                if s_["k"] == "let" and s_["pat"]["k"] == "tuple" and s_.get("init") is not None and s_["init"]["k"] == "tuple" and len(s_["init"]["elems"]) == len(s_["pat"]["elems"]):
                    for pe, ie in zip(s_["pat"]["elems"], s_["init"]["elems"]):
                        if pe["k"] == "ident":
                            tl[pe["name"]] = ie
            body_g1 = cl["body"]
            if tl:
                from .canon import subst as _subst_g1

                body_g1 = _subst_g1(body_g1, tl)
            atoms, conns = conj_atoms(body_g1)
            pairs = []
            ok = True
            # eliminator: sets of outputs bound by lets
            setof = {}
            if who == "Eliminator":
                from .flow import Taint

                for s in stmts[:-1]:
                    if s["k"] == "let" and s.get("init") is not None:
                        src_kids = [k for k in kids if k in [x["segs"][0] for x in walk(s["init"]) if x["k"] == "path" and len(x["segs"]) == 1]]
                        maps_output = any((x["k"] == "mcall" and x["m"] == "output") or (x["k"] == "path" and len(x["segs"]) >= 2 and x["segs"][-1] == "output") for x in walk(s["init"]))
                        for b in pat_binds(s["pat"]):
                            setof[b] = (src_kids, maps_output)
            for a in atoms:
                a = strip(a)
                if who == "Selector":
                    if a["k"] == "binary" and a["op"] == "==":
                        k = inputs_index(a["lhs"], rv)
                        c = child_output(a["rhs"], kids)
                        if k is None or c is None:
                            k = inputs_index(a["rhs"], rv)
                            c = child_output(a["lhs"], kids)
                        if k is not None and c is not None:
                            pairs.append((k, kids.index(c)))
                            continue
                    ok = False
                    rep.undecidable("G1", key + "@atom", "unrecognised atom in the selection predicate: %s" % show(a, 100), f.where())
                else:
                    if a["k"] == "mcall" and a["m"] == "contains" and len(a["args"]) == 1:
                        k = inputs_index(a["args"][0], rv)
                        s = path_of(strip(a["recv"]))
                        if k is not None and s in setof and len(setof[s][0]) == 1 and setof[s][1]:
                            pairs.append((k, kids.index(setof[s][0][0])))
                            continue
                    ok = False
                    rep.undecidable("G1", key + "@atom", "unrecognised atom in the elimination predicate: %s" % show(a, 100), f.where())
            if not ok:
                continue
            rep.instance("G1", key, {"fn": key, "children": kids, "atoms": pairs, "connectives": conns, "predicate": show(cl["body"], 200)})
            for (k, j) in pairs:
                if k != j:
                    rep.violation("G1", key, "rule input %d is compared with child %d (`%s`)" % (k, j, kids[j]), f.where())
            if who == "Selector":
                if "||" in conns:
                    rep.violation("G1", key, "child conditions joined by || (a rule matching only one child is kept)", f.where())
                missing = [k for k in range(want) if (k, k) not in pairs]
                if missing:
                    rep.violation("G1", key, "no condition on child(ren) %s" % missing, f.where())
            else:
                extra = [p for p in pairs if p[0] >= want]
                if extra:
                    rep.violation("G1", key, "atom on a non-existent input %s" % extra, f.where())


# ---------------------------------------------------------------- origin evaluator for G2 / G4


class Undecided(Exception):
    pass


class Origins:
    """Tiny evaluator: which child's candidate (0 / 1) does a value come from."""

    def __init__(self, deps_name, acc_name):
        self.deps, self.acc = deps_name, acc_name
        self.calls = []  # (method, [arg origins])
        self.news = []  # (rule origin, [children origins])
        self.combinators = []

    def child_index(self, e):
        """`dependencies.get(acceptor.inputs()[k]...)` -> k"""
        e = strip(e)
        if e["k"] == "mcall" and e["m"] == "get" and path_of(strip(e["recv"])) == self.deps and len(e["args"]) == 1:
            a = strip(e["args"][0])
            if a["k"] == "index":
                b = strip(a["e"])
                if b["k"] == "mcall" and b["m"] == "inputs" and path_of(strip(b["recv"])) == self.acc:
                    return lit_int(a["i"])
        return None

    def bind(self, pat, org, env):
        k = pat["k"]
        if k == "ident":
            env[pat["name"]] = org
        elif k == "tuple":
            if not isinstance(org, tuple) or len(org) != len(pat["elems"]):
                raise Undecided("tuple pattern %s against %r" % (show(pat), org))
            for p, o in zip(pat["elems"], org):
                self.bind(p, o, env)
        elif k == "ref":
            self.bind(pat["pat"], org, env)
        elif k == "wild":
            pass
        else:
            raise Undecided("pattern %s" % show(pat))

    def val(self, e, env):
        e = strip(e)
        k = e["k"]
        ci = self.child_index(e)
        if ci is not None:
            return ("all", ci)  # the whole candidate list / the single result of child ci
        if k == "path":
            return env.get(e["p"], ("free", e["p"]))
        if k == "tuple":
            return tuple(self.val(x, env) for x in e["elems"])
        if k == "call" and is_call_to(e, "Arc::new", "Rc::new", "Box::new"):
            return self.val(e["args"][0], env)
        if k == "call" and (is_call_to(e, "RelationWithRewritingRule::new") or is_call_to(e, "RelationWithAttributes::new")):
            rr = self.val(e["args"][1], env)
            kids = self.val(e["args"][2], env)
            self.news.append((rr, kids))
            return ("node",)
        if k == "macro" and e["name"] == "vec":
            return ("vec", tuple(self.val(x, env) for x in e.get("args", [])))
        if k == "mcall" and path_of(strip(e["recv"])) == "self" and e["m"] in UNARY + BINARY + LEAF:
            args = [self.val(a, env) for a in e["args"]]
            self.calls.append((e["m"], args))
            return ("rules", e["m"])
        if k == "mcall" and e["m"] in ("attributes", "relation", "inputs"):
            return ("acc." + e["m"],)
        if k == "block" and e["stmts"] and e["stmts"][-1]["k"] == "expr" and all(s_["k"] == "let" and s_.get("init") is not None for s_ in e["stmts"][:-1]):
            env = dict(env)
            for s_ in e["stmts"][:-1]:  # `{ let x = <value>; <tail> }`
                self.bind(s_["pat"], self.val(s_["init"], env), env)
            return self.val(e["stmts"][-1]["e"], env)
        raise Undecided("value %s" % show(e, 80))

    def elem(self, e, env):
        """Origin of the elements of iterator/collection expression e."""
        e0 = e
        e = strip(e)
        ci = self.child_index(e)
        if ci is not None:
            return ci
        if e["k"] == "mcall":
            m = e["m"]
            if path_of(strip(e["recv"])) == "self" and m in UNARY + BINARY + LEAF:
                self.val(e, env)
                return ("rule",)
            if m in ("into_iter", "iter", "cloned", "copied", "collect"):
                return self.elem(e["recv"], env)
            if m in ("map", "flat_map"):
                self.combinators.append(m)
                inner = self.elem(e["recv"], env)
                cl = e["args"][0]
                if cl["k"] != "closure" or len(cl["params"]) != 1:
                    raise Undecided("argument of %s is not a closure" % m)
                env2 = dict(env)
                self.bind(cl["params"][0], inner, env2)
                if m == "map":
                    return self.val(cl["body"], env2)
                return self.elem(cl["body"], env2)
            if path_of(strip(e["recv"])) == "self" and m in UNARY + BINARY + LEAF:
                self.val(e, env)
                return ("rule",)
            self.combinators.append(m)
            raise Undecided("combinator .%s()" % m)
        if e["k"] == "block" and e["stmts"] and e["stmts"][-1]["k"] == "expr" and all(s_["k"] == "let" and s_.get("init") is not None for s_ in e["stmts"][:-1]):
            env = dict(env)
            for s_ in e["stmts"][:-1]:  # `{ let selected = self.set(..); selected.into_iter().map(..) }`
                self.bind(s_["pat"], self.val(s_["init"], env), env)
            return self.elem(e["stmts"][-1]["e"], env)
        if e["k"] == "path" and isinstance(env.get(e["p"]), tuple) and env[e["p"]][:1] == ("rules",):
            return ("rule",)  # a local holding the rules kept by self.<node>(..)
        raise Undecided("iterator %s" % show(e0, 80))


def visitor_fn(src, trait_bound):
    """The `visit` method of `impl<'a, V: <trait_bound><'a>> Visitor<...> for V`."""
    out = []
    for f in src.find_fns(name="visit", file=RR):
        g = (f.impl or {}).get("generics", "")
        if trait_bound in g and (f.trait or "").startswith("Visitor"):
            out.append(f)
    if len(out) != 1:
        raise Anchor("generic Visitor impl for %s: found %d" % (trait_bound, len(out)))
    return out[0]


def dispatch_arms(f):
    ms = [m for m in find(f.body, "match") if m["e"]["k"] == "mcall" and m["e"]["m"] == "relation"]
    if len(ms) != 1:
        raise Anchor("%s: expected one `match acceptor.relation()`" % f.qual)
    arms = {}
    for a in ms[0]["arms"]:
        p = a["pat"]
        if p["k"] == "tuplestruct" and p["path"]["segs"][-2:-1] == ["Relation"]:
            arms[p["path"]["segs"][-1].lower()] = a
    return arms


def _needs_canon(f, src):
    """the generic visitor uses a private free helper of the file (`with_selected_rule(acceptor, rule, inputs)`) or names `acceptor.inputs()` / `acceptor.attributes()` once for several arms: read the canonical body"""
    helpers = {h.name for h in src.fns if h.file == RR and not h.self_ty and not h.test and h.body and (h.node.get("vis") or "") == ""}
    if any(c["f"]["k"] == "path" and len(c["f"]["segs"]) == 1 and c["f"]["segs"][0] in helpers for c in find(f.body, "call")):
        return True
    return any(l.get("init") is not None and l["init"]["k"] == "mcall" and l["init"]["m"] in ("inputs", "attributes") and not l["init"]["args"] for l in find(f.body, "let"))


def g2(rep, src):
    rep.rule(
        "G2",
        "full enumeration: the generic Visitor impl for SelectRewritingRuleVisitor builds for Join/Set the cartesian product of both children's candidate lists (nested flat_map/map only; no zip/take/filter), "
        "calls self.join/set(_, rules, left, right) with the candidates in that order and attaches vec![left, right]; for Map/Reduce one candidate per (input candidate x kept rule) with vec![input]",
        floor=4,
        necessary="zipping or truncating the candidate lists silently loses consistent derivations (possibly the best-scoring or the only one); swapping the attached children yields an ill-typed derivation",
    )
    from .canon import inline_local_closures

    from .canon import canon_view as _cv2

    f = inline_local_closures(visitor_fn(src, "SelectRewritingRuleVisitor"))
    if not [m for m in find(f.body, "match") if m["e"]["k"] == "mcall" and m["e"]["m"] == "relation"] or _needs_canon(f, src):
        # `let relation = acceptor.relation(); match relation { .. }` and a free helper `with_selected_rule(relation, rule, inputs)`: read through
        f = inline_local_closures(_cv2(f, src, multi_use=True))  # `let with_rule = |rule, inputs| Arc::new(RelationWithRewritingRule::new(..));` read through
    ps = [p["pat"]["name"] for p in f.params if not p.get("self")]
    acc, deps = ps[0], ps[1]
    arms = dispatch_arms(f)
    # the candidates built by the match must be returned as they are: no post-processing (dedup, truncation, sort+take ...)
    stmts = f.body["stmts"]
    tail = stmts[-1]["e"] if stmts and stmts[-1]["k"] == "expr" and not stmts[-1].get("semi") else None
    the_match = [m for m in find(f.body, "match") if m["e"]["k"] == "mcall" and m["e"]["m"] == "relation"][0]
    bound = {b for st in stmts if st["k"] == "let" and st.get("init") is the_match for b in pat_binds(st["pat"])}
    post = []
    t = tail
    while t is not None and t["k"] == "mcall":
        post.append(t["m"])
        t = t["recv"]
    returned_ok = t is the_match or (t is not None and t["k"] == "path" and t["p"] in bound)
    rep.instance("G2", "select-visitor@return", {"post_processing": list(reversed(post)), "returns_the_candidates": bool(returned_ok)})
    if not returned_ok:
        rep.violation("G2", "select-visitor@return", "the visitor does not return the candidates it enumerated: %s" % show(tail, 120), f.where())
    badpost = [m for m in post if m not in ("into_iter", "iter", "collect", "cloned", "to_vec")]
    if badpost:
        rep.violation("G2", "select-visitor@return", "the enumerated candidates are post-processed by %s before being returned (candidates may be dropped)" % list(reversed(badpost)), f.where())
    for nm in UNARY + BINARY:
        if nm not in arms:
            rep.violation("G2", "select-visitor::" + nm, "no arm for Relation::%s" % nm.capitalize(), f.where())
            continue
        a = arms[nm]
        key = "select-visitor::" + nm
        ev = Origins(deps, acc)
        try:
            el = ev.elem(a["body"], {})
        except Undecided as u:
            rep.undecidable("G2", key, "cannot follow the enumeration: %s" % u, "src/%s:%d" % (RR, a["l"]))
            continue
        rep.instance("G2", key, {"node": nm, "combinators": ev.combinators, "calls": [(m, [repr(x) for x in args]) for m, args in ev.calls], "attached": [repr(n) for n in ev.news]})
        where = "src/%s:%d" % (RR, a["l"])
        want_kids = (0,) if nm in UNARY else (0, 1)
        calls = [c for c in ev.calls if c[0] == nm]
        if len(calls) != 1:
            rep.violation("G2", key, "expected one call of self.%s, found %s" % (nm, [c[0] for c in ev.calls]), where)
            continue
        got = tuple(calls[0][1][2:])
        if got != want_kids:
            rep.violation("G2", key, "self.%s receives children candidates %r instead of %r" % (nm, got, want_kids), where)
        if len(ev.news) != 1:
            rep.violation("G2", key, "expected one RelationWithRewritingRule::new per candidate, found %d" % len(ev.news), where)
            continue
        rr, kids = ev.news[0]
        if rr != ("rule",):
            rep.violation("G2", key, "the attached rule is not an element of the kept rules (%r)" % (rr,), where)
        if kids != ("vec", want_kids):
            rep.violation("G2", key, "attached children are %r instead of %r" % (kids, ("vec", want_kids)), where)
        if el != ("node",):
            rep.violation("G2", key, "the arm does not yield the built candidates", where)
    for nm in LEAF:
        if nm in arms:
            ev = Origins(deps, acc)
            try:
                ev.elem(arms[nm]["body"], {})
                rep.instance("G2", "select-visitor::" + nm, {"node": nm, "attached": [repr(n) for n in ev.news]}, nontrivial=False)
                if len(ev.news) != 1 or ev.news[0][1] != ("vec", ()):
                    rep.violation("G2", "select-visitor::" + nm, "leaf candidates must have no children", "src/%s:%d" % (RR, arms[nm]["l"]))
            except Undecided as u:
                rep.undecidable("G2", "select-visitor::" + nm, "cannot follow: %s" % u, "src/%s:%d" % (RR, arms[nm]["l"]))


def g4(rep, src):
    rep.rule(
        "G4",
        "child order in the generic visitor impls of MapRewritingRulesVisitor and RewriteVisitor: they pass the result of child k (dependencies.get(acceptor.inputs()[k])) as the k-th child argument",
        floor=8,
        necessary="swapping the two children applies a rule's left requirement to the right child: the derivation applied is not the one selected",
    )
    # (the SetRewritingRulesVisitor wrapper is not included: RewritingRulesSetter ignores its child arguments)
    from .canon import inline_local_closures

    for bound in ("MapRewritingRulesVisitor", "RewriteVisitor"):
        f = inline_local_closures(visitor_fn(src, bound))
        if not [m for m in find(f.body, "match") if m["e"]["k"] == "mcall" and m["e"]["m"] == "relation"] or _needs_canon(f, src):
            from .canon import canon_view as _cv3

            f = inline_local_closures(_cv3(f, src, multi_use=True))  # local closures first (above), then locals and helpers
        # `let visited_input = |k| dependencies.get(acceptor.inputs()[k].deref()).clone();` read through
        ps = [p["pat"]["name"] for p in f.params if not p.get("self")]
        acc, deps = ps[0], ps[1]
        arms = dispatch_arms(f)
        for nm in UNARY + BINARY:
            key = "%s::%s" % (bound, nm)
            if nm not in arms:
                rep.violation("G4", key, "no arm for Relation::%s" % nm.capitalize(), f.where())
                continue
            ev = Origins(deps, acc)
            try:
                ev.val(arms[nm]["body"], {})
            except Undecided as u:
                rep.undecidable("G4", key, "cannot follow: %s" % u, "src/%s:%d" % (RR, arms[nm]["l"]))
                continue
            calls = [c for c in ev.calls if c[0] == nm]
            want = (("all", 0),) if nm in UNARY else (("all", 0), ("all", 1))
            rep.instance("G4", key, {"visitor": bound, "node": nm, "child_args": [repr(x) for c in calls for x in c[1][1:]]})
            if len(calls) != 1:
                rep.violation("G4", key, "expected one call of self.%s" % nm, "src/%s:%d" % (RR, arms[nm]["l"]))
                continue
            got = tuple(x for x in calls[0][1] if isinstance(x, tuple) and x and x[0] == "all")
            if got != want:
                rep.violation("G4", key, "children passed as %r instead of %r" % (got, want), "src/%s:%d" % (RR, arms[nm]["l"]))


def g3(rep, src):
    rep.rule(
        "G3",
        "arg-max: both public entry points take, among the candidates kept by the acceptance filter, the maximum (max_by with partial_cmp in argument order, or min_by reversed) of the value computed by `accept(Score)`, "
        "with no truncating combinator in between, and map the empty case to Error::unreachable_property",
        floor=2,
        necessary="min_by / first() / a comparison on the wrong tuple component returns a derivation that is not best-scoring; dropping the error arm reports success or panics when no derivation exists",
    )
    from .canon import canon_view

    for name in ("rewrite_with_differential_privacy", "rewrite_as_privacy_unit_preserving"):
        f = canon_view(src.one_fn(name=name, file="rewriting/mod.rs"), src)  # named intermediate iterators and a private `highest_score(iter)` helper are read through
        stmts = f.body["stmts"]
        tail = stmts[-1]["e"] if stmts and stmts[-1]["k"] == "expr" and not stmts[-1].get("semi") else None
        if tail is None:
            rep.undecidable("G3", name, "no tail expression", f.where())
            continue
        sel = [m for m in find(f.body, "mcall") if m["m"] in ("max_by", "min_by", "max_by_key", "min_by_key", "max", "min", "first", "last", "next", "nth", "find")]
        sample = {"entry": name}
        if len(sel) != 1 or sel[0]["m"] not in ("max_by", "min_by"):
            rep.violation("G3", name, "expected one max_by/min_by selection, found %s" % [m["m"] for m in sel], f.where())
            rep.instance("G3", name, sample)
            continue
        s = sel[0]
        # the chain from the candidate list to the selection (through named locals)
        chain, r = [], s["recv"]
        for _ in range(40):
            if r["k"] == "mcall":
                chain.append(r)
                r = r["recv"]
            elif r["k"] == "path" and len(r["segs"]) == 1:
                lets = [l for l in find(f.body, "let") if l["pat"]["k"] == "ident" and l["pat"]["name"] == r["segs"][0] and l.get("init") is not None]
                if len(lets) != 1:
                    break
                r = lets[0]["init"]
            else:
                break
        names = [m["m"] for m in reversed(chain)]
        sample["chain"] = names + [s["m"]]
        allowed = {"set_rewriting_rules", "map_rewriting_rules", "select_rewriting_rules", "into_iter", "iter", "filter_map", "filter", "map", "collect"}
        bad = [n for n in names if n not in allowed]
        if "select_rewriting_rules" not in names:
            rep.undecidable("G3", name, "the selection is not made over the result of select_rewriting_rules(..): %s" % names, f.where())
            continue
        if bad:
            rep.violation("G3", name, "combinator(s) %s between the candidate list and the selection" % bad, f.where())
        cl = s["args"][0]
        # which tuple component carries the score: position of `.accept(Score)` in the tuple built by the filter_map / map closure
        score_pos = None
        for m in chain:
            if m["m"] in ("filter_map", "map") and m["args"] and m["args"][0]["k"] == "closure":
                clo = m["args"][0]
                loc = {l["pat"]["name"]: l["init"] for l in find(clo["body"], "let") if l["pat"]["k"] == "ident" and l.get("init") is not None}
                for t in find(clo["body"], "tuple"):
                    for i, x in enumerate(t["elems"]):
                        if x["k"] == "path" and len(x["segs"]) == 1 and x["segs"][0] in loc:
                            x = loc[x["segs"][0]]
                        if x["k"] == "mcall" and x["m"] == "accept" and any(path_of(a_) == "Score" for a_ in x["args"]):
                            score_pos = i
        if cl["k"] != "closure" or len(cl["params"]) != 2 or score_pos is None:
            rep.undecidable("G3", name, "cannot read the comparison closure / the score position", f.where())
            continue

        def comp_name(p):
            while p["k"] == "ref":
                p = p["pat"]
            if p["k"] == "tuple" and len(p["elems"]) > score_pos and p["elems"][score_pos]["k"] == "ident":
                return p["elems"][score_pos]["name"]
            return None

        x, y = comp_name(cl["params"][0]), comp_name(cl["params"][1])
        cmpc = [c for c in find(cl["body"], "mcall") if c["m"] in ("partial_cmp", "total_cmp", "cmp")]
        if x is None or y is None or len(cmpc) != 1:
            rep.undecidable("G3", name, "cannot read the comparison %s" % show(cl, 120), f.where())
            continue
        a, b = path_of(strip(cmpc[0]["recv"])), path_of(strip(cmpc[0]["args"][0]))
        sample.update({"select": s["m"], "compare": "%s.%s(%s)" % (a, cmpc[0]["m"], b), "score_component": score_pos})
        rep.instance("G3", name, sample)
        forward = (a, b) == (x, y)
        backward = (a, b) == (y, x)
        if not (forward or backward):
            rep.violation("G3", name, "the selection does not compare the Score components of the two candidates (%s vs %s)" % (a, b), f.where())
        elif (s["m"] == "max_by") != forward:
            rep.violation("G3", name, "the selection takes the MINIMUM score (%s with %s.%s(%s))" % (s["m"], a, cmpc[0]["m"], b), f.where())
        if any(c["m"] == "reverse" for c in find(cl["body"], "mcall")):
            rep.violation("G3", name, "comparison reversed", f.where())
        # the empty case: the value returned when the selection yields None is Err(Error::unreachable_property(..))
        holds_sel = any(x_ is s for x_ in walk(tail))
        if not holds_sel or "unreachable_property" not in show(tail, 0) or not any((x_["k"] == "mcall" and x_["m"] in ("ok_or_else", "ok_or")) or (x_["k"] == "call" and path_of(x_["f"]) == "Err") for x_ in walk(tail)):
            rep.violation("G3", name, "the empty case is not reported as Error::unreachable_property", f.where())


def _structural_eq(src):
    """RelationWithAttributes compares structurally: PartialEq, Eq and Hash all come from #[derive] and none is written by hand."""
    st = [it for (_f, _m, it) in src.find_items("struct", name="RelationWithAttributes", file="rewriting/relation_with_attributes.rs")]
    if len(st) != 1:
        return False
    derived = set()
    for a in st[0].get("attrs", []):
        if a.replace(" ", "").startswith("derive("):
            derived |= set(x.strip().split("::")[-1] for x in a[a.index("(") + 1 : a.rindex(")")].split(","))
    if not {"PartialEq", "Eq", "Hash"} <= derived:
        return False
    for (_f, _m, im) in src.impls:
        if (im.get("trait") or "").split("::")[-1].split("<")[0] in ("PartialEq", "Hash") and (im.get("self_ty") or "").startswith("RelationWithAttributes"):
            return False
    return True


def g5(rep, src):
    rep.rule(
        "G5",
        "the driver methods RelationWithRewritingRules::{select_rewriting_rules, map_rewriting_rules} and Relation::set_rewriting_rules return what their visitor computed (accept + identity/clone combinators only; "
        "`.unique()` is tolerated only while RelationWithAttributes compares structurally, i.e. PartialEq/Eq/Hash are all derived, so that only exact duplicates of a candidate are merged)",
        floor=3,
        necessary="a truncating or de-duplicating combinator here drops consistent derivations before the arg-max",
    )
    for nm in ("select_rewriting_rules", "map_rewriting_rules", "set_rewriting_rules"):
        f = src.one_fn(name=nm, file=RR)
        ms = [m["m"] for m in find(f.body, "mcall")]
        bad = [m for m in ms if m not in ("accept", "into_iter", "iter", "map", "collect", "cloned", "clone", "deref", "to_vec")]
        if "unique" in bad and all(not m["args"] for m in find(f.body, "mcall") if m["m"] == "unique") and _structural_eq(src):
            # `.unique()` with the derived (structural) Eq/Hash of the node type only removes exact duplicates of a candidate:
            # the arg-max over the remaining ones is unchanged.  With a hand-written (coarser) equality it merges distinct derivations.
            bad = [m for m in bad if m != "unique"]
        rep.instance("G5", nm, {"fn": nm, "methods": ms})
        if "accept" not in ms:
            rep.violation("G5", nm, "%s does not run its visitor (no accept call)" % nm, f.where())
        if bad:
            rep.violation("G5", nm, "%s post-processes the visitor's result with %s" % (nm, bad), f.where())


ACCEPTABLE = {
    # labels that give the guarantee the request asks for (reviewed against the doc comments of Property and of the entry points)
    "rewrite_with_differential_privacy": {"Public", "Published", "DifferentiallyPrivate", "SyntheticData"},
    "rewrite_as_privacy_unit_preserving": {"Public", "PrivacyUnitPreserving"},
}
# the ranking the score encodes: exact data beats a DP result, which beats a privacy-unit-preserving intermediate,
# which beats falling back on synthetic data / re-using a published result; Private scores nothing
SCORE_ORDER = [("Public", "DifferentiallyPrivate"), ("DifferentiallyPrivate", "PrivacyUnitPreserving"), ("PrivacyUnitPreserving", "SyntheticData"),
               ("PrivacyUnitPreserving", "Published"), ("SyntheticData", "Private"), ("Published", "Private")]
PROPS = ("Private", "SyntheticData", "PrivacyUnitPreserving", "DifferentiallyPrivate", "Published", "Public")


def prop_arms(m):
    """match on a Property -> {variant: arm body}, default arm body"""
    out, default = {}, None
    for a in m["arms"]:
        pats = a["pat"]["cases"] if a["pat"]["k"] == "or" else [a["pat"]]
        for p in pats:
            if p["k"] == "wild":
                default = a["body"]
            else:
                pn = (path_of(p) or show(p, 0)).split("::")[-1]
                out[pn] = a["body"]
    return out, default


def g6(rep, src):
    rep.rule(
        "G6",
        "acceptable roots: the filter of each entry point keeps exactly the reviewed set of root labels (DP request: Public, Published, DifferentiallyPrivate, SyntheticData; "
        "privacy-unit request: Public, PrivacyUnitPreserving), guarded by nothing else",
        floor=2,
        necessary="a missing label makes the compiler report 'unreachable' although a consistent derivation with an acceptable root exists (a public-only query under a DP request); an extra label returns a rewriting whose root is not acceptable",
    )
    from .util_accept import acceptance, Undecided as _AU

    for name, want in ACCEPTABLE.items():
        f = src.one_fn(name=name, file="rewriting/mod.rs")
        try:
            acc, _outside, stages = acceptance(f, src)  # the filter / filter_map chain over the candidates evaluated for every root label (util_accept.py)
        except _AU as u:
            rep.undecidable("G6", name, "the acceptance filter cannot be evaluated as a function of the root label: %s" % u, f.where())
            continue
        rep.instance("G6", name, {"entry": name, "accepted": sorted(acc), "expected": sorted(want), "stages": stages})
        for v in sorted(want - acc):
            rep.violation("G6", name + ":missing:" + v, "%s refuses root label %s: a request with such a derivation is reported unreachable" % (name, v), f.where())
        for v in sorted(acc - want):
            rep.violation("G6", name + ":extra:" + v, "%s accepts root label %s, which does not give the requested guarantee" % (name, v), f.where())


def g7(rep, src):
    rep.rule(
        "G7",
        "score: Score::visit is additive over ALL children (fold over acceptor.inputs() adding dependencies.get(child)) starting from a weight chosen by the node's own output label, "
        "and the weights respect the reviewed ranking Public > DifferentiallyPrivate > PrivacyUnitPreserving > {SyntheticData, Published} > Private = 0",
        floor=1 + len(SCORE_ORDER),
        necessary="the arg-max of G3 is only 'best-scoring' if the number it compares is the documented score; a weight table that ranks a Published/synthetic fallback like exact public data selects a derivation that a strictly better one beats",
    )
    fs = [f for f in src.find_fns(name="visit", file=RR) if (f.self_ty or "").endswith("Score")]
    if len(fs) != 1:
        rep.error("G7: expected one Score::visit, found %d" % len(fs))
        return
    from .canon import canon_view

    from .canon import accumulate_loop_as_fold

    f = canon_view(accumulate_loop_as_fold(fs[0]), src, helpers=False)  # `let own_score = match ..output() {..}; inputs.fold(own_score, ..)` (or the loop form of that fold) is read through
    folds = [m for m in find(f.body, "mcall") if m["m"] == "fold"]
    if len(folds) != 1 or len(folds[0]["args"]) != 2:
        rep.undecidable("G7", "Score::visit", "not a single fold", f.where())
        return
    fold = folds[0]
    recv = show(fold["recv"], 0).replace(" ", "")
    init, cl = fold["args"]
    if init["k"] == "path" and len(init["segs"]) == 1:
        li = [l for l in find(f.body, "let") if l["pat"]["k"] in ("ident", "typed") and (l["pat"] if l["pat"]["k"] == "ident" else l["pat"]["pat"]).get("name") == init["segs"][0] and l.get("init") is not None]
        if len(li) == 1:
            init = li[0]["init"]
    ok_recv = recv in ("acceptor.inputs().iter()", "acceptor.inputs().into_iter()")
    cb = cl["body"] if cl["k"] == "closure" else None
    while cb is not None and cb["k"] == "block" and len(cb["stmts"]) == 1 and cb["stmts"][0]["k"] == "expr":
        cb = cb["stmts"][0]["e"]
    body = show(cb, 0).replace(" ", "") if cb is not None else ""
    ps = [p.get("name") for p in cl.get("params", [])] if cl["k"] == "closure" else []
    ok_add = len(ps) == 2 and body in ("%s+dependencies.get(%s.deref())" % (ps[0], ps[1]), "%s+dependencies.get(%s)" % (ps[0], ps[1]), "dependencies.get(%s.deref())+%s" % (ps[1], ps[0]))
    rep.instance("G7", "Score::visit:additive", {"over": recv, "step": body})
    if not ok_recv:
        rep.violation("G7", "Score::visit:additive", "the score does not fold over all of acceptor.inputs() (%s)" % recv, f.where())
    if not ok_add:
        rep.violation("G7", "Score::visit:additive", "the fold step is not sum + dependencies.get(child): %s" % body, f.where())
    if init["k"] != "match" or "acceptor.attributes().output()" not in show(init["e"], 0).replace(" ", ""):
        rep.undecidable("G7", "Score::visit:weights", "the initial value is not a match on the node's own output label", f.where())
        return
    arms, default = prop_arms(init)
    w = {}
    for v in PROPS:
        b = arms.get(v, default)
        try:
            w[v] = float(show(b, 0).strip().rstrip("f64").rstrip("_")) if b is not None else None
        except ValueError:
            w[v] = None
    if any(x is None for x in w.values()):
        rep.undecidable("G7", "Score::visit:weights", "non-literal weight: %s" % w, f.where())
        return
    for hi, lo in SCORE_ORDER:
        key = "Score:%s>%s" % (hi, lo)
        rep.instance("G7", key, {"hi": hi, "lo": lo, "weights": [w[hi], w[lo]]})
        if not (w[hi] > w[lo]):
            rep.violation("G7", key, "Score ranks %s (%s) not above %s (%s)" % (hi, w[hi], lo, w[lo]), f.where())
    if w["Private"] != 0:
        rep.violation("G7", "Score:Private=0", "a Private node contributes %s to the score" % w["Private"], f.where())


# ------------------------------------------------------------------------------------------------ G8
# reviewed: which rule set each entry point searches.  ("caller_or", V): the caller's Some(s) is used as is, None means V.
ENTRY_STRATEGY = {
    "rewrite_as_privacy_unit_preserving": ("caller_or", "Hard"),  # documented on the entry point: "If a Strategy is not passed the Strategy::Hard will be used"
    "rewrite_with_differential_privacy": ("const", "Hard"),  # no strategy parameter: the complete (Hard) rule set
}


class _G8Undecided(Exception):
    pass


def _default_variant(src, enum):
    items = src.find_items("enum", name=enum)
    items = [it for it in items if not it[2].get("test")]
    if len(items) != 1:
        raise _G8Undecided("enum %s: expected one definition, found %d" % (enum, len(items)))
    dv = [v["name"] for v in items[0][2]["variants"] if "default" in (v.get("attrs") or [])]
    if len(dv) != 1:
        raise _G8Undecided("enum %s has no single #[default] variant (a hand-written `impl Default` is not read)" % enum)
    return dv[0]


def _strategy_value(e, env, src):
    """abstract value of an expression of type Strategy / Option<Strategy>: ("const", V) | ("opt",) | ("caller",) | ("caller_or", V)"""
    k = e["k"]
    if k in ("paren", "ref") or (k == "unary" and e["op"].strip() in ("*", "&")):
        return _strategy_value(e["e"], env, src)
    if k == "block" and len(e["stmts"]) == 1 and e["stmts"][0]["k"] == "expr" and not e["stmts"][0].get("semi"):
        return _strategy_value(e["stmts"][0]["e"], env, src)
    if k == "path":
        segs = e["segs"]
        if len(segs) == 1 and segs[0] in env:
            return env[segs[0]]
        if len(segs) >= 2 and segs[-2] == "Strategy":
            return ("const", segs[-1])
        raise _G8Undecided("the path `%s`" % "::".join(segs))
    if k == "call":
        p = path_of(e["f"]) or ""
        if p in ("Strategy::default", "Default::default") and not e["args"]:
            return ("const", _default_variant(src, "Strategy"))
        raise _G8Undecided("the call `%s`" % show(e, 60))
    if k == "mcall":
        m, args = e["m"], e["args"]
        if m in ("clone", "to_owned") and not args:
            return _strategy_value(e["recv"], env, src)
        r = _strategy_value(e["recv"], env, src)
        if r == ("opt",):
            if m == "unwrap_or" and len(args) == 1:
                d = _strategy_value(args[0], env, src)
            elif m == "unwrap_or_else" and len(args) == 1 and args[0]["k"] == "closure" and not args[0]["params"]:
                d = _strategy_value(args[0]["body"], env, src)
            elif m == "unwrap_or_default" and not args:
                d = ("const", _default_variant(src, "Strategy"))
            elif m == "map_or" and len(args) == 2 and args[1]["k"] == "closure" and len(args[1]["params"]) == 1:
                cp = args[1]["params"][0]
                if cp["k"] != "ident" or _strategy_value(args[1]["body"], {cp["name"]: ("caller",)}, src) != ("caller",):
                    raise _G8Undecided("`%s`" % show(e, 60))
                d = _strategy_value(args[0], env, src)
            else:
                raise _G8Undecided("`.%s(..)` on the caller's option" % m)
            if d[0] != "const":
                raise _G8Undecided("the fallback `%s`" % show(e, 60))
            return ("caller_or", d[1])
        raise _G8Undecided("`%s`" % show(e, 60))
    if k == "match" or (k == "if" and e["cond"]["k"] == "letcond"):
        if k == "match":
            scrut = _strategy_value(e["e"], env, src)
            arms = [(a["pat"], a["body"], a.get("guard")) for a in e["arms"]]
        else:
            scrut = _strategy_value(e["cond"]["e"], env, src)
            if e.get("else") is None:
                raise _G8Undecided("if-let without else")
            arms = [(e["cond"]["pat"], e["then"], None), ({"k": "wild"}, e["else"], None)]
        if scrut != ("opt",):
            raise _G8Undecided("`%s`" % show(e, 60))
        some = none = None
        for pat, body, guard in arms:
            if guard:
                raise _G8Undecided("guarded arm")
            if pat["k"] == "tuplestruct" and pat["path"]["segs"][-1] == "Some" and len(pat["elems"]) == 1 and pat["elems"][0]["k"] == "ident":
                if some is None:
                    some = _strategy_value(body, dict(env, **{pat["elems"][0]["name"]: ("caller",)}), src)
            elif pat["k"] in ("wild",) or (pat["k"] in ("path", "ident") and (pat.get("segs") or [pat.get("name")])[-1] == "None"):
                if none is None:
                    none = _strategy_value(body, env, src)
            else:
                raise _G8Undecided("arm `%s`" % show(pat, 40))
        if some == ("caller",) and none and none[0] == "const":
            return ("caller_or", none[1])
        raise _G8Undecided("`%s`" % show(e, 60))
    raise _G8Undecided("`%s`" % show(e, 60))


def g8(rep, src):
    rep.rule(
        "G8",
        "rule set searched: the strategy each entry point hands to RewritingRulesSetter::new is the caller's `Some(s)`, and Strategy::Hard when the caller passes None "
        "(rewrite_as_privacy_unit_preserving, as documented) / Strategy::Hard (rewrite_with_differential_privacy) - read through unwrap_or / unwrap_or_else / unwrap_or_default (the #[default] variant) / match / if-let",
        floor=2,
        necessary="the rules attached to every node depend on the strategy: with Soft as the silent default a GROUP BY on a protected table or a join of two protected tables has no PUP rule, "
        "and a request without strategy is reported unreachable although a consistent assignment with an acceptable root exists for the documented default",
    )
    for name, want in ENTRY_STRATEGY.items():
        f = src.one_fn(name=name, file="rewriting/mod.rs")
        env = {}
        for pr in f.params:
            pt = pr.get("pat") or {}
            if pt.get("k") == "ident" and "Strategy" in (pr.get("ty") or ""):
                env[pt["name"]] = ("opt",) if (pr.get("ty") or "").replace(" ", "").startswith("Option<") else ("caller",)
        got = None
        try:
            for st in f.body["stmts"]:
                calls = [c for c in find(st, "call") if (path_of(c["f"]) or "").endswith("RewritingRulesSetter::new")]
                if calls:
                    if len(calls) != 1 or len(calls[0]["args"]) != 5:
                        raise _G8Undecided("RewritingRulesSetter::new is not called once with five arguments")
                    got = _strategy_value(calls[0]["args"][4], env, src)
                    break
                if st["k"] == "let" and st["pat"]["k"] == "ident" and st.get("init") is not None:
                    nm = st["pat"]["name"]
                    try:
                        env[nm] = _strategy_value(st["init"], env, src)
                    except _G8Undecided:
                        env.pop(nm, None)
            if got is None:
                raise _G8Undecided("no statement of the entry point calls RewritingRulesSetter::new")
        except _G8Undecided as u:
            rep.undecidable("G8", name, "the strategy handed to RewritingRulesSetter::new cannot be read: %s" % u, f.where())
            continue
        if got == ("caller",):
            got = ("caller_or", None)
        rep.instance("G8", name, {"entry": name, "strategy": list(got), "expected": list(want)})
        if got != want:
            def say(v):
                return "Strategy::%s" % v[1] if v[0] == "const" else "the caller's strategy, Strategy::%s when none is passed" % v[1]
            rep.violation("G8", name + "@strategy", "%s searches the rule set of %s; reviewed: %s" % (name, say(got), say(want)), f.where())


def g9(rep, src):
    """Every aggregate for which the setter attaches the PUP -> DP rule is one the DP applier builds a column for."""
    rep.rule(
        "G9",
        "sibling agreement: the aggregates RewritingRulesSetter::reduce accepts for the rule `PrivacyUnitPreserving -> DifferentiallyPrivate` (arms of its `match f.aggregate()` that do not answer false) "
        "each have an explicit arm in the `match aggregate.aggregate()` of PupRelation::differentially_private_aggregates (a DISTINCT variant through its plain twin, which rewrite_distinct substitutes)",
        floor=10,
        necessary="a rule the setter attaches and the applier cannot carry out: `SELECT a, MIN(a), COUNT(b) FROM t GROUP BY a` has a consistent derivation, both entry points rewrite every acceptable candidate before "
        "scoring, and the applier builds the DP relation without the MIN column - the rewriting aborts instead of returning that derivation",
    )

    def variants(p):
        out = []
        for c in (p["cases"] if p["k"] == "or" else [p]):
            if c["k"] in ("path", "tuplestruct", "struct"):
                segs = c["segs"] if c["k"] == "path" else c["path"]["segs"]
                if "Aggregate" in segs[:-1]:
                    out.append(segs[-1])
            elif c["k"] in ("wild", "ident"):
                out.append("_")
        return out

    fs = [f for f in src.find_fns(name="reduce", file=RR) if (f.self_ty or "").startswith("RewritingRulesSetter") and f.body]
    fa = [f for f in src.find_fns(name="differentially_private_aggregates", file="differential_privacy/aggregates.rs") if (f.self_ty or "") == "PupRelation" and f.body]
    if len(fs) != 1 or len(fa) != 1:
        rep.undecidable("G9", "aggregates", "RewritingRulesSetter::reduce / PupRelation::differentially_private_aggregates not found (%d, %d)" % (len(fs), len(fa)), "src/" + RR)
        return
    from .canon import canon_view

    ms = [m for m in find(canon_view(fs[0], src, lets=False).body, "match") if m["e"]["k"] == "mcall" and m["e"]["m"] == "aggregate"]
    ma = [m for m in find(fa[0].body, "match") if m["e"]["k"] == "mcall" and m["e"]["m"] == "aggregate"]
    if len(ms) != 1 or len(ma) != 1:
        rep.undecidable("G9", "aggregates", "expected one `match <x>.aggregate()` on each side, found %d in the setter and %d in the applier" % (len(ms), len(ma)), fs[0].where())
        return
    accepted = []
    for a in ms[0]["arms"]:
        b = a["body"]
        while b["k"] == "block" and len(b["stmts"]) == 1 and b["stmts"][0]["k"] == "expr":
            b = b["stmts"][0]["e"]
        if b["k"] == "lit" and b.get("v") is False:
            continue
        accepted += [v for v in variants(a["pat"]) if v != "_"]
        if "_" in variants(a["pat"]):
            rep.undecidable("G9", "aggregates@setter-default", "the default arm of the setter's table accepts aggregates it does not name", "src/%s:%d" % (RR, a["l"]))
    handled = set()
    for a in ma[0]["arms"]:
        vs = variants(a["pat"])
        if "_" in vs:
            continue
        handled |= set(vs)
    for v in accepted:
        twin = v[: -len("Distinct")] if v.endswith("Distinct") else v
        key = "aggregates@" + v
        rep.instance("G9", key, {"aggregate": v, "applier_arm": twin if twin in handled else None}, nontrivial=False)
        if twin not in handled:
            rep.violation("G9", key, "the setter attaches PUP -> DP to a reduce with Aggregate::%s but differentially_private_aggregates has no arm for Aggregate::%s: the column is not built and the rewriting aborts" % (v, twin), fa[0].where())


def run(rep):
    rep.explanation = (
        "Arm/term tables of the rewriting search read from the syn AST: positional agreement of selector and eliminator predicates (G1), "
        "cartesian enumeration and child attachment in the generic select visitor (G2), arg-max over Score at both entry points (G3), child order in the generic visitor impls (G4). "
        "Decides the 'well-typed' and 'best-scoring among enumerated' clauses; completeness over all trees (a rewriting is returned exactly when a consistent assignment exists) is NOT decided."
    )
    src = Src(facts.src_facts())
    g1(rep, src)
    g2(rep, src)
    g3(rep, src)
    g4(rep, src)
    g5(rep, src)
    g6(rep, src)
    g7(rep, src)
    g8(rep, src)
    g9(rep, src)
    rep.assume("Visited::get returns the value computed for that child (visitor.rs, not analysed)")
