"""Per-property claims (source of MANIFEST.json; regenerate with tools/gen_manifest.py)."""

NOTES = (
    "Technique family: static analysis only. Every check re-extracts facts from /repo's current working tree (cached by content hash) "
    "and decides repository-specific structural rules; no registered check executes Qrlew code, its tests, or SQL. "
    "Each claim is the structural clause named in level_claimed.text (a necessary condition of the behavioural property), not the behaviour itself; see DESIGN.md."
)

CHECKS = {
    "C01": {
        "technique": "symbolic builder-term extraction + rational normaliser over the syn AST (clip factor, norm pipeline), positional def-use of the clipping constant, arm table of absolute_upper_bound",
        "level": "Decides the structural clauses of the sensitivity bound: one clipping constant feeds both the clip and the Gaussian sigma (S1), the per-unit L2 norm over all groups is computed before scaling and the scaled rows are what is summed (S2), "
                 "the clip factor normalises to 1/max(1, n/C) with the C=0 branch 0 (S3), the absolute bound is never negative and is computed without i64 overflow (S4; its magnitude is decided under C09/W5). Execution of the produced SQL on neighbouring databases is not decided.",
        "design_ref": "DESIGN.md §3 C01",
        "note": "Trusted: the Function variants denote what their names say; SQL engines evaluate the produced relation as the term denotes; privacy-unit tracking (C05) delivers the unit column.",
    },
    "C03": {
        "technique": "flow-sensitive MIR dataflow of DpEvent carriers (must-reach the return place on every normal path) + AST term rules for budget agreement and conservation",
        "level": "Decides that no DpEvent produced in the DP / rewriting code is discarded on a normally returning path (V1), that each Gaussian / tau mechanism site reports an event built from a budget at least the one it used (V2), "
                 "that shares and splits conserve the budget handed down (V3), and that gaussian_noise / gaussian_noise_multiplier have the closed form of the classical calibration with a saturating-only clamp (V4), and that the event algebra never loses a mechanism: compose returns one operand only when the other is a no-op and is_no_op looks at every entry of a composed event (V5), and that the sampler is the Box-Muller term over two separate draws scaled by sigma (V6). Adequacy of that bound itself is not decided.",
        "design_ref": "DESIGN.md §3 C03",
        "note": "Trusted: rustc MIR (mir-opt-level 0); helper-moved mechanisms fail closed as UNDECIDED; over-reporting is not a violation.",
    },
    "C04": {
        "technique": "AST def-use / lineage evaluation of the tau-thresholding pipeline, closed-term check of the tau formula, MIR def-use of builder call order",
        "level": "Decides parameter agreement of cap/noise/tau/event (K1), the pipeline order dedupe->cap->count->noise->filter->project on every non-error return (K2), strict lower-bound filter on the noisy count (K3), the public-values gate (K4), "
                 "aggregation over the join with released keys (K5), the closed form of tau (K6), that no builder restores the unprotected input (B1) that no filter is applied to a still-empty builder, where it would be dropped (B2) and that every Map re-builder re-applies filter / order_by / limit / offset unconditionally (B3), and that the contribution cap ranks the rows of a unit by a self-join on one random column and keeps those ranked <= max (K7), that the relation-level noise step adds the noise to every listed column (K8) and that Reduce re-builders keep the GROUP BY (B4). Randomness and SQL semantics of the produced relation are not decided.",
        "design_ref": "DESIGN.md §3 C04",
        "note": "Trusted: Relation::unique does what its name says (body not analysed); statrs Normal::inverse_cdf.",
    },
    "C05": {
        "technique": "AST term/arm tables of PrivacyUnitTracking and JoinBuilder::and, MIR aggregate facts for the PupRelation typestate, MIR def-use of builder call order, sibling cross-check of the protected-table predicate",
        "level": "Decides the structural necessary conditions of 'a tracked row depends only on its own unit': unit-id equality ANDed onto the original operator (Y1), tracked-side columns in published joins (Y1b), group-by-unit under Hard / refusal under Soft with a grouping call that is effective whatever outputs were added before (Y2), "
                 "closed PupRelation typestate (Y3), inner FK join on the right ids (Y4), JoinBuilder::and covers every ON-carrying join kind (Y5), map/set carry the unit columns (Y6), non-null output unit id for every row the join kind keeps (Y7), chaining of foreign-key hops (Y8), the row pseudo-column materialised before it is fetched (Y9), builder order (B1), setter/tracker agreement (T5).",
        "design_ref": "DESIGN.md §3 C05",
        "note": "Not decided: 'exactly the rows of D restricted to u' over all databases.",
    },
    "C06": {
        "technique": "abstract interpretation of closure ASTs (monotonicity class x sign/range per declared piece) against a reviewed transfer table; normal-form comparison of the constructor plumbing, aggregate-image idioms, corner hull and wrapper fallbacks",
        "level": "Decides the soundness premise of box-image propagation for every PartitionnedMonotonic site: the closure is separately monotone on every declared piece and the pieces cover the domain (M, P), aggregate images hull the element set (A), "
                 "super_image takes least/greatest over all corners (O2), wrappers fall back to the co-domain (O), Pointwise / PartitionnedMonotonic refuse a set outside their domain through their own test or through guarded injections (D), products of interval sets are united / intersected coordinate by coordinate (T), optional flags are the disjunction of all children (O3), sibling arms of one SQL function compute the same operator (S), value enumerations are not truncated (N1). Exhaustive over the function table; numeric adequacy of hand-written aggregate bounds is not decided.",
        "design_ref": "DESIGN.md §3 C06",
        "note": "Trusted: the reviewed transfer table (qv/c06_rules.py, one mathematical reason per line); unknown operations fail closed.",
    },
    "C07": {
        "technique": "interval / finite-set abstract interpretation of Pointwise closures against a chrono/SQL range table; arm tables of join nullability; extracted size terms evaluated against closed-form row-count bounds on a parameter grid",
        "level": "Decides that declared co-domains contain the closure ranges (R), that outer-join nullability and ON-narrowing follow the join kind (Z1), that the stored size interval contains the possible row counts for every node kind (Z2) "
                 "and that set-operation column types contain both inputs where needed (Z3). Data-dependent clauses of the property are not decided.",
        "design_ref": "DESIGN.md §3 C07",
        "note": "Trusted: the range table qv/c07_ranges.py (chrono 0.4 semantics); uniqueness flags are assumed right (C14).",
    },
    "C09": {
        "technique": "symbolic evaluation of the aggregate recombination to terms + rational normaliser (equality up to algebra, with distinguishing valuations), DISTINCT classification tables, cross-site size provenance",
        "level": "Decides that, per Aggregate arm, the output term over the noisy sums equals the textbook recombination (W1), that DISTINCT aggregates are rewritten to their twins over a de-duplicating group-by (W2) that the data-set size bounding the multiplicity is the input's (W3), that each DISTINCT split is aggregated over its own input (W4) and that the clipping bound of a column is max(|min|, |max|) through any depth of Optional (W5). "
                 "Group completeness, NULL handling by engines and floating-point error are not decided.",
        "design_ref": "DESIGN.md §3 C09",
        "note": "Trusted: C01's pipeline delivers exact sums when sigma=0 and no norm exceeds C.",
    },
    "C10": {
        "technique": "symbolic evaluation of match arms into name-free terms; arm tables of filter_by_function / filter_by_join_operator / filter leaves judged against 'contains every satisfying row'",
        "level": "Decides for every arm of the narrowing functions that the returned type is built only from operations that keep every satisfying row (union for Or, own-side greatest/least for comparisons, intersection for Eq/InList, unchanged defaults, preserved outer side). "
                 "Soundness of greatest/least/intersection/super_image themselves is C06/C11.",
        "design_ref": "DESIGN.md §3 C10",
        "note": "Unknown row-set terms fail closed (UNDECIDED).",
    },
    "C11": {
        "technique": "MIR who-may-write facts for the interval vector and return-place dominance in the two mutators; AST rules for hull construction; simulated ordered match over all variant pairs for the four lattice operations",
        "level": "Decides encapsulation of the interval-set invariant (L1), that simplification returns self or the min/max hull (L2), conservative defaults and neutral/absorbing elements of the cross-variant dispatch over all 21x21 pairs (L3) the conversion direction of cross-variant arms (L4), component-wise composite operations (L5), least/greatest Bound values (L6), an order on interval sets that is inclusion (L7), same-variant union / intersection of the interval-set variants (L8), container inclusion as the conjunction of whole-component inclusions (L9), container membership tested on every component (L10) and untruncated value enumerations (N1). "
                 "Index arithmetic of union/intersection and per-variant laws over values are not decided.",
        "design_ref": "DESIGN.md §3 C11",
        "note": "L1(d) compile-fail witnesses are in /verif/witness (thorough tier).",
    },
    "C08": {
        "technique": "join of the renderer table (variant -> translator method -> SQL spelling, from type-resolved MIR switch/const facts) with the reader table (SQL name -> operator, from the syn AST); positional slot tables of the CTE renderer; oracle table of standard SQL names",
        "level": "Decides, for every operator the SQL reader can produce, that it is rendered without abort (E3) under a spelling the reader maps back to the same operator (E4), that standard SQL names have their standard meaning (E5), that every component of a relation node and every alias is rendered "
                 "inside the node's CTE (E7, E8), that operator operands are parenthesised (E9), that GROUP BY prefers input columns over aliases (E10), that the builders keep the WHERE on every split shape (E11), that nested CASE is merged in order (E12) that CTE lists of binary nodes are merged through one set (E13), that float literals are written with round-trip precision (E14), that the Map/Reduce split keeps the order of select items (E15) that CTE definitions are spelled like their references (E16), that literals are rendered through exact (transparent) Display impls (E17), that a name becomes a one-component identifier (E18), that the default sort direction is ascending on both sides (E19) and that in every dialect the columns of a Map / Reduce CTE are named by the column list or by aliases that survive the dialect's hooks (E8), that the trailing SELECT of a node does not re-apply OFFSET / WHERE / GROUP BY (E7), that join kinds are the same on both sides of the renderer and of the reader (E20) that base tables are named by their path (E21), that the operands of a set operation are read in the order written (E22) that the column list of every CTE that has one is recorded (E23), that negated predicates are read with their negation (E25), that ORDER BY / LIMIT / OFFSET are skipped only when all three are absent (E26) and that unaliased column references keep their own name (E27). Execution on databases, name resolution as a whole and the Map/Reduce split are not decided.",
        "design_ref": "DESIGN.md §3 C08",
        "note": "Trusted: sqlparser parses NAME(args) into a Function node of that name (keyword functions listed); operators map to same-named ast operators.",
    },
    "C12": {
        "technique": "arm-table parity of super_image / value over the syn AST, must-pass-through of the checked_* guards, MIR cast facts with dominating round-trip tests, reviewed table of the 14 primitive pairs",
        "level": "Decides set/value parity of the 24 dispatching injections (J1), that primitive values and images go through the checked guards (J2), that lossy numeric casts are dominated by a round-trip test (J3), that narrowing / non-monotone conversions can refuse and only map single values (J4), untruncated value enumerations (N1), a single value-conversion entry point (J5) text renderings that print a wrapper only through a transparent Display (J6), a full-type (or refusing) fallback image for sets that are not enumerated (J4) inner injections that go from the domain side to the co-domain side (J7) and per-variant tables of DataType (minimal_subset / maximal_superset / try_empty) that dispatch every payload-carrying variant (J8) and an empty-type co-domain accepted only for the empty set (J9). "
                 "Injectivity of format!-based renderings and composite liftings over all values are not decided.",
        "design_ref": "DESIGN.md §3 C12",
        "note": "Trusted: the reviewed classification of primitive pairs (PAIRS in qv/c12.py); a new pair is UNDECIDED.",
    },
    "C14": {
        "technique": "audit of the bijection list against a reviewed injective table, decision-term extraction of Reduce::schema_aggregate, flag pairing in Join::schema, who-may-attach-a-constraint inventory (syn AST)",
        "level": "Decides that uniqueness is only propagated through functions reviewed as injective (U1), that a group key's UNIQUE depends on the grouping, with one convention shared by the builders that emit First(..) and the schema that reads them (U2), that join constraints are kept under the other side's key uniqueness with both sides involved (U3), that Values is UNIQUE only when literals are distinct (U4), that the key predicate is true exactly for Unique / PrimaryKey (U5) that no other site attaches constraints (U0), that constraints are read through an exact field lookup (H8) and that MS SQL draws random() once per row (U7).",
        "design_ref": "DESIGN.md §3 C14",
        "note": "Trusted: base tables honour their constraints; floating-point collisions of exp/ln/sqrt and md5 collisions accepted by the reviewed table.",
    },
    "C15": {
        "technique": "simulation of the Found fold and of the Found->Option conversion on all states, call-order/arm tables of Hierarchy lookups, arm table of USING/NATURAL coalescing (syn AST)",
        "level": "Decides that ambiguity is absorbing and only a single suffix match yields a result (H1), that the exact lookup precedes the suffix search and every accessor goes through it over an ordered map (H2), the suffix predicate (H3), that USING coalesces only the listed columns (H4), that a CTE captures only whole-name unresolved references (H5), that last() decides through the lookup (H6) that FROM items are registered under alias or whole table path (H7), exact field lookup inside a schema (H8), a single whole-path column lookup in expressions (H9) a USING/NATURAL join that is consistent with the column map handed to the resolver (H10) and a FROM-item name collector that lists the table of each join (H11). "
                 "The lookup law over all maps/paths and which column sets reach the lookup from SQL are not decided as a whole.",
        "design_ref": "DESIGN.md §3 C15",
        "note": "Restructured folds fail closed (UNDECIDED).",
    },
    "C17": {
        "technique": "per-translator renderer tables from the MIR (override or default, abort analysis, SQL spelling constants) joined with each dialect's reader table from the AST; dialect pairing; quote characters evaluated against sqlparser's own dialect source",
        "level": "Decides for the eight translators that every operator in scope is rendered without abort (E3d), under a spelling the same dialect's reader reads back as the same operator (E4d), that each translator reads with its own sqlparser dialect (E5d), quotes identifiers with a character that dialect accepts (E6), the shared rendering / reading rules E7-E9, E12-E14, E16-E23, and that the explicit JOIN projections of BigQuery / Hive qualify left fields with the left name and right fields with the right name (E24). "
                 "Acceptance by the real engines and per-engine semantics are not decided.",
        "design_ref": "DESIGN.md §3 C17",
        "note": "Trusted: sqlparser source in the cargo registry at the version pinned by /repo/Cargo.lock.",
    },
    "C02": {
        "technique": "exhaustive table proof over the syn AST: label-lattice invariants of every RewritingRule row, pattern-match simulation of the Rewriter dispatch, acceptance sets, who-may-call",
        "level": "Exhaustive over the finite rule table: every RewritingRule::new row satisfies the non-interference invariants (T1), is dispatched by the Rewriter to the mechanism it names and never to the pass-through arm when it outputs PUP/DP (T2), "
                 "the two entry points accept only safe root labels (T3), protected tables never get the Public rule (T4), the table is closed (T0), the setter and the tracker agree on which tables are protected (T5) and the synthetic table is the value of the declared lookup (T6). This is the rule-level statement of C02.",
        "design_ref": "DESIGN.md §3 C02",
        "note": "Trusted: syn parses the same files rustc builds; the DP aggregation itself (C01/C03/C04) and column-level lineage inside the produced relation are not decided here.",
    },
    "C13": {
        "technique": "arm/term tables over the syn AST: selector/eliminator predicate atoms, origin-tracking mini-evaluator for the cartesian enumeration and child order, arg-max comparator shape",
        "level": "Decides the clauses of C13 that are in the shape of the code: the derivation applied is well-typed (G1 positional agreement, G4 child order), all consistent choices are enumerated (G2 cartesian product, no truncation; G5 drivers return what the visitor computed, de-duplication only under structural equality), "
                 "the best-scoring accepted candidate is returned or unreachable_property reported (G3), the accepted root labels are exactly the reviewed sets (G6), the score is additive with the reviewed ranking (G7) each entry point searches the rule set of the documented strategy (G8) and every aggregate the setter accepts has an arm in the DP applier (G9). Completeness over all trees is not decided.",
        "design_ref": "DESIGN.md §3 C13",
        "note": "Trusted: visitor.rs hands each node the results of its inputs; syn parses what rustc builds. Completeness/optimality over arbitrary trees out of reach of static rules.",
    },
    "C16": {
        "technique": "reachability over an instantiation-aware (monomorphic) call graph built by a rustc_private MIR driver; who-may-reach rules for hash-order iteration, the global name counter, statics and ambient nondeterminism",
        "level": "Decides that no source of non-determinism (hash-order iteration with an order-sensitive consumer D1, the process-global name counter D2, other process state D3, RNG/clock/env/thread ids D4) is reachable from "
                 "the parse, render and type entry points, for every instantiation the crate's own code makes, and that every Hash impl feeding the content-derived names covers the whole content (D5); the default sort direction and float literals are the same for reader and renderer (E19, E14) quoted identifiers are never case-folded by the reader (D6) and a table named by its path or its name never takes its other designation from the global counter (D7). This is a necessary condition of deterministic compilation; semantic equality of re-parsed SQL is not decided.",
        "design_ref": "DESIGN.md §3 C16",
        "note": "Trusted: rustc's Instance resolution; calls through fn pointers resolved at the reification site; drop glue not followed. One edge suppression with a checked caller invariant (qv/reach.py).",
    },
    "C18": {
        "technique": "reachability over the monomorphic call graph (rustc MIR driver) + MIR switch/assert facts: inventory of explicit aborts keyed by the enum variants that select them, unchecked i64 arithmetic with a reviewed safe table, dispatch-table holes",
        "level": "Inventory: every todo!/unimplemented!/panic!/unreachable! (P1), every overflow-checked i64 operation outside a reviewed safe table (P2) every unwrap of the by-design refusal Variant::try_empty (P5), an integer-range enumeration whose length test under-reports (P6), every implementation registered without the Optional wrapper whose super_image can refuse (P7), every clause of a sqlparser node that is bound and never read (P8), every rule row whose number of input labels is not the node's number of children (P9), every float image closure that is not clamped to the finite floats (P10) and every hole of the two implementation dispatch tables (E1) that is reachable from the "
                 "public entry points is reported; the sites on the pinned tree are input-confirmed known findings, any new one is a violation. unwrap/expect, indexing, assert! preconditions and termination are not decided.",
        "design_ref": "DESIGN.md §3 C18",
        "note": "Trusted: as C16. The 179 P1 findings (one per unsupported input construct) are one class (unsupported construct -> abort instead of Err); a sample was confirmed by input with a probe binary (DESIGN §6).",
    },
}

_PENDING = "check under construction in this session (see DESIGN.md §7 build order); not claimed until its rules are exact on the pinned tree"
NOT_APPLICABLE = {p: _PENDING for p in ["C%02d" % i for i in range(1, 19)] if p not in CHECKS}
