"""Per-property claims (source of MANIFEST.json; regenerate with tools/gen_manifest.py)."""

NOTES = (
    "Technique family: static analysis only. Every check re-extracts facts from /repo's current working tree (cached by content hash) "
    "and decides repository-specific structural rules; no registered check executes Qrlew code, its tests, or SQL. "
    "Each claim is the structural clause named in level_claimed.text (a necessary condition of the behavioural property), not the behaviour itself; see DESIGN.md."
)

CHECKS = {
    "C02": {
        "technique": "exhaustive table proof over the syn AST: label-lattice invariants of every RewritingRule row, pattern-match simulation of the Rewriter dispatch, acceptance sets, who-may-call",
        "level": "Exhaustive over the finite rule table: every RewritingRule::new row satisfies the non-interference invariants (T1), is dispatched by the Rewriter to the mechanism it names and never to the pass-through arm when it outputs PUP/DP (T2), "
                 "the two entry points accept only safe root labels (T3), protected tables never get the Public rule (T4), and the table is closed (T0). This is the rule-level statement of C02.",
        "design_ref": "DESIGN.md §3 C02",
        "note": "Trusted: syn parses the same files rustc builds; the DP aggregation itself (C01/C03/C04) and column-level lineage inside the produced relation are not decided here.",
    },
    "C13": {
        "technique": "arm/term tables over the syn AST: selector/eliminator predicate atoms, origin-tracking mini-evaluator for the cartesian enumeration and child order, arg-max comparator shape",
        "level": "Decides the clauses of C13 that are in the shape of the code: the derivation applied is well-typed (G1 positional agreement, G4 child order), all consistent choices are enumerated (G2 cartesian product, no truncation), "
                 "and the best-scoring accepted candidate is returned or unreachable_property reported (G3). Completeness over all trees is not decided.",
        "design_ref": "DESIGN.md §3 C13",
        "note": "Trusted: visitor.rs hands each node the results of its inputs; syn parses what rustc builds. Completeness/optimality over arbitrary trees out of reach of static rules.",
    },
    "C16": {
        "technique": "reachability over an instantiation-aware (monomorphic) call graph built by a rustc_private MIR driver; who-may-reach rules for hash-order iteration, the global name counter, statics and ambient nondeterminism",
        "level": "Decides that no source of non-determinism (hash-order iteration with an order-sensitive consumer D1, the process-global name counter D2, other process state D3, RNG/clock/env/thread ids D4) is reachable from "
                 "the parse, render and type entry points, for every instantiation the crate's own code makes. This is a necessary condition of deterministic compilation; semantic equality of re-parsed SQL is not decided.",
        "design_ref": "DESIGN.md §3 C16",
        "note": "Trusted: rustc's Instance resolution; calls through fn pointers resolved at the reification site; drop glue not followed. One edge suppression with a checked caller invariant (qv/reach.py).",
    },
    "C18": {
        "technique": "reachability over the monomorphic call graph (rustc MIR driver) + MIR switch/assert facts: inventory of explicit aborts keyed by the enum variants that select them, unchecked i64 arithmetic with a reviewed safe table, dispatch-table holes",
        "level": "Inventory: every todo!/unimplemented!/panic!/unreachable! (P1), every overflow-checked i64 operation outside a reviewed safe table (P2) and every hole of the two implementation dispatch tables (E1) that is reachable from the "
                 "public entry points is reported; the sites on the pinned tree are input-confirmed known findings, any new one is a violation. unwrap/expect, indexing, assert! preconditions and termination are not decided.",
        "design_ref": "DESIGN.md §3 C18",
        "note": "Trusted: as C16. The 175 P1 findings are one class (unsupported construct -> abort instead of Err); a sample was confirmed by input with a probe binary (DESIGN §6).",
    },
}

_PENDING = "check under construction in this session (see DESIGN.md §7 build order); not claimed until its rules are exact on the pinned tree"
NOT_APPLICABLE = {p: _PENDING for p in ["C%02d" % i for i in range(1, 19)] if p not in CHECKS}
