"""Per-property claims (source of MANIFEST.json; regenerate with tools/gen_manifest.py)."""

NOTES = (
    "Technique family: static analysis only. Every check re-extracts facts from /repo's current working tree (cached by content hash) "
    "and decides repository-specific structural rules; no registered check executes Qrlew code, its tests, or SQL. "
    "Each claim is the structural clause named in level_claimed.text (a necessary condition of the behavioural property), not the behaviour itself; see DESIGN.md."
)

CHECKS = {
    "C02": {
        "technique": "exhaustive table proof over the syn AST: label-lattice invariants of every RewritingRule row, pattern-match simulation of the Rewriter dispatch, acceptance sets, who-may-call",
        "level": "Exhaustive over the finite rule table: every RewritingRule::new row satisfies the non-interference invariants (T1), is dispatched by the Rewriter to the mechanism it names and never to the pass-through arm when it outputs PUP/DP (T2), "
                 "the two entry points accept only safe root labels (T3), protected tables never get the Public rule (T4), and the table is closed (T0). This is the rule-level statement of C02.",
        "design_ref": "DESIGN.md §3 C02",
        "note": "Trusted: syn parses the same files rustc builds; the DP aggregation itself (C01/C03/C04) and column-level lineage inside the produced relation are not decided here.",
    },
}

_PENDING = "check under construction in this session (see DESIGN.md §7 build order); not claimed until its rules are exact on the pinned tree"
NOT_APPLICABLE = {p: _PENDING for p in ["C%02d" % i for i in range(1, 19)] if p not in CHECKS}
