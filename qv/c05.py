"""C05 — privacy-unit tracking: a tracked row depends only on its own unit's data (structural rules Y1–Y6, B1, T5).

Decides the clauses that are in the shape of privacy_unit_tracking/mod.rs and relation/builder.rs:
  Y1  PrivacyUnitTracking::join ANDs `left.PU = right.PU` (both sides, distinct) onto the ORIGINAL operator, and the
      tracked columns of the result are the left/right unit id and the product of both weights;
  Y1b join_left_published / join_right_published take unit id and weight from the tracked (PupRelation) side only;
  Y2  reduce groups by the unit id and sums the weight under Strategy::Hard and refuses under Soft (same for join);
  Y3  PupRelation values are constructed only inside TryFrom<Relation> (MIR aggregate facts): the typestate is closed;
  Y4  with_referred_fields pulls the unit id with an INNER join on referring_id = referred_id (correct sides);
  Y5  JoinBuilder::and extends the ON clause of every join kind that has one (Inner, LeftOuter, RightOuter, FullOuter);
  Y6  map / set keep the unit columns and build over the tracked inputs;
  B1  builder order: `.with(<relation node>)` (which copies the node's own input) is never applied after `.input/.left/.right`;
  T5  the rule setter and the tracker decide "is this table protected" with the same predicate (sibling agreement).
NOT decided: "exactly the rows of D restricted to u", NULL unit ids produced by outer joins, execution.
"""
import re

from . import facts
from .core import Src, Anchor, find, walk, show, path_of, is_call_to, pat_binds
from .mir import Mir

from .canon import canon_view as _canon_view


def _cv(f, src):
    """canonical view of a tracking method: locals that only name an expression, private helpers and early returns are read through"""
    return _canon_view(f, src, keep_lets={"builder", "join", "names", "operator"}, iflet=True)


LEVEL = "other"
EXHAUSTIVE = True
PUT = "privacy_unit_tracking/mod.rs"


def chain(e):
    """method chain, root first: (root_expr, [mcall...])"""
    ms = []
    while e["k"] == "mcall":
        ms.append(e)
        e = e["recv"]
    return e, list(reversed(ms))


def strip_ref(e):
    while e["k"] == "ref" or (e["k"] == "mcall" and e["m"] in ("clone", "to_string", "as_str", "into", "to_owned") and not e["args"]):
        e = e["e"] if e["k"] == "ref" else e["recv"]
    return e


def _through_locals(e):
    """the expression an immutable local stands for (`let privacy_unit = PrivacyUnit::privacy_unit();` .. `Expr::col(privacy_unit)`), through & / clone / as_str"""
    e = strip_ref(e)
    for _ in range(4):
        while e["k"] == "mcall" and e["m"] in ("clone", "to_string", "to_owned", "as_str", "into") and not e["args"]:
            e = strip_ref(e["recv"])
        if e["k"] == "path" and len(e["segs"]) == 1 and e["segs"][0] in _LOCALS:
            e = strip_ref(_LOCALS[e["segs"][0]])
        else:
            break
    return e


def pu_const(e):
    """PrivacyUnit::privacy_unit() -> 'pu'; privacy_unit_weight() -> 'w' (also via PrivacyUnitPath)."""
    e = _through_locals(e)
    if e["k"] == "call" and not e["args"]:
        p = path_of(e["f"]) or ""
        if re.search(r"(^|::)PrivacyUnit(Path)?::privacy_unit$", p):
            return "pu"
        if re.search(r"(^|::)PrivacyUnit(Path)?::privacy_unit_weight$", p):
            return "w"
    return None


def side_const(e):
    e = _through_locals(e)
    if e["k"] == "call" and not e["args"]:
        p = path_of(e["f"]) or ""
        if p.endswith("Join::left_name"):
            return "left"
        if p.endswith("Join::right_name"):
            return "right"
    return None


def qcol(e):
    """Expr::qcol(Join::left_name(), X) -> (side, X-node)"""
    if is_call_to(e, "Expr::qcol") and len(e["args"]) == 2:
        s = side_const(e["args"][0])
        if s:
            return s, e["args"][1]
    return None


_LOCALS = {}  # immutable `let name = <expr>;` of the function being read (name -> init): a renamed column may be named once and used twice


def _set_locals(f):
    _LOCALS.clear()
    for l in find(f.body, "let"):
        if l["pat"]["k"] == "ident" and not l["pat"].get("mut") and l.get("init") is not None:
            _LOCALS[l["pat"]["name"]] = l["init"]


def fmt_side(e):
    """format!("_LEFT{}", PrivacyUnit::privacy_unit()) -> ('left','pu')"""
    e = strip_ref(e)
    for _ in range(4):
        while e["k"] == "mcall" and e["m"] in ("clone", "to_string", "to_owned", "as_str", "into") and not e["args"]:
            e = strip_ref(e["recv"])
        if e["k"] == "path" and len(e["segs"]) == 1 and e["segs"][0] in _LOCALS:
            e = strip_ref(_LOCALS[e["segs"][0]])
        else:
            break
    if e["k"] == "macro" and e["name"] == "format" and e.get("args") and len(e["args"]) == 2:
        f = e["args"][0]
        if f["k"] == "lit" and f["t"] == "str":
            side = {"_LEFT{}": "left", "_RIGHT{}": "right"}.get(f["v"])
            c = pu_const(e["args"][1])
            if side and c:
                return side, c
    return None


def col_of(e):
    """Expr::col(X) -> X"""
    if is_call_to(e, "Expr::col") and len(e["args"]) == 1:
        return e["args"][0]
    return None


def builder_chains(body, root_fn):
    """All method chains rooted at `Relation::<root_fn>()` in body (outermost chain only)."""
    out = []
    for x in walk(body):
        if x["k"] == "mcall":
            r, ms = chain(x)
            if is_call_to(r, "Relation::" + root_fn) and not r["args"]:
                out.append((x, ms))
    # keep maximal chains
    best = {}
    for x, ms in out:
        rid = id(ms[0]["recv"]) if ms else id(x)
        if rid not in best or len(ms) > len(best[rid][1]):
            best[rid] = (x, ms)
    return list(best.values())


def with_pairs(ms):
    """(name-const, value-expr) of `.with((NAME, VALUE))` calls in a chain."""
    out = []
    for m in ms:
        if m["m"] == "with" and len(m["args"]) == 1 and m["args"][0]["k"] == "tuple" and len(m["args"][0]["elems"]) == 2:
            a, b = m["args"][0]["elems"]
            out.append((pu_const(a), b, m))
    return out


def assigned_withs(body, var):
    """`var = var.with((NAME, VALUE))` statements."""
    out = []
    for x in find(body, "assign"):
        if path_of(x["lhs"]) == var and x["rhs"]["k"] == "mcall":
            r, ms = chain(x["rhs"])
            if path_of(r) == var:
                out += with_pairs(ms)
    return out


def y1(rep, src):
    rep.rule(
        "Y1",
        "PrivacyUnitTracking::join (Hard): the tracked join is built with .operator(<the join's own operator>) and THEN .and(Expr::eq(qcol(left, PU), qcol(right, PU))) with one column from each side; "
        "the output unit id is a side's unit id and the output weight the product of both weights; Soft returns Err",
        floor=4,
        necessary="without the equality (or with left=left) a row of unit u is combined with rows of other units and still attributed to u",
    )
    f = _cv(src.one_fn(name="join", file=PUT, self_ty_re=r"^PrivacyUnitTracking"), src)
    _set_locals(f)
    key = "PrivacyUnitTracking::join"
    chains = builder_chains(f.body, "join")
    if len(chains) != 1:
        rep.undecidable("Y1", key, "expected one Relation::join() builder chain, found %d" % len(chains), f.where())
        return
    _, ms = chains[0]
    names = [m["m"] for m in ms]
    rep.instance("Y1", key + "@chain", {"builder_chain": names})
    if "and" not in names or "operator" not in names:
        rep.violation("Y1", key, "the tracked join does not AND a condition onto the join's operator (chain: %s)" % names, f.where())
        return
    if names.index("operator") > names.index("and"):
        rep.violation("Y1", key, ".operator(..) is applied after .and(..): it overwrites the unit-id equality", f.where())
    # operator argument derives from join.operator()
    opm = ms[names.index("operator")]
    from .flow import Taint

    jp = [p["pat"]["name"] for p in f.params if not p.get("self") and "Join" in p["ty"] and p["pat"]["k"] == "ident"]
    t = Taint({jp[0]: "join"} if jp else {})
    t.run_block(f.body)
    if "join" not in t.labels(opm["args"][0]):
        rep.violation("Y1", key, "the operator of the tracked join does not derive from the original join", f.where())
    andm = ms[names.index("and")]
    e = andm["args"][0]
    ok = False
    if is_call_to(e, "Expr::eq") and len(e["args"]) == 2:
        a, b = qcol(e["args"][0]), qcol(e["args"][1])
        if a and b:
            sides = {a[0], b[0]}
            cols = (pu_const(a[1]), pu_const(b[1]))
            rep.instance("Y1", key + "@eq", {"condition": show(e, 200), "sides": sorted(sides), "columns": cols})
            ok = sides == {"left", "right"} and cols == ("pu", "pu")
    if not ok:
        rep.violation("Y1", key, "the added condition is not `left.PU = right.PU`: %s" % show(e, 160), "src/%s:%d" % (PUT, andm["l"]))
    # tracked output columns
    pairs = []
    for c, v, m in with_pairs([m for _, mm in builder_chains(f.body, "map") for m in mm]) + assigned_withs(f.body, "builder"):
        if c:
            pairs.append((c, v))
    got = {}
    for c, v in pairs:
        got[c] = v
    rep.instance("Y1", key + "@out", {"pu": show(got.get("pu"), 120), "weight": show(got.get("w"), 160)})
    pu_src = col_of(got["pu"]) if "pu" in got else None
    fs = fmt_side(pu_src) if pu_src else None
    if not fs or fs[1] != "pu":
        rep.violation("Y1", key, "the output unit id is not a side's unit-id column: %s" % show(got.get("pu"), 120), f.where())
    w = got.get("w")
    okw = False
    if w is not None and is_call_to(w, "Expr::multiply") and len(w["args"]) == 2:
        a = fmt_side(col_of(w["args"][0]) or {"k": "x"}) if col_of(w["args"][0]) else None
        b = fmt_side(col_of(w["args"][1]) or {"k": "x"}) if col_of(w["args"][1]) else None
        okw = bool(a and b and {a[0], b[0]} == {"left", "right"} and a[1] == b[1] == "w")
    if not okw:
        rep.violation("Y1", key, "the output weight is not left.weight * right.weight: %s" % show(w, 160), f.where())
    # the renames of the four tracked columns are consistent (side in the path == side in the name)
    n_ren = 0
    for tup in find(f.body, "tuple"):
        if len(tup["elems"]) == 2 and tup["elems"][0]["k"] == "macro" and tup["elems"][0]["name"] == "vec":
            va = tup["elems"][0].get("args", [])
            fs2 = fmt_side(tup["elems"][1])
            if len(va) == 2 and fs2:
                s, c = side_const(va[0]), pu_const(va[1])
                n_ren += 1
                if (s, c) != fs2:
                    rep.violation("Y1", key + "@rename", "column [%s, %s] is renamed to the %s %s column" % (s, c, fs2[0], fs2[1]), "src/%s:%d" % (PUT, tup["l"]))
    rep.instance("Y1", key + "@renames", {"renames_checked": n_ren})
    if n_ren < 4:
        rep.violation("Y1", key + "@rename", "expected the four tracked columns to be renamed per side, found %d" % n_ren, f.where())
    strategy_arms(rep, "Y1", f, key)
    # Y7: non-null unit id.  The ON clause equates both ids, so matched rows may take either; rows that an outer join keeps
    # from the side NOT providing the id get a NULL unit id unless the ids are coalesced or such operators are refused.
    rep.rule(
        "Y7",
        "PrivacyUnitTracking::join: every output row has a non-null unit id: the output id coalesces both sides' ids, or the join operators that keep unmatched rows of the other side "
        "(RightOuter / FullOuter when the id is read from the left) are refused or handled in their own arm",
        floor=1,
        necessary="an unmatched right row of a RIGHT / FULL join gets _PRIVACY_UNIT_ = NULL: it belongs to no unit, escapes the per-unit clipping (NULL never matches the scale-factor join) or is dropped",
    )
    pu_e = got.get("pu")
    sides_in_pu = set()
    if pu_e is not None:
        for x in walk(pu_e):
            fs2 = fmt_side(x) if x["k"] == "macro" else None
            if fs2 and fs2[1] == "pu":
                sides_in_pu.add(fs2[0])
    branches_on_operator = any(m["e"]["k"] == "path" and m["e"]["p"] in ("operator",) or "operator" in show(m["e"], 0) for m in find(f.body, "match") if not show(m["e"], 0).endswith("strategy"))
    key7 = key + "@non-null-unit:" + "/".join(sorted(sides_in_pu))
    rep.instance("Y7", key7, {"unit_id_read_from": sorted(sides_in_pu), "branches_on_join_operator": bool(branches_on_operator)})
    if sides_in_pu != {"left", "right"} and not branches_on_operator:
        rep.violation("Y7", key7, "the output unit id is read from the %s side only, for every join operator: unmatched rows kept by an outer join of the other side get a NULL unit id" % "/".join(sorted(sides_in_pu)), f.where())


def _strategy_gate_as_match(body):
    """`if self.strategy == Strategy::Soft { return Err(..); } <rest>` (also `!= Strategy::Hard`, `matches!(self.strategy, Strategy::Soft)`) read as
    `match self.strategy { Strategy::Soft => Err(..), _ => { <rest> } }` - the enum has the two variants Soft and Hard (checked by the caller's arm table: an unknown variant is UNDECIDED)."""
    if body.get("k") != "block":
        return None
    for i, st in enumerate(body["stmts"]):
        e = st.get("e") if st.get("k") == "expr" else None
        if not (isinstance(e, dict) and e.get("k") == "if" and e["cond"]["k"] != "letcond"):
            continue
        c = e["cond"]
        while c["k"] == "paren":
            c = c["e"]
        var = None
        if c["k"] == "binary" and c["op"].strip() in ("==", "!="):
            for a, b in ((c["lhs"], c["rhs"]), (c["rhs"], c["lhs"])):
                pb = path_of(b) or ""
                if show(a, 0).endswith("strategy") and "Strategy::" in pb:
                    v = pb.rsplit("::", 1)[-1]
                    var = (a, v if c["op"].strip() == "==" else {"Soft": "Hard", "Hard": "Soft"}.get(v))
        elif c["k"] == "macro" and c.get("name") == "matches" and c.get("args") and len(c["args"]) == 2 and show(c["args"][0], 0).endswith("strategy"):
            pb = path_of(c["args"][1]) or ""
            if "Strategy::" in pb:
                var = (c["args"][0], pb.rsplit("::", 1)[-1])
        if var is None or var[1] is None:
            continue
        tb = e["then"]
        l = e.get("l", 0)
        if e.get("else") is not None:  # the canonical view writes the early return as if / else
            first, rest = tb, e["else"]
        elif tb["k"] == "block" and len(tb["stmts"]) == 1 and tb["stmts"][0]["k"] == "expr" and tb["stmts"][0]["e"]["k"] == "return" and tb["stmts"][0]["e"].get("e") is not None:
            first, rest = tb["stmts"][0]["e"]["e"], {"k": "block", "l": l, "stmts": body["stmts"][i + 1 :]}
        else:
            continue
        return {
            "k": "match", "l": l, "e": var[0],
            "arms": [
                {"l": l, "pat": {"k": "path", "l": l, "p": "Strategy::" + var[1], "segs": ["Strategy", var[1]]}, "guard": None, "body": first},
                {"l": l, "pat": {"k": "wild", "l": l}, "guard": None, "body": rest},
            ],
        }
    return None


def strategy_arms(rep, rid, f, key):
    """`match self.strategy { Soft => Err(..), Hard => {...} }`"""
    ms = [m for m in find(f.body, "match") if show(m["e"], 0).endswith("strategy")]
    if not ms:
        sm = _strategy_gate_as_match(f.body)
        if sm is not None:
            ms = [sm]
    if len(ms) != 1:
        rep.violation(rid, key + "@strategy", "no `match self.strategy` in %s" % key, f.where())
        return None
    hard = None
    for a in ms[0]["arms"]:
        pn = path_of(a["pat"]) or ""
        if pn.endswith("Strategy::Soft"):
            b = a["body"]
            is_err = is_call_to(b, "Err") or (b["k"] == "block" and len(b["stmts"]) == 1 and is_call_to(b["stmts"][0].get("e", {}), "Err"))
            rep.instance(rid, key + "@soft", {"soft_arm": show(b, 100)})
            if not is_err:
                rep.violation(rid, key + "@soft", "under Strategy::Soft the node is rewritten instead of refused", "src/%s:%d" % (PUT, a["l"]))
        elif pn.endswith("Strategy::Hard"):
            hard = a["body"]
        elif a["pat"]["k"] == "wild" and a is ms[0]["arms"][-1] and any((path_of(x["pat"]) or "").endswith("Strategy::Soft") for x in ms[0]["arms"][:-1]) and hard is None:
            hard = a["body"]  # `Soft => Err(..), _ => <rewrite>` (what `if let Strategy::Soft = self.strategy { return Err(..) }` reads as): the remaining strategy is Hard
        else:
            rep.undecidable(rid, key + "@strategy", "unexpected arm %s" % show(a["pat"]), "src/%s:%d" % (PUT, a["l"]))
    return hard


def y1b(rep, src):
    rep.rule(
        "Y1b",
        "join_left_published / join_right_published: unit id and weight of the result are the columns of the tracked (PupRelation) side; the renamed columns and the `.left/.right` inputs agree with the parameter sides",
        floor=2,
        necessary="taking the unit id from the published side yields NULL/foreign ids; attaching the tracked relation on the wrong side breaks the ON clause's qualified names",
    )
    for name, tracked in (("join_left_published", "right"), ("join_right_published", "left")):
        f = _cv(src.one_fn(name=name, file=PUT, self_ty_re=r"^PrivacyUnitTracking"), src)
        _set_locals(f)
        key = "PrivacyUnitTracking::" + name
        ps = {p["pat"]["name"]: p["ty"] for p in f.params if not p.get("self") and p["pat"]["k"] == "ident"}
        pup = [n for n, t in ps.items() if "PupRelation" in t]
        rep.instance("Y1b", key, {"fn": name, "tracked_param": pup, "expected_side": tracked})
        if pup != [tracked]:
            rep.violation("Y1b", key, "the PupRelation parameter is %s, expected `%s`" % (pup, tracked), f.where())
        chains = builder_chains(f.body, "join")
        if len(chains) != 1:
            rep.undecidable("Y1b", key, "expected one Relation::join() chain", f.where())
            continue
        _, ms = chains[0]
        for m in ms:
            if m["m"] in ("left", "right"):
                used = {x["segs"][0] for x in walk(m["args"][0]) if x["k"] == "path" and len(x["segs"]) == 1 and x["segs"][0] in ps}
                if used != {m["m"]}:
                    rep.violation("Y1b", key + "@" + m["m"], ".%s(..) is given %s" % (m["m"], sorted(used)), "src/%s:%d" % (PUT, m["l"]))
        if "operator" not in [m["m"] for m in ms]:
            rep.violation("Y1b", key, "the original operator is not applied", f.where())
        pairs = {}
        for _, mm in builder_chains(f.body, "map"):
            for c, v, m in with_pairs(mm):
                if c:
                    pairs[c] = v
        for c in ("pu", "w"):
            v = pairs.get(c)
            fs = fmt_side(col_of(v)) if v is not None and col_of(v) is not None else None
            if fs != (tracked, c):
                rep.violation("Y1b", key + "@" + c, "output %s column is %s, expected the %s side's" % (c, show(v, 100), tracked), f.where())
        for tup in find(f.body, "tuple"):
            if len(tup["elems"]) == 2 and tup["elems"][0]["k"] == "macro" and tup["elems"][0]["name"] == "vec":
                va = tup["elems"][0].get("args", [])
                fs2 = fmt_side(tup["elems"][1])
                if len(va) == 2 and fs2:
                    s, c = side_const(va[0]), pu_const(va[1])
                    if (s, c) != fs2 or s != tracked:
                        rep.violation("Y1b", key + "@rename", "column [%s, %s] renamed to %s %s (tracked side is %s)" % (s, c, fs2[0], fs2[1], tracked), "src/%s:%d" % (PUT, tup["l"]))


def y2(rep, src):
    rep.rule(
        "Y2",
        "PrivacyUnitTracking::reduce: refused under Soft; under Hard the rebuilt Reduce groups by the unit id, sums the weight, copies the original reduce and is fed the tracked input",
        floor=2,
        necessary="an aggregation that does not group by the unit id merges rows of several units into one tracked row",
    )
    f = _cv(src.one_fn(name="reduce", file=PUT, self_ty_re=r"^PrivacyUnitTracking"), src)
    key = "PrivacyUnitTracking::reduce"
    hard = strategy_arms(rep, "Y2", f, key)
    if hard is None:
        return
    chains = builder_chains(hard, "reduce")
    if len(chains) != 1:
        rep.undecidable("Y2", key, "expected one Relation::reduce() chain in the Hard arm", f.where())
        return
    _, ms = chains[0]
    names = [m["m"] for m in ms]
    gb = [m for m in ms if m["m"] in ("with_group_by_column", "group_by") and m["args"] and (pu_const(m["args"][0]) == "pu" or (col_of(m["args"][0]) is not None and pu_const(col_of(m["args"][0])) == "pu"))]
    wsum = [(c, v) for c, v, m in with_pairs(ms) if c == "w" and is_call_to(v, "AggregateColumn::sum") and pu_const(v["args"][0]) == "w"]
    rep.instance("Y2", key, {"chain": names, "groups_by_unit": bool(gb), "sums_weight": bool(wsum)})
    if not gb:
        rep.violation("Y2", key, "the rebuilt Reduce does not group by the privacy-unit column", f.where())
    else:
        # the grouping call must be effective: ReduceBuilder::with_group_by_column adds the GROUP BY unconditionally, or (if it skips columns
        # that are already outputs) no output named like the unit is added before it in this chain
        wg = [h for h in src.find_fns(name="with_group_by_column", file="relation/builder.rs") if (h.self_ty or "").startswith("ReduceBuilder")]
        conditional = None
        if len(wg) == 1:
            from .core import walk_guards as _wg2

            gcalls = [(x, gd) for x, gd in _wg2(wg[0].body) if x["k"] == "mcall" and x["m"] == "group_by"]
            rets = [x for x in walk(wg[0].body) if x["k"] == "return"]
            conditional = bool(rets) or not gcalls or any(gd for _x, gd in gcalls)
        idx = ms.index(gb[0])
        pu_before = [c for c, v, m in with_pairs(ms) if c == "pu" and ms.index(m) < idx]
        rep.instance("Y2", key + "@effective", {"with_group_by_column_conditional": conditional, "unit_output_added_before": bool(pu_before)})
        if conditional is None:
            rep.undecidable("Y2", key + "@effective", "ReduceBuilder::with_group_by_column not found", f.where())
        elif conditional and gb[0]["m"] == "with_group_by_column" and pu_before:
            rep.violation("Y2", key + "@effective", "with_group_by_column skips columns that are already outputs (early return) and the unit column is added as an output before it: the tracked Reduce is not grouped by the unit", f.where())
    if not wsum:
        rep.violation("Y2", key, "the rebuilt Reduce does not sum the privacy-unit weight", f.where())
    inp = [m for m in ms if m["m"] == "input"]
    pup = [p["pat"]["name"] for p in f.params if not p.get("self") and "PupRelation" in p["ty"]]
    if not inp or not pup or pup[0] not in {x["segs"][0] for x in walk(inp[-1]["args"][0]) if x["k"] == "path" and len(x["segs"]) == 1}:
        rep.violation("Y2", key, "the rebuilt Reduce is not fed the tracked input", f.where())


def y6(rep, src):
    rep.rule(
        "Y6",
        "PrivacyUnitTracking::map keeps the unit id and weight columns (identity projections) and is fed the tracked input; ::set is built over both tracked inputs",
        floor=2,
        necessary="dropping or recomputing the unit column detaches rows from their unit",
    )
    f = _cv(src.one_fn(name="map", file=PUT, self_ty_re=r"^PrivacyUnitTracking"), src)
    _set_locals(f)
    key = "PrivacyUnitTracking::map"
    chains = builder_chains(f.body, "map")
    if len(chains) != 1:
        rep.undecidable("Y6", key, "expected one Relation::map() chain", f.where())
    else:
        _, ms = chains[0]
        pairs = {c: v for c, v, m in with_pairs(ms) if c}
        rep.instance("Y6", key, {"pu": show(pairs.get("pu"), 80), "weight": show(pairs.get("w"), 80)})
        for c in ("pu", "w"):
            v = pairs.get(c)
            if v is None or col_of(v) is None or pu_const(col_of(v)) != c:
                rep.violation("Y6", key + "@" + c, "the %s column is not carried unchanged: %s" % (c, show(v, 80)), f.where())
        pup = [p["pat"]["name"] for p in f.params if not p.get("self") and "PupRelation" in p["ty"]]
        inp = [m for m in ms if m["m"] == "input"]
        if not inp or not pup or pup[0] not in {x["segs"][0] for x in walk(inp[-1]["args"][0]) if x["k"] == "path" and len(x["segs"]) == 1}:
            rep.violation("Y6", key, "the rebuilt Map is not fed the tracked input", f.where())
    f = _cv(src.one_fn(name="set", file=PUT, self_ty_re=r"^PrivacyUnitTracking"), src)
    key = "PrivacyUnitTracking::set"
    chains = builder_chains(f.body, "set")
    if len(chains) != 1:
        rep.undecidable("Y6", key, "expected one Relation::set() chain", f.where())
        return
    _, ms = chains[0]
    # the chain may continue on a local: `let builder = Relation::set()...; builder.left(l).right(r).build()`
    locs = {l["pat"]["name"] for l in find(f.body, "let") if l["pat"]["k"] == "ident" and l.get("init") is not None and any(x is chains[0][0] for x in walk(l["init"]))}
    for x in walk(f.body):
        if x["k"] == "mcall":
            r_, ms2 = chain(x)
            if path_of(r_) in locs and len(ms2) > len([m for m in ms if m in ms2]):
                ms = list(ms) + [m for m in ms2 if m not in ms]
    sides = {}
    for m in ms:
        if m["m"] in ("left", "right"):
            sides[m["m"]] = {x["segs"][0] for x in walk(m["args"][0]) if x["k"] == "path" and len(x["segs"]) == 1}
    rep.instance("Y6", key, {"left": sorted(sides.get("left", [])), "right": sorted(sides.get("right", []))})
    for s in ("left", "right"):
        if s not in sides.get(s, set()):
            rep.violation("Y6", key + "@" + s, "the %s input of the tracked set is not the tracked %s relation" % (s, s), f.where())
    for need in ("operator", "quantifier"):
        if need not in [m["m"] for m in ms]:
            rep.violation("Y6", key + "@" + need, "the set %s of the original node is not applied" % need, f.where())


def y3(rep, mir):
    rep.rule(
        "Y3",
        "typestate: a PupRelation value is constructed only inside <PupRelation as TryFrom<Relation>>::try_from (MIR aggregate and field-write facts over the whole crate, tests excluded)",
        floor=1,
        necessary="constructing PupRelation(rel) directly bypasses the check that both tracked columns exist, so untracked relations enter the DP compiler",
    )
    ctor = re.compile(r"^adt:privacy_unit_tracking::PupRelation$")
    ok_rx = re.compile(r"PupRelation.*TryFrom<relation::Relation>.*::try_from($|::)|TryFrom<relation::Relation> for privacy_unit_tracking::PupRelation>::try_from($|::)")
    seen_ok = False
    for b in mir.bodies:
        for bl in b["blocks"]:
            for st in bl["s"]:
                dst, rv = st[0], st[1]
                is_ctor = rv[0] == "agg" and ctor.search(rv[1])
                # a write through the public field `.0` of a PupRelation local
                is_write = dst[1].startswith(".0") and mir.ty(b, dst[0]).replace("&mut ", "").replace("&", "") == "privacy_unit_tracking::PupRelation"
                if not (is_ctor or is_write):
                    continue
                key = b["path"]
                inside = bool(ok_rx.search(b["path"]))
                rep.instance("Y3", key, {"fn": b["path"], "kind": "construct" if is_ctor else "field write", "where": "%s:%d" % (b["file"], st[2])})
                if inside:
                    seen_ok = True
                elif b["path"].endswith("::clone") and "PupRelation" in b["path"]:
                    continue  # derived Clone rebuilds the value from an existing one
                else:
                    rep.violation("Y3", key, "PupRelation %s outside TryFrom<Relation>" % ("constructed" if is_ctor else "mutated"), "%s:%d" % (b["file"], st[2]))
    if not seen_ok:
        rep.error("Y3 anchor lost: no PupRelation construction found in TryFrom<Relation>::try_from")
    # the guard of try_from: Ok(PupRelation(..)) only under both field checks
    bs = [x for x in mir.bodies if ok_rx.search(x["path"]) and x["kind"] != "Closure"]
    b = bs[0] if bs else None
    if b:
        checks = [cal["path"] for _, cal, *_ in mir.calls(b) if cal and cal["path"].endswith("Schema::field")]
        rep.instance("Y3", "try_from@guard", {"schema_field_checks": len(checks)})
        if len(checks) < 2:
            rep.violation("Y3", "try_from@guard", "TryFrom<Relation> for PupRelation no longer checks both tracked columns", "%s:%d" % (b["file"], b["line"]))


def y4(rep, src):
    rep.rule(
        "Y4",
        "Relation::with_referred_fields joins the referring relation (self) with the referred one by an INNER join on referring_id = referred_id, each id qualified with the side its relation is attached to",
        floor=1,
        necessary="an outer join keeps rows without owner (NULL unit id); swapped sides/ids attach a row to another unit's id",
    )
    f = src.one_fn(name="with_referred_fields", file=PUT)
    key = "Relation::with_referred_fields"
    chains = builder_chains(f.body, "join")
    if len(chains) != 1:
        rep.undecidable("Y4", key, "expected one Relation::join() chain", f.where())
        return
    _, ms = chains[0]
    names = [m["m"] for m in ms]
    kind = [n for n in names if n in ("inner", "left_outer", "right_outer", "full_outer", "cross", "operator")]
    sides = {}
    for m in ms:
        if m["m"] in ("left", "right"):
            sides[m["m"]] = {x["segs"][0] for x in walk(m["args"][0]) if x["k"] == "path" and len(x["segs"]) == 1}
    cond = None
    for m in ms:
        if m["m"] == "inner" and m["args"]:
            cond = m["args"][0]
    rep.instance("Y4", key, {"join_kind": kind, "left": sorted(sides.get("left", [])), "right": sorted(sides.get("right", [])), "on": show(cond, 160)})
    if kind != ["inner"]:
        rep.violation("Y4", key, "the referred relation is joined with %s instead of inner" % kind, f.where())
        return
    ok = False
    if cond is not None and is_call_to(cond, "Expr::eq") and len(cond["args"]) == 2:
        a, b = qcol(cond["args"][0]), qcol(cond["args"][1])
        if a and b:
            m = {a[0]: path_of(strip_ref(a[1])), b[0]: path_of(strip_ref(b[1]))}
            self_side = [s for s, v in sides.items() if "self" in v]
            ref_side = [s for s, v in sides.items() if "referred_relation" in v]
            ok = len(self_side) == 1 and len(ref_side) == 1 and m.get(self_side[0]) == "referring_id" and m.get(ref_side[0]) == "referred_id"
    if not ok:
        rep.violation("Y4", key, "the ON clause is not `<self side>.referring_id = <referred side>.referred_id`: %s" % show(cond, 160), f.where())


def y5(rep, src):
    rep.rule(
        "Y5",
        "JoinBuilder::and conjoins the added expression to the ON clause of every JoinOperator variant that carries one (Inner, LeftOuter, RightOuter, FullOuter) and keeps the variant",
        floor=4,
        necessary="PrivacyUnitTracking::join relies on .and() to add the unit-id equality: a variant that falls to the `op => op` arm silently drops it",
    )
    f = src.one_fn(name="and", file="relation/builder.rs", self_ty_re=r"^JoinBuilder")
    variants = src.enum_variants("JoinOperator", file="relation/mod.rs")
    enum = [it for (_f, _m, it) in src.find_items("enum", name="JoinOperator", file="relation/mod.rs")][0]
    with_expr = [v["name"] for v in enum["variants"] if v["fields"]]
    ms = [m for m in find(f.body, "match")]
    if len(ms) != 1:
        rep.undecidable("Y5", "JoinBuilder::and", "expected one match over the operator", f.where())
        return
    param = [p["pat"]["name"] for p in f.params if not p.get("self")][0]
    handled = {}
    for a in ms[0]["arms"]:
        for p in walk(a["pat"]):
            if p["k"] == "tuplestruct" and p["path"]["segs"][-2:-1] == ["JoinOperator"]:
                v = p["path"]["segs"][-1]
                inner = pat_binds(p)
                body = a["body"]
                same = any(is_call_to(x, "JoinOperator::" + v) for x in walk(body))
                conj = [x for x in walk(body) if is_call_to(x, "Expr::and")]
                uses = conj and {q["segs"][0] for q in walk(conj[0]) if q["k"] == "path" and len(q["segs"]) == 1} >= {param, inner[0]} if inner else False
                handled[v] = (same, bool(uses))
    rep.instance("Y5", "JoinBuilder::and", {"variants_with_on_clause": with_expr, "handled": {k: list(v) for k, v in handled.items()}})
    for v in with_expr:
        if v not in handled:
            rep.violation("Y5", "JoinBuilder::and|" + v, "JoinOperator::%s falls to the pass-through arm: the added condition is dropped" % v, f.where())
        else:
            same, uses = handled[v]
            if not same:
                rep.violation("Y5", "JoinBuilder::and|" + v, "the arm for %s changes the join kind" % v, f.where())
            if not uses:
                rep.violation("Y5", "JoinBuilder::and|" + v, "the arm for %s does not conjoin the added expression with the existing ON clause" % v, f.where())
        rep.instance("Y5", "JoinBuilder::and|" + v, None)
    # variants without an ON clause (Cross): the added condition must not be dropped silently either
    for v in [x["name"] for x in enum["variants"] if not x["fields"]]:
        arm = None
        for a in ms[0]["arms"]:
            for p in walk(a["pat"]):
                if p["k"] == "path" and p["segs"][-2:] == ["JoinOperator", v]:
                    arm = a
        keeps = arm is not None and any(q["k"] == "path" and q["segs"] == [param] for q in walk(arm["body"]))
        rep.instance("Y5", "JoinBuilder::and|" + v, {"variant": v, "explicit_arm": arm is not None, "keeps_condition": bool(keeps)})
        if not keeps:
            rep.violation("Y5", "JoinBuilder::and|" + v, "JoinOperator::%s falls to the pass-through arm: `.and(expr)` silently drops the condition (PrivacyUnitTracking::join adds the unit-id equality through it)" % v, f.where())


def y8(rep, src):
    """Chaining of foreign-key hops: the column a hop stores is the column the next hop starts from."""
    rep.rule(
        "Y8",
        "PrivacyUnitPath::into_iter (the hops folded by with_field_path): inside the loop, the hop pushed for the pending step fetches `step.referring_id` under a name N, and the pending step is then replaced by "
        "(referring = N, step.referred_relation, step.referred_id) — the next hop joins on the column the previous hop produced (N = PrivacyUnitPath::privacy_unit())",
        floor=3,
        necessary="if the pending step keeps its old referring column, every hop of a multi-step path joins the FIRST referring column with the later tables' ids: rows are attributed to whatever unit has that id",
    )
    fs = [f for f in src.find_fns(name="into_iter", file="privacy_unit_tracking/privacy_unit.rs") if "PrivacyUnitPath" in (f.self_ty or "")]
    if len(fs) != 1:
        rep.error("Y8: PrivacyUnitPath::into_iter not found")
        return
    f = fs[0]
    key = "PrivacyUnitPath::into_iter"
    loops = [n for n in walk(f.body) if n["k"] == "for"]
    if len(loops) != 1:
        rep.undecidable("Y8", key, "expected one loop over the steps", f.where())
        return
    lp = loops[0]
    sv = pat_binds(lp["pat"])
    # the branch taken when a step is pending: `if let Some(p) = &mut pending { .. }` or the `Some(p)` arm of `match &mut pending { Some(p) => .., None => .. }`
    # (the pending variable is the Option<Step> local declared before the loop, whatever its name)
    opt_locals = {l["pat"]["name"] for l in find(f.body, "let") if l["pat"]["k"] == "ident" and l["pat"].get("mut")} | {
        l["pat"]["pat"]["name"] for l in find(f.body, "let") if l["pat"]["k"] == "typed" and l["pat"]["pat"]["k"] == "ident"
    }

    def scrut_local(e):
        while e["k"] in ("ref", "paren") or (e["k"] == "unary" and e["op"].strip() in ("&", "&mut", "*")):
            e = e["e"]
        if e["k"] == "mcall" and e["m"] in ("as_mut", "as_ref", "take") and not e["args"]:
            return scrut_local(e["recv"])
        return path_of(e) if e["k"] == "path" and len(e["segs"]) == 1 else None

    cands = []
    for n in walk(lp["body"]):
        if n["k"] == "if" and n["cond"]["k"] == "letcond" and n["cond"]["pat"]["k"] == "tuplestruct" and n["cond"]["pat"]["path"]["segs"][-1] == "Some" and scrut_local(n["cond"]["e"]) in opt_locals:
            cands.append((n["then"], pat_binds(n["cond"]["pat"])))
        if n["k"] == "match" and scrut_local(n["e"]) in opt_locals:
            for a in n["arms"]:
                if a["pat"]["k"] == "tuplestruct" and a["pat"]["path"]["segs"][-1] == "Some":
                    cands.append((a["body"], pat_binds(a["pat"])))
    if len(cands) != 1 or not sv or not cands[0][1]:
        rep.undecidable("Y8", key, "expected one `Some(pending step)` branch on the pending Option<Step> in the loop, found %d" % len(cands), f.where())
        return
    br = cands[0][0]
    pend = cands[0][1][0]
    step = sv[0]

    def plain(e):
        t = show(e, 0).replace(" ", "")
        for suf in (".to_string()", ".clone()", ".to_owned()", ".into()"):
            while t.endswith(suf):
                t = t[: -len(suf)]
        return t

    lets = {l["pat"]["name"]: l["init"] for l in find(br, "let") if l["pat"]["k"] == "ident" and l.get("init") is not None}
    lets.update({l["pat"]["pat"]["name"]: l["init"] for l in find(br, "let") if l["pat"]["k"] == "typed" and l["pat"]["pat"]["k"] == "ident" and l.get("init") is not None})

    # `let (fields, names) = helper(a, b);` where the private helper returns `(vec![x, ..], vec![y, ..])` built from its parameters: fields starts with x[a, b], names with y[a, b]
    tuple_first = {}
    helpers = {h.name: h for h in src.fns if h.file == f.file and not h.self_ty and not h.test and h.body}
    for l in find(br, "let"):
        i = l.get("init")
        if l["pat"]["k"] != "tuple" or i is None or i["k"] != "call" or (path_of(i["f"]) or "") not in helpers:
            continue
        h = helpers[path_of(i["f"])]
        hp = [q["pat"]["name"] for q in h.params if q["pat"]["k"] == "ident"]
        tail = h.body["stmts"][-1] if h.body["stmts"] else None
        if len(hp) != len(i["args"]) or tail is None or tail["k"] != "expr" or tail.get("semi") or tail["e"]["k"] != "tuple" or len(tail["e"]["elems"]) != len(l["pat"]["elems"]):
            continue
        hl = {q["pat"]["name"]: q["init"] for q in find(h.body, "let") if q["pat"]["k"] == "ident" and q.get("init") is not None}
        for pe, te in zip(l["pat"]["elems"], tail["e"]["elems"]):
            v = hl.get(path_of(te) or "", te)
            if pe["k"] == "ident" and v["k"] == "macro" and v.get("name", "").endswith("vec") and v.get("args"):
                first = v["args"][0]
                fp = plain(first)
                tuple_first[pe["name"]] = plain(i["args"][hp.index(fp)]) if fp in hp else fp

    def first_of(name):
        e = lets.get(name)
        if e is not None and e["k"] == "macro" and e.get("name", "").endswith("vec") and e.get("args"):
            return plain(e["args"][0])
        return tuple_first.get(name)

    push = [c for c in find(br, "call") if is_call_to(c, "ReferredFields::new")]
    stored = fetched = None
    if len(push) == 1 and len(push[0]["args"]) == 5:
        a = push[0]["args"]
        fetched = first_of(plain(a[3])) or None
        stored = first_of(plain(a[4])) or None
        hop = [plain(a[0]), plain(a[1]), plain(a[2])]
    else:
        rep.undecidable("Y8", key, "expected one ReferredFields::new(..) with five arguments in the loop", f.where())
        return
    # the new pending step
    new_ref = new_rel = new_id = None
    for n in walk(br):
        if n["k"] != "assign":
            continue
        lhs = show(n["lhs"], 0).replace(" ", "")
        if lhs in ("*" + pend, pend):
            r = n["rhs"]
            if is_call_to(r, "Step::new") and len(r["args"]) == 3:
                new_ref, new_rel, new_id = [plain(x) for x in r["args"]]
            elif r["k"] == "struct":
                fl = {fld["name"]: plain(fld["e"]) for fld in r.get("fields", [])}
                new_ref, new_rel, new_id = fl.get("referring_id"), fl.get("referred_relation"), fl.get("referred_id")
        elif lhs == pend + ".referring_id":
            new_ref = plain(n["rhs"])
        elif lhs == pend + ".referred_relation":
            new_rel = plain(n["rhs"])
        elif lhs == pend + ".referred_id":
            new_id = plain(n["rhs"])
    rep.instance("Y8", key + "@hop", {"hop": hop, "fetches": fetched, "stored_as": stored})
    rep.instance("Y8", key + "@next", {"referring": new_ref, "relation": new_rel, "id": new_id})
    rep.instance("Y8", key + "@chain", {"stored_as": stored, "next_referring": new_ref})
    if hop != [pend + ".referring_id", pend + ".referred_relation", pend + ".referred_id"]:
        rep.violation("Y8", key + "@hop", "the hop is not built from the pending step's (referring_id, referred_relation, referred_id): %s" % hop, f.where())
    if fetched != step + ".referring_id":
        rep.violation("Y8", key + "@hop", "the hop does not fetch the next step's referring column (%s)" % fetched, f.where())
    if stored is None or new_ref != stored:
        rep.violation("Y8", key + "@chain", "the hop stores the fetched key as `%s` but the next hop starts from `%s`" % (stored, new_ref or pend + ".referring_id (unchanged)"), f.where())
    if new_rel != step + ".referred_relation" or new_id != step + ".referred_id":
        rep.violation("Y8", key + "@next", "the pending step is not moved to (%s.referred_relation, %s.referred_id): %s, %s" % (step, step, new_rel, new_id), f.where())


def b1(rep, mir, prefixes, rid="B1"):
    rep.rule(
        rid,
        "builder order (MIR def-use): `<Builder as With<Map|Reduce|Join|Set>>::with(node)` copies the node's own input(s); it is never applied to a builder on which .input/.left/.right was already called",
        floor=3,
        necessary="the later .with(node) silently restores the ORIGINAL (untracked / unprotected) input: the rewritten node reads raw rows",
    )
    W = re.compile(r"^<relation::builder::(Map|Reduce|Join|Set)Builder<.*> as builder::With<relation::(Map|Reduce|Join|Set)(, .*)?>>::with$")
    INP = re.compile(r"^relation::builder::(Map|Reduce|Join|Set)Builder::<.*>::(input|left|right)$")
    BUILDER = re.compile(r"relation::builder::|as builder::With<")
    n = 0
    for b in mir.bodies:
        if not any(b["path"].startswith(p) or ("<" + p) in b["path"][:60] for p in prefixes):
            continue
        # defining call of each local
        defcall = {}
        moves = {}
        for bi, bl in enumerate(b["blocks"]):
            for st in bl["s"]:
                dst, rv = st[0], st[1]
                if dst[1] == "" and rv[0] == "use" and rv[1][0] in ("m", "c") and rv[1][1][1] == "":
                    moves[dst[0]] = rv[1][1][0]
            t = bl["t"]
            if t[0] == "call" and isinstance(t[1], int) and t[3][1] == "":
                defcall[t[3][0]] = (mir.callees[t[1]], t[2], t[5])
        for bi, cal, args, dst, tgt, line, macs, raw in mir.calls(b):
            if not cal or not W.search(cal["path"]):
                continue
            n += 1
            key = "%s|with<%s>" % (b["path"], W.search(cal["path"]).group(3))
            # walk the receiver chain backwards
            cur = args[0][1][0] if args and args[0][0] in ("m", "c") else None
            hops = 0
            bad = None
            trail = []
            while cur is not None and hops < 30:
                hops += 1
                while cur in moves:
                    cur = moves[cur]
                if cur not in defcall:
                    break
                c2, a2, l2 = defcall[cur]
                trail.append(c2["path"].rsplit("::", 1)[-1])
                if INP.search(c2["path"]):
                    bad = (c2["path"], l2)
                    break
                if not BUILDER.search(c2["path"]):
                    break
                cur = a2[0][1][0] if a2 and a2[0][0] in ("m", "c") else None
            rep.instance(rid, key, {"fn": b["path"], "with": cal["path"][-60:], "receiver_built_by": trail[:8], "where": "%s:%d" % (b["file"], line)})
            if bad:
                rep.violation(rid, key, "`.with(node)` after `.%s(..)` (line %d): the node's original input replaces the one just set" % (bad[0].rsplit("::", 1)[-1], bad[1]), "%s:%d" % (b["file"], line))
    return n


def y9(rep, src):
    """Row privacy through a foreign key: the row pseudo-column is materialised on the referred relation before it is fetched."""
    rep.rule(
        "Y9",
        "Relation::with_referred_fields: when the fields to fetch include the row pseudo-column (`referred_fields.contains(PrivacyUnit::privacy_unit_row())`), the referred relation the join reads is "
        "`<referred relation>.privacy_unit_row()` - the branch taken in that case builds it, and the join's `.left(..)` is fed that value",
        floor=1,
        necessary="`_PRIVACY_UNIT_ROW_` is not a column of any table: if it is not added to the referred relation first, a table protected 'by row, through a foreign-key path' gets a weight column and no unit column - "
        "its tracked rows carry no unit, and the rewriting of an accepted query aborts",
    )
    fs = [f for f in src.find_fns(name="with_referred_fields", file=PUT) if f.body and not f.test]
    key = "Relation::with_referred_fields@row"
    if len(fs) != 1:
        rep.undecidable("Y9", key, "expected one with_referred_fields, found %d" % len(fs), "src/" + PUT)
        return
    f = fs[0]
    row_call = lambda e: any(x["k"] == "call" and (path_of(x["f"]) or "").endswith("privacy_unit_row") and not x["args"] for x in walk(e))
    named = {l["pat"]["name"]: l["init"] for l in find(f.body, "let") if l["pat"]["k"] == "ident" and l.get("init") is not None}

    def cond_of(n):  # the test may be a named flag: `let refers_to_row_id = referred_fields.contains(..); if refers_to_row_id { .. }`
        c = n["cond"]
        neg = False
        while c["k"] == "unary" and c["op"].strip() == "!":
            c, neg = c["e"], not neg
        if c["k"] == "path" and len(c["segs"]) == 1 and c["segs"][0] in named:
            c = named[c["segs"][0]]
        return {"k": "unary", "op": "!", "e": c, "l": c.get("l", 0)} if neg else c

    sites = []
    for n in find(f.body, "if"):
        if n["cond"]["k"] == "letcond":
            continue
        c = cond_of(n)
        if row_call(c) and any(x["k"] == "mcall" and x["m"] in ("contains", "any", "iter") for x in walk(c)):
            sites.append(dict(n, cond=c))
    if len(sites) != 1:
        rep.undecidable("Y9", key, "expected one `if referred_fields.contains(&PrivacyUnit::privacy_unit_row()..)`, found %d" % len(sites), f.where())
        return
    n = sites[0]
    negated = n["cond"]["k"] == "unary" and n["cond"]["op"].strip() == "!"
    branch = n["else"] if negated else n["then"]
    adds = branch is not None and any(x["k"] == "mcall" and x["m"] == "privacy_unit_row" and not x["args"] for x in walk(branch))
    rep.instance("Y9", key, {"condition": show(n["cond"], 80), "row_column_added_in_branch": adds})
    if not adds:
        rep.violation("Y9", key, "the branch taken when the row pseudo-column is requested does not call `.privacy_unit_row()` on the referred relation: %s" % show(branch, 80), "src/%s:%d" % (PUT, n["l"]))


def t5(rep, src):
    rep.rule(
        "T5",
        "sibling agreement: RewritingRulesSetter::table (which labels a table protected) and PrivacyUnitTracking::table (which attaches its unit) select the privacy-unit entry with the same predicate",
        floor=1,
        necessary="if the two lookups disagree a protected table is labelled Public (rows released as is) or tracked with another table's unit definition",
    )
    fa = src.one_fn(name="table", file="rewriting/rewriting_rule.rs", self_ty_re=r"^RewritingRulesSetter", trait_re=r"^SetRewritingRulesVisitor")
    fb = src.one_fn(name="table", file=PUT, self_ty_re=r"^PrivacyUnitTracking")

    def lookup(f):
        for m in find(f.body, "mcall"):
            if m["m"] in ("find", "any", "position", "find_map", "filter") and m["args"] and m["args"][0]["k"] == "closure":
                r, ms = chain(m)
                if "privacy_unit" in show(r, 0) or any("privacy_unit" in show(x["recv"], 0) for x in ms[:1]):
                    return m
        return None

    def normal(cl):
        """closure body with its first bound name replaced by a placeholder (on the AST: a method called like the parameter is left alone)"""
        from .canon import subst

        names = pat_binds(cl["params"][0]) if cl["params"] else []
        body = cl["body"]
        while body["k"] == "block" and len(body["stmts"]) == 1 and body["stmts"][0]["k"] == "expr" and not body["stmts"][0].get("semi"):
            body = body["stmts"][0]["e"]  # `|e| { test }` is `|e| test`
        if names:
            body = subst(body, {names[0]: {"k": "path", "p": "ENTRY", "segs": ["ENTRY"], "l": 0}})
        return show(body, 0).replace(" ", "")

    la, lb = lookup(fa), lookup(fb)
    if la is None or lb is None:
        rep.undecidable("T5", "table-lookup", "cannot find the privacy-unit lookup in %s" % ("setter" if la is None else "tracker"), (fa if la is None else fb).where())
        return
    na, nb = normal(la["args"][0]), normal(lb["args"][0])
    rep.instance("T5", "table-lookup", {"setter": na, "tracker": nb})
    if na != nb:
        rep.violation("T5", "table-lookup", "the setter selects the entry with `%s`, the tracker with `%s`" % (na, nb), fa.where())


def run(rep):
    rep.explanation = (
        "Structural rules over privacy_unit_tracking/mod.rs and relation/builder.rs (syn AST + MIR def-use): unit-id equality and operator order in tracked joins (Y1), tracked-side columns in "
        "published joins (Y1b), group-by-unit aggregation and strategy gate (Y2), closed PupRelation typestate (Y3), inner FK join on the right ids (Y4), JoinBuilder::and arm table (Y5), "
        "map/set carry the unit columns (Y6), builder call order (B1), setter/tracker lookup agreement (T5). Each is a necessary condition of 'a tracked row depends only on its own unit'; "
        "the for-all over databases and NULL ids from outer joins are NOT decided."
    )
    src = Src(facts.src_facts())
    mir = Mir(facts.mir_facts())
    y1(rep, src)
    y1b(rep, src)
    y2(rep, src)
    y3(rep, mir)
    y4(rep, src)
    y5(rep, src)
    y6(rep, src)
    y8(rep, src)
    y9(rep, src)
    b1(rep, mir, ["privacy_unit_tracking::", "rewriting::rewriting_rule::"])
    t5(rep, src)
    rep.assume("the builders implement their documented semantics (JoinBuilder::and is checked by Y5; With<node> copies the node's inputs: read in relation/builder.rs)")
