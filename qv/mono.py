"""Instantiation-aware reachability over the monomorphic call graph dumped by tools/mirfacts (src/mono.rs).

A vtable method (e.g. the body of a closure stored as `Arc<dyn Fn(..)>`) is reachable only when the coercion
that creates the vtable is in a reachable instance AND a virtual call of the same trait method on the same
`dyn` type is in a reachable instance.  Function items reified into fn pointers are reachable from the
reifying instance.  Drop glue is not followed (Qrlew has no Drop impl outside io/, checked by C18).
"""
import re
from collections import defaultdict, deque


class MonoGraph:
    def __init__(self, doc):
        self.nodes = doc["nodes"]
        self.roots = doc["roots"]
        self.failures = doc.get("failures", 0)
        self.by_path = defaultdict(list)
        for i, n in enumerate(self.nodes):
            self.by_path[n["p"]].append(i)

    def root_ids(self, regexes, local_only=True):
        rs = [re.compile(r) for r in regexes]
        out = []
        for i in self.roots:
            n = self.nodes[i]
            if any(r.search(n["p"]) for r in rs):
                out.append(i)
        return out

    def reach(self, roots, stop_paths=None, suppressed=None):
        """Returns {node id: predecessor id or None}."""
        stop_paths = stop_paths or set()
        suppressed = suppressed or set()
        nodes = self.nodes
        seen = {}
        dq = deque()
        virt = set()  # (trait method path, dyn type) with a reachable call site
        pending = defaultdict(list)  # (method, dyn) -> [(creator id, target id)]

        def push(t, pred):
            if t not in seen:
                seen[t] = pred
                dq.append(t)

        for r in roots:
            push(r, None)
        while dq:
            i = dq.popleft()
            n = nodes[i]
            if n["p"] in stop_paths:
                continue
            for (c, _l) in n["c"]:
                if (n["p"], nodes[c]["p"]) in suppressed:
                    continue
                push(c, i)
            for c in n.get("fp", ()):
                push(c, i)
            for (m, d, _l) in n.get("v", ()):
                key = (m, d)
                if key not in virt:
                    virt.add(key)
                    for (creator, t) in pending.pop(key, ()):
                        push(t, creator)
            for (d, ms) in n.get("vt", ()):
                for (m, t) in ms:
                    key = (m, d)
                    if key in virt:
                        push(t, i)
                    else:
                        pending[key].append((i, t))
        return seen

    def chain(self, seen, i, maxlen=14):
        out = [i]
        while seen.get(i) is not None and len(out) < maxlen:
            i = seen[i]
            out.append(i)
        return [self.nodes[j]["n"] for j in reversed(out)]

    def local_paths(self, seen):
        """def paths of local-crate bodies with at least one reachable instance -> one witness instance id."""
        out = {}
        for i in seen:
            n = self.nodes[i]
            if n["l"] and n["b"]:
                out.setdefault(n["p"], i)
        return out
