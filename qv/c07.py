"""C07 — relation schemas and size bounds contain what execution produces (static clauses).

R   declared co-domain of every `Pointwise` / evaluated `Unimplemented` function ⊇ range of its value closure
    (interval / finite-set abstract interpretation, oracle = qv/c07_ranges.py);
Z1  outer-join nullability table of `Join::schema`, preserved side of `DataType::filter_by_join_operator`,
    side pairing of `JoinOperator::filtered_schemas`;
Z2  the size interval stored by `Map/Reduce/Join/Set/Values::new` contains the possible row counts
    (extracted term evaluated on a grid of stub inputs against the row-count semantics of the operator);
Z3  field types of `Set::schema` per set operator.
"""
from . import facts
from .core import Src, Anchor, find, walk, children, show, path_of, is_call_to, strip_generics
from . import c07_ranges as T
from . import util_c07_absint as AI
from . import util_c07_size as SZ

LEVEL = "other"
EXHAUSTIVE = False
FN = "data_type/function.rs"
REL = "relation/mod.rs"

# =========================================================================== R


def closure_of(n):
    """`closure` | Arc::new(Mutex::new(RefCell::new(closure))) -> the closure node."""
    while n["k"] == "call" and len(n["args"]) == 1 and strip_generics(path_of(n["f"]) or "").split("::")[-1] == "new":
        n = n["args"][0]
    return n if n["k"] == "closure" else None


def domain_parts(kind, n):
    if kind in ("bivariate", "trivariate") and n["k"] == "tuple":
        return n["elems"]
    if kind == "variadic":
        return None
    return [n]


def param_value(cls):
    if cls in ("Date", "DateTime", "Time"):
        return AI.Obj(cls)
    if cls == "Text":
        return AI.Strs(None)
    if cls == "Int":
        return AI.Num(T.I64MIN, T.I64MAX, False)
    if cls == "Float":
        return AI.Num(float("-inf"), float("inf"), True)
    if cls == "Bool":
        return AI.Bool()
    return AI.Obj("Value")


def site_base(f, n, kind):
    """Key stem `<enclosing fn>@<domain variants>` of a Pointwise site, and its parsed domain components."""
    parts = domain_parts(kind, n["args"][0])
    dom_decls = []
    for d in parts or []:
        try:
            dom_decls.append(AI.parse_decl(d))
        except AI.Unknown:
            dom_decls.append(None)
    dom_txt = ",".join(d.variant if d else "?" for d in dom_decls) if parts is not None else "variadic"
    return "%s@%s" % (f.name, dom_txt), dom_decls


def rule_r(rep, src):
    rep.rule(
        "R",
        "for every Pointwise::{univariate,bivariate,trivariate,variadic,new} (and every Unimplemented::new with a real value closure) in data_type/function.rs "
        "whose declared co-domain is a proper subset of its variant, the range of the value closure — computed by interval / finite-set abstract interpretation with the "
        "chrono/std/rand method ranges of qv/c07_ranges.py, `match` arms as finite sets — is contained in the declared co-domain; a method outside the table fails closed",
        floor=50,
        necessary="Pointwise::super_image returns the declared co-domain for every non-enumerable input set: a value of the closure outside it is a column value outside the declared type "
        "(and Pointwise::value refuses it)",
    )
    sites = []
    for f in src.find_fns(file=FN):
        if f.body is None:
            continue
        for n in find(f.body, "call"):
            p = strip_generics(path_of(n["f"]) or "")
            segs = p.split("::")
            if len(segs) >= 2 and segs[-2] == "Pointwise" and segs[-1] in ("univariate", "bivariate", "trivariate", "variadic", "new"):
                sites.append((f, n, segs[-1]))
            elif len(segs) >= 2 and segs[-2] == "Unimplemented" and segs[-1] == "new":
                sites.append((f, n, "unimplemented"))
    if not sites:
        raise Anchor("no Pointwise::* call in %s" % FN)
    keys = {}
    table = []
    base_count = {}
    for f, n, kind in sites:
        if len(n["args"]) == 3:
            b = site_base(f, n, kind)[0]
            base_count[b] = base_count.get(b, 0) + 1
    for f, n, kind in sites:
        where = "src/%s:%d" % (FN, n["l"])
        if len(n["args"]) != 3:
            rep.undecidable("R", f.name + "@arity", "%s with %d arguments" % (show(n["f"]), len(n["args"])), where)
            continue
        dom, cod, clo = n["args"][0], n["args"][1], closure_of(n["args"][2])
        if kind == "unimplemented" and clo is not None and clo["body"]["k"] == "macro" and clo["body"]["name"] in ("unimplemented", "todo"):
            continue  # no value closure: nothing of Qrlew computes a value
        base, dom_decls = site_base(f, n, kind)
        try:
            decl = AI.parse_decl(cod)
        except AI.Unknown as e:
            rep.instance("R", base, None)
            rep.undecidable("R", base, "cannot read the declared co-domain: %s" % e, where)
            continue
        key = base if base_count[base] == 1 else "%s->%s" % (base, decl.variant)
        while key in keys:
            key += "'"
        keys[key] = 1
        if decl.full:
            rep.instance("R", key, None, nontrivial=False)
            table.append("%s: %s (whole variant: by typing)" % (key, decl.text))
            continue
        sample = {"site": key, "where": where, "declared": decl.text}
        if clo is None:
            rep.instance("R", key, sample)
            rep.undecidable("R", key, "the value argument is not a closure literal: %s" % show(n["args"][2], 80), where)
            continue
        env = {}
        for p in f.params:
            if p["pat"]["k"] == "ident":
                env[p["pat"]["name"]] = AI.Obj("Captured")
        it = AI.Interp(HELPERS)
        try:
            if kind in ("univariate", "bivariate", "trivariate"):
                if len(clo["params"]) != len(dom_decls):
                    raise AI.Unknown("closure arity %d for %d domain components" % (len(clo["params"]), len(dom_decls)))
                vals = []
                for d in dom_decls:
                    if d is None or not d.full or d.optional:
                        raise AI.Unknown("restricted or unreadable domain (the rule evaluates the closure over the whole element type)")
                    vals.append(param_value(T.ELEMENT_CLASS.get(d.variant)))
            else:
                vals = [AI.Obj("Value")] * len(clo["params"])
            val = it.apply(clo, vals, env)
            bad = AI.contained(val, decl)
        except AI.Unknown as e:
            rep.instance("R", key, sample)
            rep.undecidable("R", key, "cannot bound the closure `%s`: %s" % (show(clo, 90), e), where)
            continue
        sample.update({"closure": show(clo, 110), "range": repr(val), "table_rows": it.used})
        rep.instance("R", key, sample)
        table.append("%s: declared %s, closure range %r" % (key, decl.text, val))
        if bad:
            rep.violation(
                "R",
                key,
                "declared co-domain %s does not contain the range %r of the closure `%s`: %s [%s]" % (decl.text, val, show(clo, 90), bad, "; ".join(it.used)),
                where,
            )
    rep.extra["R_table"] = table


# =========================================================================== side tagging (Z1, Z3)


def param_names(f, ty_sub):
    return [p["pat"]["name"] for p in f.params if not p.get("self") and ty_sub in p["ty"].replace(" ", "") and p["pat"]["k"] == "ident"]


class Sides:
    """Which join input(s) an expression is derived from: {'L'}, {'R'}, both or none."""

    def __init__(self, left, right):
        self.tags = {left: {"L"}, right: {"R"}}

    def tag(self, e):
        if isinstance(e, list):
            out = set()
            for x in e:
                out |= self.tag(x)
            return out
        if not isinstance(e, dict) or "k" not in e:
            return set()
        k = e["k"]
        if k == "index":
            return self.tag(e["i"]) or self.tag(e["e"])
        if k == "path":
            return set(self.tags.get(e["segs"][0], set())) if len(e["segs"]) == 1 else set()
        if k == "call":
            p = strip_generics(path_of(e["f"]) or "")
            if p.endswith("left_name") and not e["args"]:
                return {"L"}
            if p.endswith("right_name") and not e["args"]:
                return {"R"}
        out = set()
        for c in children(e):
            out |= self.tag(c)
        return out

    def scan_lets(self, body):
        for s in body["stmts"]:
            if s["k"] != "let" or s.get("init") is None:
                continue
            pat = s["pat"]
            while pat["k"] == "typed":
                pat = pat["pat"]
            init = s["init"]
            if pat["k"] == "ident":
                self.tags[pat["name"]] = self.tag(init)
            elif pat["k"] == "tuple":
                per = None
                if init["k"] == "mcall" and len(init["args"]) == len(pat["elems"]):
                    per = [self.tag(a) for a in init["args"]]  # f(a, b) -> (about a, about b): checked on the callee itself
                for i, p in enumerate(pat["elems"]):
                    if p["k"] == "ident":
                        self.tags[p["name"]] = per[i] if per else self.tag(init)


def pat_has_variant(pat, variant):
    k = pat["k"]
    if k in ("wild", "ident"):
        return True
    if k == "or":
        return any(pat_has_variant(c, variant) for c in pat["cases"])
    if k == "ref":
        return pat_has_variant(pat["pat"], variant)
    if k == "path":
        return pat["segs"][-1] == variant
    if k in ("tuplestruct", "struct"):
        return pat["path"]["segs"][-1] == variant
    return None


def arm_for(m, variant):
    for a in m["arms"]:
        if a.get("guard"):
            return None
        r = pat_has_variant(a["pat"], variant)
        if r is None:
            return None
        if r:
            return a
    return None


def bool_for(e, variant, lets, opname, depth=0):
    """Value of a boolean expression over `match <operator>` for one operator variant (None = cannot decide)."""
    if depth > 8:
        return None
    k = e["k"]
    if k == "lit" and e["t"] == "bool":
        return bool(e["v"])
    if k == "path" and len(e["segs"]) == 1 and e["segs"][0] in lets:
        return bool_for(lets[e["segs"][0]], variant, lets, opname, depth + 1)
    if k == "unary" and e["op"] == "!":
        v = bool_for(e["e"], variant, lets, opname, depth + 1)
        return None if v is None else not v
    if k == "binary" and e["op"] in ("&&", "||"):
        a, b = bool_for(e["lhs"], variant, lets, opname, depth + 1), bool_for(e["rhs"], variant, lets, opname, depth + 1)
        if a is None or b is None:
            return None
        return (a and b) if e["op"] == "&&" else (a or b)
    if k == "match" and show(e["e"], 0).lstrip("&*") in (opname, "self"):
        a = arm_for(e, variant)
        return None if a is None else bool_for(a["body"], variant, lets, opname, depth + 1)
    if k == "block" and len(e["stmts"]) == 1 and e["stmts"][0]["k"] == "expr":
        return bool_for(e["stmts"][0]["e"], variant, lets, opname, depth + 1)
    if k == "paren":
        return bool_for(e["e"], variant, lets, opname, depth + 1)
    if k == "macro" and str(e.get("name", "")).split("::")[-1] == "matches" and e.get("args") and len(e["args"]) == 2 and show(e["args"][0], 0).lstrip("&*") in (opname, "self"):
        # matches!(operator, JoinOperator::A(_) | JoinOperator::B) — the pattern is parsed as an expression: alternatives joined by `|`
        alts, st = [], [e["args"][1]]
        while st:
            x = st.pop()
            if x["k"] == "binary" and x["op"] == "|":
                st += [x["lhs"], x["rhs"]]
            elif x["k"] == "paren":
                st.append(x["e"])
            else:
                alts.append(x)
        names = set()
        for x in alts:
            p = path_of(x["f"]) if x["k"] == "call" else path_of(x)
            if not p or x["k"] not in ("call", "path") or (x["k"] == "call" and any(show(a, 0) != "_" for a in x["args"])):
                return None
            names.add(p.split("::")[-1])
        return variant in names
    return None


def is_optional_call(e):
    return is_call_to(e, "DataType::optional") and len(e["args"]) == 1


def optional_form(e):
    """The data-type argument of Field::new -> 'always' | 'never' | ('flag', bool_expr, polarity) | None."""
    if is_optional_call(e):
        return "always"
    if e["k"] == "mcall" and e["m"] in ("unwrap_or", "unwrap_or_else") and e["recv"]["k"] == "mcall" and e["recv"]["m"] in ("then_some", "then"):
        inner = e["recv"]
        some = inner["args"][0]
        if some["k"] == "closure":
            some = some["body"]
        dflt = e["args"][0]["body"] if e["args"][0]["k"] == "closure" else e["args"][0]
        if is_optional_call(some) and not any(is_optional_call(x) for x in walk(dflt)):
            return ("flag", inner["recv"], True)
        if is_optional_call(dflt) and not any(is_optional_call(x) for x in walk(some)):
            return ("flag", inner["recv"], False)
        return None
    if e["k"] == "if" and e.get("else") and e["cond"]["k"] != "letcond":
        t, f = optional_form(e["then"]), optional_form(e["else"])
        if t == "always" and f == "never":
            return ("flag", e["cond"], True)
        if t == "never" and f == "always":
            return ("flag", e["cond"], False)
        return None
    if e["k"] == "block" and len(e["stmts"]) == 1 and e["stmts"][0]["k"] == "expr":
        return optional_form(e["stmts"][0]["e"])
    if e["k"] == "mcall" and e["m"] in ("data_type", "clone") and not any(is_optional_call(x) for x in walk(e)):
        return "never"
    return None


HELPERS = {}  # private free functions of data_type/function.rs (filled by run): an extracted helper is interpreted through its body

NULLABLE = {"Inner": set(), "Cross": set(), "LeftOuter": {"R"}, "RightOuter": {"L"}, "FullOuter": {"L", "R"}}
PRESERVED = {"Inner": set(), "Cross": {"L", "R"}, "LeftOuter": {"L"}, "RightOuter": {"R"}, "FullOuter": {"L", "R"}}
SIDE = {"L": "left", "R": "right"}


def own_fn(src, self_ty, name):
    fs = [f for f in src.find_fns(name=name, self_ty=self_ty, file=REL) if not f.trait]
    if len(fs) != 1:
        raise Anchor("expected one inherent fn %s::%s in %s, found %d" % (self_ty, name, REL, len(fs)))
    return fs[0]


def rule_z1(rep, src):
    rep.rule(
        "Z1",
        "outer-join nullability: in Join::schema the fields of a side are wrapped in DataType::optional for every JoinOperator variant whose result can carry NULLs on that side "
        "(LeftOuter: right, RightOuter: left, FullOuter: both); in DataType::filter_by_join_operator the preserved side (LeftOuter: left, RightOuter: right, FullOuter/Cross: both) keeps the "
        "unfiltered type and each slot takes the component of its own side; JoinOperator::filtered_schemas pairs each side name with its own input and returns (left, right)",
        floor=23,
        necessary="an unmatched row of an outer join carries NULL on the other side and keeps its own values whatever the ON predicate: a non-optional / ON-narrowed type for it does not contain them",
    )
    variants = src.enum_variants("JoinOperator", file=REL)
    for v in variants:
        if v not in NULLABLE:
            rep.undecidable("Z1", "JoinOperator::" + v, "no NULL semantics known for the new JoinOperator variant %s" % v, "src/" + REL)
    variants = [v for v in variants if v in NULLABLE]
    # ---- Join::schema
    f = own_fn(src, "Join", "schema")
    ops, rels = param_names(f, "JoinOperator"), param_names(f, "Relation")
    if len(ops) != 1 or rels[:2] != ["left", "right"]:
        raise Anchor("Join::schema: expected parameters (.., left: &Relation, right: &Relation, operator: &JoinOperator)")
    opname = ops[0]
    sides = Sides("left", "right")
    sides.scan_lets(f.body)
    lets = {s["pat"]["name"] if s["pat"]["k"] == "ident" else s["pat"]["pat"]["name"]: s["init"] for s in f.body["stmts"] if s["k"] == "let" and s.get("init") and (s["pat"]["k"] == "ident" or (s["pat"]["k"] == "typed" and s["pat"]["pat"]["k"] == "ident"))}
    seen_sides = set()
    for m in find(f.body, "mcall", lambda x: x["m"] == "map" and len(x["args"]) == 1 and x["args"][0]["k"] == "closure"):
        fields = [c for c in walk(m["args"][0]) if is_call_to(c, "Field::new") and len(c["args"]) == 3]
        if not fields:
            continue
        where = "src/%s:%d" % (REL, fields[0]["l"])
        zips = [z for z in walk(m["recv"]) if z["k"] == "mcall" and z["m"] == "zip" and len(z["args"]) == 1]
        tg = sides.tag(zips[0]["args"][0]) if len(zips) == 1 else set()
        if len(fields) != 1 or len(tg) != 1:
            rep.undecidable("Z1", "Join::schema@fields", "cannot attribute `%s` to one join side" % show(m, 70), where)
            continue
        side = next(iter(tg))
        seen_sides.add(side)
        ty_arg = fields[0]["args"][1]
        if ty_arg["k"] == "path" and len(ty_arg["segs"]) == 1:  # `let left_data_type = flag.then_some(optional(..)).unwrap_or(..); Field::new(name, left_data_type, ..)`
            cl_lets = [x for x in find(m["args"][0], "let") if x["pat"]["k"] == "ident" and x["pat"]["name"] == ty_arg["segs"][0] and x.get("init") is not None]
            if len(cl_lets) == 1:
                ty_arg = cl_lets[0]["init"]
        form = optional_form(ty_arg)
        for v in variants:
            key = "Join::schema@%s:%s" % (v, SIDE[side])
            if form is None:
                opt = None
            elif form in ("always", "never"):
                opt = form == "always"
            else:
                b = bool_for(form[1], v, lets, opname)
                opt = None if b is None else (b == form[2])
            need = side in NULLABLE[v]
            rep.instance("Z1", key, {"site": key, "type": show(fields[0]["args"][1], 100), "optional": opt, "nulls_possible": need}, nontrivial=True)
            if opt is None:
                rep.undecidable("Z1", key, "cannot decide whether `%s` is optional for JoinOperator::%s" % (show(fields[0]["args"][1], 90), v), where)
            elif need and not opt:
                rep.violation("Z1", key, "a %s join yields NULLs in the %s columns (unmatched rows of the other side) but Join::schema does not make them optional" % (v, SIDE[side]), where)
    for s in ("L", "R"):
        if s not in seen_sides:
            rep.undecidable("Z1", "Join::schema@%s" % SIDE[s], "no Field::new site found for the %s fields" % SIDE[s], f.where())
    # ---- filter_by_join_operator
    g = own_fn(src, "DataType", "filter_by_join_operator")
    ops = param_names(g, "JoinOperator")
    ms = [m for m in find(g.body, "match") if len(ops) == 1 and show(m["e"], 0).lstrip("&*") == ops[0]]
    if len(ms) != 1:
        raise Anchor("DataType::filter_by_join_operator: expected one `match` over the JoinOperator parameter")
    for v in variants:
        a = arm_for(ms[0], v)
        where = "src/%s:%d" % (REL, (a or ms[0])["l"])
        res = None if a is None else dt_sources(a["body"], {}, rep, v, where)
        for s in ("L", "R"):
            key = "filter_by_join_operator@%s:%s" % (v, SIDE[s])
            srcs = None if res is None else res.get(s)
            rep.instance("Z1", key, {"site": key, "type_taken_from": srcs})
            if srcs is None:
                rep.undecidable("Z1", key, "cannot tell whether the %s type is the filtered or the unfiltered one for %s" % (SIDE[s], v), where)
            elif srcs == "F" and s in PRESERVED[v]:
                rep.violation("Z1", key, "%s preserves every %s row, but the %s type is narrowed by the ON predicate: an unmatched row's value is outside it" % (v, SIDE[s], SIDE[s]), where)
    # ---- filtered_schemas
    from .canon import canon_view as _cvz1

    h = _cvz1(own_fn(src, "JoinOperator", "filtered_schemas"), src, keep_lets={"left_schema", "right_schema", "filtered_data_type", "data_type"})  # a private per-side helper (`filtered_side_schema(&dt, Join::left_name(), left)`) is read through
    rels = param_names(h, "Relation")
    if rels[:2] != ["left", "right"]:
        raise Anchor("JoinOperator::filtered_schemas: expected parameters (left, right)")
    sd = Sides("left", "right")
    for c in find(h.body, "call", lambda x: is_call_to(x, "DataType::structured") and len(x["args"]) == 1 and x["args"][0]["k"] == "array"):
        for el in c["args"][0]["elems"]:
            if el["k"] == "tuple" and len(el["elems"]) == 2:
                a, b = sd.tag(el["elems"][0]), sd.tag(el["elems"][1])
                key = "filtered_schemas@slot:%s" % "".join(SIDE[x] for x in sorted(a))
                rep.instance("Z1", key, {"site": key, "slot": show(el["elems"][0]), "value_from": sorted(b)})
                if len(a) != 1 or a != b:
                    rep.violation("Z1", key, "slot `%s` is filled with the type of another input: `%s`" % (show(el["elems"][0]), show(el["elems"][1], 80)), "src/%s:%d" % (REL, el["l"]))
    sd.scan_lets(h.body)
    last = h.body["stmts"][-1]
    ret = last.get("e") if last["k"] == "expr" else None
    key = "filtered_schemas@return"
    if ret is None or ret["k"] != "tuple" or len(ret["elems"]) != 2:
        rep.instance("Z1", key, None)
        rep.undecidable("Z1", key, "the result is not a literal pair", h.where())
    else:
        tags = [sd.tag(x) for x in ret["elems"]]
        rep.instance("Z1", key, {"site": key, "returns": [sorted(t) for t in tags]})
        if tags != [{"L"}, {"R"}]:
            rep.violation("Z1", key, "filtered_schemas(left, right) must return (schema derived from left only, schema derived from right only); found %s" % [sorted(t) for t in tags], "src/%s:%d" % (REL, ret["l"]))


def dt_sources(e, env, rep, variant, where):
    """Abstractly evaluate a DataType expression of filter_by_join_operator: {'L': 'U'|'F', 'R': ...} or ('comp', side, src)."""
    k = e["k"]
    if k == "path" and len(e["segs"]) == 1:
        if e["segs"][0] == "self":
            return {"L": "U", "R": "U"}
        return env.get(e["segs"][0])
    if k == "ref":
        return dt_sources(e["e"], env, rep, variant, where)
    if k == "mcall":
        r = dt_sources(e["recv"], env, rep, variant, where)
        if r is None:
            return None
        if e["m"] in ("clone", "to_owned", "into"):
            return r
        if e["m"] == "filter" and isinstance(r, dict):
            return {"L": "F", "R": "F"}
        return None
    if k == "index":
        base = dt_sources(e["e"], env, rep, variant, where)
        tg = Sides("\0", "\0").tag(e["i"])
        if isinstance(base, dict) and len(tg) == 1:
            s = next(iter(tg))
            return ("comp", s, base[s])
        return None
    if k == "block":
        env = dict(env)
        for s in e["stmts"][:-1]:
            if s["k"] == "let" and s["pat"]["k"] == "ident" and s.get("init"):
                env[s["pat"]["name"]] = dt_sources(s["init"], env, rep, variant, where)
            else:
                return None
        last = e["stmts"][-1]
        return dt_sources(last["e"], env, rep, variant, where) if last["k"] == "expr" and not last.get("semi") else None
    if is_call_to(e, "DataType::structured") and len(e["args"]) == 1 and e["args"][0]["k"] == "array":
        out = {}
        for el in e["args"][0]["elems"]:
            if el["k"] != "tuple" or len(el["elems"]) != 2:
                return None
            slot = Sides("\0", "\0").tag(el["elems"][0])
            val = dt_sources(el["elems"][1], env, rep, variant, where)
            if len(slot) != 1 or not isinstance(val, tuple):
                return None
            s = next(iter(slot))
            if val[1] != s:
                rep.violation("Z1", "filter_by_join_operator@%s:%s" % (variant, SIDE[s]), "the %s slot receives the %s component: `%s`" % (SIDE[s], SIDE[val[1]], show(el["elems"][1], 80)), where)
            out[s] = val[2]
        return out if set(out) == {"L", "R"} else None
    return None


# =========================================================================== Z3


def rule_z3(rep, src):
    rep.rule(
        "Z3",
        "Set::schema: the type of a UNION column contains both input types (super_union of the left and right field types); EXCEPT keeps (a superset of) the left type; "
        "INTERSECT may use either input type, their intersection or their union",
        floor=3,
        necessary="UNION returns rows of both inputs and EXCEPT returns left rows whatever the right type is: a narrower column type does not contain them",
    )
    from .canon import canon_view

    f = canon_view(own_fn(src, "Set", "schema"), src, helpers=False, multi_use=True)  # `let left_data_type = left_field.data_type();` used in several arms is read through
    ops = param_names(f, "SetOperator")
    if len(ops) != 1:
        raise Anchor("Set::schema: expected one &SetOperator parameter")
    sides = Sides("left", "right")
    # closure (name, (lf, rf)) over names.zip(A.zip(B)): lf is about A, rf about B
    bound = False
    for m in find(f.body, "mcall", lambda x: x["m"] == "map" and len(x["args"]) == 1 and x["args"][0]["k"] == "closure"):
        zs = [z for z in walk(m["recv"]) if z["k"] == "mcall" and z["m"] == "zip" and len(z["args"]) == 1 and z["args"][0]["k"] == "mcall" and z["args"][0]["m"] == "zip"]
        ps = m["args"][0]["params"]
        if len(zs) == 1 and len(ps) == 1 and ps[0]["k"] == "tuple" and len(ps[0]["elems"]) == 2 and ps[0]["elems"][1]["k"] == "tuple":
            inner = zs[0]["args"][0]
            pa, pb = ps[0]["elems"][1]["elems"]
            if pa["k"] == "ident" and pb["k"] == "ident":
                sides.tags[pa["name"]] = sides.tag(inner["recv"])
                sides.tags[pb["name"]] = sides.tag(inner["args"][0])
                bound = True
    ms = [m for m in find(f.body, "match") if show(m["e"], 0).lstrip("&*") == ops[0]]
    if len(ms) != 1 or not bound:
        raise Anchor("Set::schema: expected `names.zip(left.schema().iter().zip(right.schema().iter())).map(|(name, (l, r))| .. match operator ..)`")
    allowed = {"Union": {"union"}, "Except": {"L", "union"}, "Intersect": {"L", "R", "union", "intersection"}}
    for v in src.enum_variants("SetOperator", file=REL):
        key = "Set::schema@" + v
        a = arm_for(ms[0], v)
        where = "src/%s:%d" % (REL, (a or ms[0])["l"])
        form = None if a is None else set_type_form(a["body"], sides)
        rep.instance("Z3", key, {"site": key, "type": None if a is None else show(a["body"], 100), "form": form})
        if v not in allowed:
            rep.undecidable("Z3", key, "no semantics known for the new SetOperator variant", where)
        elif form is None:
            rep.undecidable("Z3", key, "cannot read the field type `%s`" % (show(a["body"], 90) if a else "?"), where)
        elif form not in allowed[v]:
            what = {"L": "the left type only", "R": "the right type only", "intersection": "the intersection of the two types", "union": "the union"}[form]
            rep.violation("Z3", key, "the column type of %s is %s: rows coming from %s can carry values outside it" % (v.upper(), what, "the right input" if v == "Union" and form == "L" else "the left input"), where)


def set_type_form(e, sides):
    while (e["k"] == "mcall" and e["m"] in ("unwrap", "expect", "clone")) or e["k"] == "try":
        e = e["recv"] if e["k"] == "mcall" else e["e"]
    if e["k"] == "block" and len(e["stmts"]) == 1 and e["stmts"][0]["k"] == "expr":
        return set_type_form(e["stmts"][0]["e"], sides)
    if e["k"] == "mcall" and e["m"] == "data_type" and not e["args"]:
        t = sides.tag(e["recv"])
        return next(iter(t)) if len(t) == 1 else None
    if e["k"] == "mcall" and e["m"] in ("super_union", "super_intersection") and len(e["args"]) == 1:
        a, b = set_type_form(e["recv"], sides), set_type_form(e["args"][0]["e"] if e["args"][0]["k"] == "ref" else e["args"][0], sides)
        if {a, b} == {"L", "R"}:
            return "union" if e["m"] == "super_union" else "intersection"
        if a == b and a in ("L", "R"):
            return a
    return None


# =========================================================================== Z2

SIZES = [(0, 0), (0, 1), (1, 1), (0, 3), (2, 3), (3, 3), (0, 100), (5, 100), (0, 2**40), (7, SZ.I64MAX)]
LIMITS = [None, 0, 1, 2, 50]


def sz(v):
    return "unbounded" if v >= SZ.I64MAX else str(v)


class Z2:
    def __init__(self, rep, src):
        self.rep, self.src = rep, src
        names = [("Map", "new"), ("Map", "size"), ("Reduce", "new"), ("Reduce", "size"), ("Join", "new"), ("Join", "size"), ("Set", "new"), ("Set", "size"), ("Values", "new"), ("JoinOperator", "has_unique_constraint")]
        self.fns = {"%s::%s" % (t, n): own_fn(src, t, n) for t, n in names}
        self.flags = (False, False)
        self.ev = SZ.Evaluator(self.fns, {"JoinOperator::expr_has_unique_constraint": lambda args: (self.flags[0], self.flags[1])}, resolve=self.resolve)
        self.reported = set()
        self.witnesses = {}
        self.skipped_overflow = 0
        self.points = 0
        self.misses = {}
        self.illformed = {}  # key -> (context, lo, hi, where): Integer::from_interval(lo, hi) with lo > hi panics (C18/P4)

    def resolve(self, qual):
        """`Type::helper` / `helper` -> the unique inherent (or free) non-test fn of relation/mod.rs with that name."""
        parts = qual.split("::")
        if len(parts) > 2 or not parts[-1] or qual.startswith("<"):
            return None
        fs = [f for f in self.src.find_fns(name=parts[-1], file=REL) if not f.trait and (f.self_ty or "") == (parts[0] if len(parts) == 2 else "")]
        return fs[0] if len(fs) == 1 else None

    def args_for(self, qual, roles):
        """Stub arguments of X::new by parameter name / type."""
        out = []
        f = self.fns[qual]
        missing = set(roles)
        for p in f.params:
            nm = p["pat"].get("name")
            if nm in roles:
                out.append(roles[nm])
                missing.discard(nm)
            else:
                out.append(SZ.Opaque(nm or "?"))
        if missing:
            raise Anchor("%s: parameter(s) %s not found" % (qual, ", ".join(sorted(missing))))
        return out

    def declared(self, qual, roles, key, where):
        self.points += 1
        try:
            r = self.ev.call(qual, self.args_for(qual, roles))
        except SZ.Overflow:
            self.skipped_overflow += 1
            return None
        except SZ.Undecided as e:
            self.undecided(key, "cannot evaluate the size term of %s: %s" % (qual, e), where)
            return None
        size = r.fields.get("size") if isinstance(r, SZ.Struct) else None
        if not isinstance(size, SZ.Size) or not isinstance(size.lo, SZ.Int) or not isinstance(size.hi, SZ.Int):
            self.undecided(key, "%s does not store a size built by Integer::from_interval/from_min/from over the inputs' bounds" % qual, where)
            return None
        return size

    def undecided(self, key, msg, where):
        if (key, "u") not in self.reported:
            self.reported.add((key, "u"))
            self.rep.undecidable("Z2", key, msg, where)

    def check(self, key, size, lo, hi, ctx, where, sub=""):
        """declared [size.lo, size.hi] must contain the possible row counts [lo, hi]; one witness is kept per (bound, sub-case)."""
        if size is None:
            return
        if size.lo.v > size.hi.v and key not in self.illformed:
            self.illformed[key] = (ctx, size.lo.v, size.hi.v, where)
        for bound, bad, possible, tags, wrong_end in (("lo", size.lo.v > lo, lo, size.lo.tags, ".max"), ("hi", size.hi.v < hi, hi, size.hi.tags, ".min")):
            if not bad:
                continue
            self.misses[(key, bound)] = self.misses.get((key, bound), 0) + 1
            w = self.witnesses.setdefault((key, bound), {"where": where, "subs": {}, "pol": set()})
            w["pol"] |= {t for t in tags if t.endswith(wrong_end)}
            if sub not in w["subs"] and len(w["subs"]) < 4:
                w["subs"][sub] = "%s: declared size [%s, %s] but %s row(s) are possible" % (ctx, sz(size.lo.v), sz(size.hi.v), sz(possible))

    def flush(self):
        # a different (e.g. tighter) wrong bound of an already-known construct must show up as a NEW violation: the key carries the
        # number of grid points on which the declared interval misses a possible row count
        for (key, bound), w in self.witnesses.items():
            w["n"] = self.misses.get((key, bound), 0)
        for (key, bound), w in self.witnesses.items():
            pol = ""
            if w["pol"]:
                pol = " — the %s bound is computed from an input *%s* bound (%s)" % ("lower" if bound == "lo" else "upper", "upper" if bound == "lo" else "lower", ", ".join(sorted(w["pol"])))
            self.rep.violation("Z2", "%s:%s#%d" % (key, bound, w["n"]), " | ".join(w["subs"].values()) + pol + " [%d grid points]" % w["n"], w["where"])

    def run(self):
        rep = self.rep
        rep.rule(
            "Z2",
            "the size interval stored by Map::new / Reduce::new / Join::new / Set::new / Values::new (term extracted from the constructor and the X::size it calls, evaluated on a grid of stub inputs: "
            "input sizes, limit, offset, operator variant, uniqueness flags of the ON expression, set quantifier, presence of a filter / of grouping keys) contains every possible row count of the operator: "
            "lower bound <= least count, upper bound >= greatest count (Map: min(limit, max(0, in - offset)); Reduce: in, and exactly 1 without keys; Union: l + r; Intersect: min(l, r); Except: l; "
            "joins by kind and uniqueness); a bound built from the wrong end of an input interval is named",
            floor=30,
            necessary="a database whose inputs have the witness sizes returns a number of rows outside the declared size interval",
        )
        wh = lambda q: self.fns[q].where()
        # ---- Map
        for li, lim in enumerate(LIMITS):
            for oi, off in enumerate(LIMITS):
                for filt in (False, True):
                    key = "Map::size"
                    case = "%s@%s,%s,%s" % (key, "limit" if lim is not None else "-", "offset" if off is not None else "-", "filter" if filt else "-")
                    if li in (0, 1) and oi in (0, 1):
                        rep.instance("Z2", case, {"case": case})
                    for a, b in SIZES:
                        roles = {
                            "input": SZ.Rel("input", a, b),
                            "limit": SZ.NONE if lim is None else SZ.Some(SZ.Int(lim, {"limit"})),
                            "offset": SZ.NONE if off is None else SZ.Some(SZ.Int(off, {"offset"})),
                            "filter": SZ.Some(SZ.Opaque("filter")) if filt else SZ.NONE,
                        }
                        size = self.declared("Map::new", roles, key, wh("Map::size"))
                        lo, hi = SZ.rows_map(a, b, lim, off, filt)
                        self.check(key, size, lo, hi, "Map (input size [%s, %s], LIMIT %s OFFSET %s%s)" % (a, sz(b), lim, off, ", WHERE .." if filt else ""), wh("Map::size"))
        # ---- Reduce
        for nk in (0, 2):
            case = "Reduce::size@%s" % ("no-key" if nk == 0 else "keys")
            rep.instance("Z2", case, {"case": case})
            for a, b in SIZES:
                roles = {"input": SZ.Rel("input", a, b), "group_by": SZ.Lst("group_by", nk)}
                size = self.declared("Reduce::new", roles, "Reduce::size", wh("Reduce::size"))
                lo, hi = SZ.rows_reduce(a, b, nk)
                self.check("Reduce::size", size, lo, hi, "Reduce (%s, input size [%s, %s])" % ("no GROUP BY key" if nk == 0 else "GROUP BY keys", a, sz(b)), wh("Reduce::size"))
        # ---- Join
        for v in self.src.enum_variants("JoinOperator", file=REL):
            for uL in (False, True):
                for uR in (False, True):
                    key = "Join::size@" + v
                    self.flags = (uL, uR)
                    # the flags are those computed by has_unique_constraint for this variant (e.g. always (false, false) for Cross)
                    try:
                        eff = self.ev.call("JoinOperator::has_unique_constraint", [SZ.Opaque("l"), SZ.Opaque("r")], self_val=SZ.Op("JoinOperator", v, True))
                    except SZ.Undecided as e:
                        self.undecided(key, "cannot evaluate has_unique_constraint for %s: %s" % (v, e), wh("JoinOperator::has_unique_constraint"))
                        continue
                    if eff != (uL, uR):
                        continue
                    case = "%s,unique(%s)" % (key, ",".join(n for n, u in (("left", uL), ("right", uR)) if u) or "-")
                    rep.instance("Z2", case, {"case": case})
                    for al, bl in SIZES:
                        for ar, br in SIZES:
                            roles = {"left": SZ.Rel("left", al, bl), "right": SZ.Rel("right", ar, br), "operator": SZ.Op("JoinOperator", v, True)}
                            size = self.declared("Join::new", roles, key, wh("Join::size"))
                            try:
                                lo, hi = SZ.rows_join(v, uL, uR, al, bl, ar, br)
                            except SZ.Undecided as e:
                                self.undecided(key, str(e), wh("Join::size"))
                                break
                            ctx = "%s join, left size [%s, %s], right size [%s, %s], ON key unique in: %s" % (v, al, sz(bl), ar, sz(br), ", ".join(n for n, u in (("left", uL), ("right", uR)) if u) or "neither")
                            self.check(key, size, lo, hi, ctx, wh("Join::size"), sub=(uL, uR))
        # ---- Set
        quants = self.src.enum_variants("SetQuantifier", file=REL)
        for v in self.src.enum_variants("SetOperator", file=REL):
            for q in quants:
                key = "Set::size@" + v
                all_rows = q.startswith("All")
                case = "%s,%s" % (key, q)
                rep.instance("Z2", case, {"case": case})
                for al, bl in SIZES:
                    for ar, br in SIZES:
                        roles = {"left": SZ.Rel("left", al, bl), "right": SZ.Rel("right", ar, br), "operator": SZ.Op("SetOperator", v, False), "quantifier": SZ.Op("SetQuantifier", q, False)}
                        size = self.declared("Set::new", roles, key, wh("Set::size"))
                        try:
                            lo, hi = SZ.rows_set(v, all_rows, al, bl, ar, br)
                        except SZ.Undecided as e:
                            self.undecided(key, str(e), wh("Set::size"))
                            break
                        self.check(key, size, lo, hi, "%s %s, left size [%s, %s], right size [%s, %s]" % (v.upper(), q, al, sz(bl), ar, sz(br)), wh("Set::size"))
        # ---- Values
        rep.instance("Z2", "Values::new", {"case": "Values::new"})
        for n in (0, 1, 3, 100):
            size = self.declared("Values::new", {"values": SZ.Lst("values", n)}, "Values::new", wh("Values::new"))
            self.check("Values::new", size, n, n, "Values of %d rows" % n, wh("Values::new"))
        self.flush()
        rep.extra["Z2_grid_points"] = self.points
        rep.extra["Z2_points_skipped_for_i64_overflow"] = self.skipped_overflow


# =========================================================================== run


def run(rep):
    rep.explanation = (
        "Static analysis of data_type/function.rs and relation/mod.rs (syn AST of the current tree; nothing of Qrlew is executed). "
        "R: the closure of every Pointwise function with a restricted co-domain is bounded by abstract interpretation and compared with the declared co-domain. "
        "Z1/Z3: the nullability / preserved-side / set-operation type tables are read off the `match` arms. "
        "Z2: the size term of each relation constructor is extracted and evaluated on a grid of stub inputs against the closed-form least/greatest row count of the operator "
        "(grid points where `+` overflows i64 are skipped: that is C18-P2). "
        "NOT decided: that column values produced by a SQL engine lie in the types computed by super_image for monotone functions and aggregates (C06), "
        "that has_unique_constraint is right about uniqueness (C14), anything that needs data."
    )
    src = Src(facts.src_facts())
    HELPERS.clear()
    HELPERS.update({f.name: f.node for f in src.fns if f.file == "data_type/function.rs" and not f.self_ty and not f.test and f.body and (f.node.get("vis") or "") == ""})
    AI.DECL_HELPERS.clear()
    AI.DECL_HELPERS.update({nm: nd["body"] for nm, nd in HELPERS.items() if not [p for p in nd.get("sig", {}).get("params", nd.get("params", [])) if not p.get("self")]})
    rule_r(rep, src)
    rule_z1(rep, src)
    Z2(rep, src).run()
    rule_z3(rep, src)
    rep.assume("chrono 0.4.x / rand 0.8 method ranges as listed (with reasons) in qv/c07_ranges.py")
    rep.assume("JoinOperator::has_unique_constraint reports `unique` only for a side whose ON column is unique (each row of the other side matches at most one row)")
    rep.assume("the Relation inputs of a constructor have a non-empty size interval (Intervals::max() is Some)")
