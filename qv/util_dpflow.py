"""Helpers shared by C03 / C04: a forward, flow-sensitive may-flow of `DpEvent`-carrying values over the
simplified MIR (rule V1), and small AST helpers over the DP builder code (V2, V3, K1-K4).

MIR flow (EventFlow)
  * carrier type   = a type whose printed form mentions `DpEvent` or a struct/enum that (transitively) has a
                     `DpEvent` field (computed from the syn facts: DpRelation, RelationWithDpEvent), or the type of a
                     closure of the crate that returns / captures a carrier;
  * origin         = an *owned* carrier that appears out of nothing: a by-value parameter, the result of a call none
                     of whose arguments holds an event (a mechanism / helper that produced one), a closure value that
                     returns carriers, a by-move captured upvar;
  * flow           = assignments (use / ref / cast / aggregate / repeat), field projections, and every call: the
                     result holds what its carrier arguments held (clone, into, `?`, compose, unwrap, constructors,
                     iterator adaptors ...); a call with a `&mut` carrier argument also writes its other arguments
                     into the borrowed local (push / extend / mem::replace);
  * only carrier-typed locals hold anything: `let (rel, _) = x.into()` moves the relation out, the event stays behind;
  * strong update on whole-local assignment (so `ev = other` forgets what `ev` held), weak update on projections;
  * verdict        = the origins found in `_0` at a `return` of the body (may-reach, union over paths).
"""
import re

from .core import walk, find, show, is_call_to, path_of, strip_generics
from .flow import Taint

# --------------------------------------------------------------------------- carrier types


def carrier_names(src, seed="DpEvent"):
    """Names of the crate's structs / enums that (transitively) contain a `seed` field, seed included."""
    names = {seed}
    defs = []
    for kind in ("struct", "enum"):
        for (_f, _m, it) in src.find_items(kind):
            tys = []
            if kind == "struct":
                tys = [f["ty"] for f in it.get("fields", [])]
            else:
                for v in it.get("variants", []):
                    tys += [f["ty"] for f in v.get("fields", [])]
            defs.append((it["name"], tys))
    changed = True
    while changed:
        changed = False
        for n, tys in defs:
            if n in names:
                continue
            if any(re.search(r"\b(%s)\b" % "|".join(sorted(names)), t) for t in tys):
                names.add(n)
                changed = True
    return names


class EventFlow:
    """Per-body forward may-flow of event origins (see module docstring)."""

    def __init__(self, mir, names):
        self.mir = mir
        self.names = sorted(names)
        self.re = re.compile(r"\b(%s)\b" % "|".join(re.escape(n) for n in self.names))
        self._tc = {}
        # closure body path -> printed closure type; carrier closures are found by fixpoint
        self.closure_ty = {}
        for b in mir.bodies:
            if b["kind"] == "Closure" and b["nargs"] >= 1:
                t = mir.types[b["locals"][1]]
                self.closure_ty[b["path"]] = re.sub(r"^&(mut )?", "", t)
        self.carrier_closure_tys = set()
        changed = True
        while changed:
            changed = False
            for b in mir.bodies:
                if b["kind"] != "Closure":
                    continue
                ct = self.closure_ty.get(b["path"])
                if ct is None or ct in self.carrier_closure_tys:
                    continue
                if self.is_carrier(mir.types[b["locals"][0]]) or any(self.is_carrier(t) for t in self.upvar_types(b)):
                    self.carrier_closure_tys.add(ct)
                    self._tc = {}
                    changed = True

    # ---------------------------------------------------------------- types
    def is_carrier(self, ty):
        r = self._tc.get(ty)
        if r is None:
            r = bool(self.re.search(ty)) or any(c in ty for c in self.carrier_closure_tys)
            self._tc[ty] = r
        return r

    @staticmethod
    def is_owned(ty):
        return not (ty.startswith("&") or ty.startswith("*const") or ty.startswith("*mut"))

    def lty(self, body, local):
        return self.mir.types[body["locals"][local]]

    def upvar_types(self, closure_body):
        """Types of the captured upvars of a closure, read off the closure aggregate in its parent body."""
        parent = self.mir.by_path.get(closure_body.get("parent"))
        if parent is None:
            return []
        want = "closure:" + closure_body["path"]
        for bl in parent["blocks"]:
            for st in bl["s"]:
                rv = st[1]
                if rv[0] == "agg" and rv[1] == want:
                    out = []
                    for o in rv[2]:
                        if o[0] in ("c", "m") and o[1][1] == "":
                            out.append(self.lty(parent, o[1][0]))
                        else:
                            out.append("?")
                    return out
        return []

    # ---------------------------------------------------------------- analysis
    def is_direct(self, ty):
        """The type *is* an event holder (DpEvent / DpRelation / RelationWithDpEvent, possibly inside Result / Option /
        ControlFlow / Box / a tuple), as opposed to a collection, iterator, memo table or closure that merely mentions one."""
        ty = ty.strip()
        if ty.startswith("("):
            return any(self.is_direct(x) for x in _split_top(ty[1:-1]))
        m = re.match(r"^([\w:]+)<(.*)>$", ty)
        if m:
            head, args = m.group(1).split("::")[-1], _split_top(m.group(2))
            if head in ("Result", "Option", "Box") and args:
                return self.is_direct(args[0])
            if head == "ControlFlow" and len(args) == 2:
                return self.is_direct(args[1])
            return False
        return ty.split("::")[-1] in self.names

    # ---------------------------------------------------------------- analysis
    def analyse(self, body):
        """Returns dict(origins=[{id,kind,what,line,name,trivial,direct}], reached=set(ids) (may-reach), lost={id: line|None}
        (ids of direct origins that miss `_0` on some normally-returning path; 'undecided' when the path set explodes),
        holders={id:set(names)}, returns=bool)."""
        mir = self.mir
        nloc = len(body["locals"])
        carrier = [self.is_carrier(self.lty(body, i)) for i in range(nloc)]
        names = body.get("names") or {}
        blocks = body["blocks"]
        is_closure = body["kind"] == "Closure"
        origins = []
        okey = {}

        frozen = [False]  # set once the may-analysis is done: the per-origin replays must not invent origins

        def origin(key, **kw):
            if key not in okey:
                if frozen[0]:
                    return -1
                okey[key] = len(origins)
                origins.append(dict(id=len(origins), **kw))
            return okey[key]

        # points-to of `&mut` borrows (flow-insensitive): local -> set of borrowed base locals
        pts = {}
        changed = True
        while changed:
            changed = False
            for bl in blocks:
                for st in bl["s"]:
                    dst, rv = st[0], st[1]
                    if dst[1] != "":
                        continue
                    tgt = None
                    if rv[0] == "ref" and rv[1] == 1:
                        p = rv[2]
                        tgt = pts.get(p[0], set()) if p[1].startswith("*") else {p[0]}
                    elif rv[0] == "use" and rv[1][0] in ("c", "m") and rv[1][1][1] == "" and rv[1][1][0] in pts:
                        tgt = pts[rv[1][1][0]]
                    elif rv[0] in ("cast", "rawptr") and self.lty(body, dst[0]).startswith("*"):
                        # raw pointer into a local (the `vec![x]` expansion writes the element through one)
                        p = rv[2][1] if rv[0] == "cast" and rv[2][0] in ("c", "m") else (rv[2] if rv[0] == "rawptr" else None)
                        if p is not None:
                            tgt = set(pts.get(p[0], set()))
                            if not self.lty(body, p[0]).startswith("*"):
                                tgt.add(p[0])
                    if tgt and not tgt <= pts.get(dst[0], set()):
                        pts.setdefault(dst[0], set()).update(tgt)
                        changed = True

        upv = self.upvar_types(body) if is_closure else []

        def read_place(state, p):
            loc, proj = p
            t = state.get(loc, frozenset())
            if is_closure and loc == 1:
                m = re.match(r"^\*?\.(\d+)", proj)
                if m:
                    k = int(m.group(1))
                    if k < len(upv) and self.is_carrier(upv[k]) and self.is_owned(upv[k]):
                        t = t | {origin(("upvar", k), kind="upvar", what="captured upvar #%d" % k, line=body["line"], name=None, trivial=False, direct=self.is_direct(upv[k]))}
            return t

        def read_op(state, o):
            if o[0] in ("c", "m"):
                return read_place(state, o[1])
            return frozenset()

        def rv_taint(state, rv):
            k = rv[0]
            if k in ("use", "repeat"):
                return read_op(state, rv[1])
            if k == "cast":
                return read_op(state, rv[2])
            if k in ("ref", "rawptr"):
                return read_place(state, rv[2])
            if k == "agg":
                t = frozenset()
                for o in rv[2]:
                    t |= read_op(state, o)
                return t
            return frozenset()

        holders = {}

        def write(state, dst, taint):
            loc, proj = dst
            if not carrier[loc]:
                if loc in state:
                    del state[loc]
                return
            if proj == "":
                state[loc] = taint
            else:
                state[loc] = state.get(loc, frozenset()) | taint
                if proj.startswith("*"):
                    for b in pts.get(loc, ()):
                        if carrier[b]:
                            state[b] = state.get(b, frozenset()) | taint
            nm = names.get(str(loc))
            if nm:
                for o in taint:
                    holders.setdefault(o, set()).add(nm)

        # entry state
        entry = {}
        first_param = 2 if is_closure else 1
        for i in range(first_param, body["nargs"] + 1):
            ty = self.lty(body, i)
            if carrier[i] and self.is_owned(ty):
                o = origin(("param", i), kind="param", what="parameter `%s`" % (names.get(str(i)) or "_%d" % i), line=body["line"], name=names.get(str(i)), trivial=False, direct=self.is_direct(ty))
                entry[i] = frozenset([o])

        def transfer(bi, state):
            """-> (state at the end of the block, successors, aux) ; aux: err (the block stores an error into `_0`),
            tests {bool local: origins whose `is_no_op()` it holds}, nots [(dst, src)] for `dst = !src` / copies."""
            state = dict(state)
            aux = {"err": False, "tests": {}, "nots": []}
            bl = blocks[bi]
            for si, st in enumerate(bl["s"]):
                dst, rv = st[0], st[1]
                t = rv_taint(state, rv)
                if rv[0] == "agg":
                    if rv[1].startswith("closure:"):
                        cp = rv[1][len("closure:"):]
                        cb = mir.by_path.get(cp)
                        if cb is not None and self.is_carrier(mir.types[cb["locals"][0]]) and carrier[dst[0]]:
                            short = cp.rsplit("::", 1)[-1]
                            t = t | {origin(("closure", cp), kind="closure", what="events returned by %s" % short, line=st[2], name=None, trivial=False, direct=False, callee=short)}
                    elif dst[0] == 0 and rv[1].endswith("Result::Err"):
                        aux["err"] = True
                elif rv[0] == "un" and rv[1] == "Not" and rv[2][0] in ("c", "m") and dst[1] == "":
                    aux["nots"].append((dst[0], rv[2][1][0], True))
                elif rv[0] == "use" and rv[1][0] in ("c", "m") and dst[1] == "" and rv[1][1][1] == "" and not carrier[dst[0]]:
                    aux["nots"].append((dst[0], rv[1][1][0], False))
                write(state, dst, t)
            term = bl["t"]
            succ = []
            k = term[0]
            if k == "goto":
                succ = [term[1]]
            elif k == "drop":
                succ = [term[2]]
            elif k == "switch":
                succ = [x[1] for x in term[2]] + [term[3]]
            elif k == "assert":
                succ = [term[4]]
            elif k == "call":
                c, args, dst, target = term[1], term[2], term[3], term[4]
                callee = mir.callees[c] if isinstance(c, int) else None
                cname = callee["path"] if callee else "<indirect call>"
                tin = frozenset()
                for a in args:
                    tin |= read_op(state, a)
                # writes through `&mut` carrier arguments
                for a in args:
                    if a[0] in ("c", "m") and a[1][0] in pts:
                        others = frozenset()
                        for a2 in args:
                            if a2 is not a:
                                others |= read_op(state, a2)
                        for b in pts[a[1][0]]:
                            if carrier[b] and others:
                                state[b] = state.get(b, frozenset()) | others
                if cname.endswith("DpEvent::is_no_op") and dst[1] == "":
                    aux["tests"][dst[0]] = tin
                if dst[0] == 0 and "FromResidual" in cname:
                    aux["err"] = True
                dty = self.lty(body, dst[0])
                if carrier[dst[0]] and dst[1] == "" and self.is_owned(dty) and not tin and "FromResidual" not in cname:
                    triv = cname.endswith("DpEvent::no_op")
                    tin = frozenset([origin(("call", bi), kind="call", what="result of %s" % cname, line=term[5], name=names.get(str(dst[0])), trivial=triv, direct=self.is_direct(dty), callee=cname)])
                write(state, dst, tin)
                if target is not None:
                    succ = [target]
            return state, succ, aux

        # ---- may-reach: worklist fixpoint over joined states
        instate = {0: entry}
        work = [0]
        reached = set()
        returns = False
        guard = 0
        while work:
            guard += 1
            if guard > 20000:
                raise RuntimeError("EventFlow did not converge on %s" % body["path"])
            bi = work.pop()
            if blocks[bi]["c"]:
                continue
            out, succ, _aux = transfer(bi, instate[bi])
            if blocks[bi]["t"][0] == "ret":
                returns = True
                reached |= out.get(0, frozenset())
            for s in succ:
                if s is None or blocks[s]["c"]:
                    continue
                cur = instate.get(s)
                if cur is None:
                    instate[s] = dict(out)
                    work.append(s)
                else:
                    ch = False
                    for loc, t in out.items():
                        if not t <= cur.get(loc, frozenset()):
                            cur[loc] = cur.get(loc, frozenset()) | t
                            ch = True
                    if ch:
                        work.append(s)

        # ---- must-reach for direct origins: explore per-path abstract elements (holders, err, created, discharged, tests)
        def lost_on_some_path(oid):
            one = frozenset([oid])
            h0 = frozenset(l for l, t in entry.items() if oid in t)
            start = (h0, False, bool(h0), False, frozenset())
            seen = {0: {start}}
            todo = [(0, start)]
            n = 0
            while todo:
                n += 1
                if n > 6000:
                    return "undecided"
                bi, el = todo.pop()
                H, err, created, done, tests = el
                st, succ, aux = transfer(bi, {l: one for l in H})
                H2 = frozenset(l for l, t in st.items() if oid in t)
                created2 = created or bool(H2)
                err2 = err or aux["err"]
                tests2 = set(tests)
                for b, tin in aux["tests"].items():
                    tests2 = {x for x in tests2 if x[0] != b}
                    if oid in tin:
                        tests2.add((b, True))
                for d, s, flip in aux["nots"]:
                    pol = [p for (b, p) in tests2 if b == s]
                    tests2 = {x for x in tests2 if x[0] != d}
                    for p in pol:
                        tests2.add((d, (not p) if flip else p))
                term = blocks[bi]["t"]
                if term[0] == "ret":
                    if created2 and not err2 and not done and 0 not in H2:
                        return True
                    continue
                outs = []
                if term[0] == "switch" and term[1][0] in ("c", "m") and any(b == term[1][1][0] for b, _ in tests2):
                    pol = [p for b, p in tests2 if b == term[1][1][0]][0]
                    for val, tgt in term[2]:
                        truth = val != "0"
                        outs.append((tgt, done or (truth == pol)))
                    zero_listed = any(val == "0" for val, _ in term[2])
                    outs.append((term[3], done or ((True if zero_listed else False) == pol)))
                elif (
                    term[0] == "switch" and len(term) >= 7 and isinstance(term[4], str) and term[4].endswith("option::Option")
                    and isinstance(term[6], list) and term[6] and term[6][0] in H2 and (len(term[6]) < 2 or term[6][1] == "")
                ):
                    # `match it.next() { None => .., Some(e) => .. }` (a `for` loop): on the None arm the Option holds no event
                    listed = [val for val, _ in term[2]]
                    for val, tgt in term[2]:
                        outs.append((tgt, done or val == "None"))
                    outs.append((term[3], done or "None" not in listed))
                else:
                    outs = [(s, done) for s in succ]
                for s, d2 in outs:
                    if s is None or blocks[s]["c"]:
                        continue
                    e2 = (H2, err2, created2, d2, frozenset(tests2))
                    ss = seen.setdefault(s, set())
                    if e2 not in ss:
                        ss.add(e2)
                        todo.append((s, e2))
            return False

        lost = {}
        frozen[0] = True
        if returns:
            for o in list(origins):
                if o.get("direct") and not o["trivial"] and o["id"] in reached:
                    r = lost_on_some_path(o["id"])
                    if r:
                        lost[o["id"]] = r
        return dict(origins=origins, reached=reached, lost=lost, holders=holders, returns=returns)


def _split_top(s):
    out, depth, cur = [], 0, ""
    for ch in s:
        if ch in "<([":
            depth += 1
        elif ch in ">)]":
            depth -= 1
        if ch == "," and depth == 0:
            out.append(cur.strip())
            cur = ""
        else:
            cur += ch
    if cur.strip():
        out.append(cur.strip())
    return out



# =========================================================================== AST helpers (V2, V3, K1-K4)


def short_path(p):
    """Def path without module prefixes: `a::b::<impl c::T>::f` -> `<impl T>::f` (for keys and messages)."""
    prev = None
    while prev != p:
        prev = p
        p = re.sub(r"\b[a-z_][a-z_0-9]*::(?=[A-Za-z_<])", "", p)
    return p.replace("<'a>", "").replace("<'_>", "")


def strip_wrappers(e):
    """Peel `&x`, `*x`, `x.clone()`, `x.to_owned()`, `(x)`, `x?`-free wrappers that do not change the value."""
    while True:
        k = e["k"]
        if k == "ref" or (k == "unary" and e["op"] == "*"):
            e = e["e"]
        elif k == "mcall" and e["m"] in ("clone", "to_owned", "copied", "cloned") and not e["args"]:
            e = e["recv"]
        elif k == "block" and len(e["stmts"]) == 1 and e["stmts"][0]["k"] == "expr" and not e["stmts"][0].get("semi"):
            e = e["stmts"][0]["e"]
        else:
            return e


def pat_ident(p):
    """Name bound by a plain `x` / `mut x` / `x: T` pattern, else None."""
    while p["k"] == "typed":
        p = p["pat"]
    if p["k"] == "ident" and not p.get("sub"):
        return p["name"]
    return None


class FnEnv:
    """Single-assignment view of a function body: a name that is bound exactly once in the whole function
    (by one `let x = init`) and never re-assigned can be replaced by its initialiser."""

    def __init__(self, fn):
        self.fn = fn
        self.count = {}
        self.lets = {}
        self.assigned = set()
        self.params = []
        self.self_param = False
        for p in fn.params:
            if p.get("self"):
                self.self_param = True
                continue
            nm = pat_ident(p["pat"])
            self.params.append((nm, p["ty"].replace(" ", "")))
            for b in _binds(p["pat"]):
                self.count[b] = self.count.get(b, 0) + 1
        for n in walk(fn.body):
            k = n["k"]
            if k == "let":
                for b in _binds(n["pat"]):
                    self.count[b] = self.count.get(b, 0) + 1
                nm = pat_ident(n["pat"])
                if nm and n.get("init") is not None:
                    self.lets[nm] = n["init"]
            elif k == "closure":
                for p in n["params"]:
                    for b in _binds(p):
                        self.count[b] = self.count.get(b, 0) + 1
            elif k == "match":
                for a in n["arms"]:
                    for b in _binds(a["pat"]):
                        self.count[b] = self.count.get(b, 0) + 1
            elif k in ("letcond", "for"):
                for b in _binds(n["pat"]):
                    self.count[b] = self.count.get(b, 0) + 1
            elif k == "assign" or (k == "binary" and n["op"] in ("+=", "-=", "*=", "/=")):
                l = strip_wrappers(n["lhs"])
                while l["k"] in ("field", "index"):
                    l = l["e"]
                if l["k"] == "path" and len(l["segs"]) == 1:
                    self.assigned.add(l["segs"][0])

    def init_of(self, name):
        if self.count.get(name, 0) == 1 and name in self.lets and name not in self.assigned:
            return self.lets[name]
        return None

    def is_param(self, name):
        return self.count.get(name, 0) == 1 and any(n == name for n, _ in self.params) and name not in self.assigned

    def resolve(self, e, depth=0):
        """Follow single-assignment lets and value-preserving wrappers."""
        while depth < 12:
            e = strip_wrappers(e)
            if e["k"] == "path" and len(e["segs"]) == 1:
                i = self.init_of(e["segs"][0])
                if i is not None:
                    e = i
                    depth += 1
                    continue
            return e
        return e


def _binds(p):
    return [x["name"] for x in walk(p) if x["k"] == "ident"]


# --------------------------------------------------------------------------- budget terms


class Term:
    """num * prod(atoms) * prod(1 - c for c in comps) / prod(divs)   |   if cond {a} else {b}   |   unknown."""

    def __init__(self, kind="prod", num=1.0, atoms=(), divs=(), comps=(), cond=None, a=None, b=None, text=None):
        self.kind, self.num, self.atoms, self.divs, self.comps = kind, num, tuple(sorted(atoms)), tuple(sorted(divs)), tuple(sorted(comps))
        self.cond, self.a, self.b, self.text = cond, a, b, text

    def __repr__(self):
        if self.kind == "unk":
            return "?(%s)" % self.text
        if self.kind == "if":
            return "if %s {%r} else {%r}" % (show(self.cond, 60), self.a, self.b)
        parts = []
        if self.num != 1.0 or not (self.atoms or self.comps):
            parts.append("%g" % self.num)
        parts += list(self.atoms) + ["(1-%s)" % c for c in self.comps]
        s = "*".join(parts)
        for d in self.divs:
            s += " / #[%s]" % d
        return s

    def is_prod(self):
        return self.kind == "prod"


def count_of(e, env):
    """If e (after let-resolution) is a strictly positive count `max(n,1) as f64` / `n.max(1) as f64` -> ('max1', text);
    a collection length `x.len() as f64` -> ('len', text of x); else None."""
    e = env.resolve(e)
    if e["k"] != "cast" or e["ty"].replace(" ", "") != "f64":
        return None
    i = strip_wrappers(e["e"])
    if i["k"] == "mcall" and i["m"] == "len" and not i["args"]:
        return ("len", show(strip_wrappers(i["recv"]), 0))
    if i["k"] == "call" and (path_of(i["f"]) or "").split("::")[-1] == "max" and len(i["args"]) == 2:
        a, b = i["args"]
        for x, y in ((a, b), (b, a)):
            if y["k"] == "lit" and y["t"] == "int" and int(y["v"]) >= 1:
                return ("max1", show(x, 0))
    if i["k"] == "mcall" and i["m"] == "max" and len(i["args"]) == 1 and i["args"][0]["k"] == "lit" and i["args"][0]["t"] == "int" and int(i["args"][0]["v"]) >= 1:
        return ("max1", show(i["recv"], 0))
    return None


def norm(e, env, depth=0):
    if depth > 20:
        return Term("unk", text="<too deep>")
    e = strip_wrappers(e)
    k = e["k"]
    if k == "lit" and e["t"] in ("int", "float"):
        try:
            return Term(num=float(e["v"]))
        except ValueError:
            return Term("unk", text=show(e))
    if k == "path":
        if len(e["segs"]) == 1:
            i = env.init_of(e["segs"][0])
            if i is not None:
                return norm(i, env, depth + 1)
        return Term(atoms=(e["p"],))
    if k == "field":
        base = env.resolve(e["e"])
        return Term(atoms=("%s.%s" % (show(base, 0), e["name"]),))
    if k == "binary":
        op = e["op"]
        if op == "*":
            a, b = norm(e["lhs"], env, depth + 1), norm(e["rhs"], env, depth + 1)
            if a.is_prod() and b.is_prod():
                return Term(num=a.num * b.num, atoms=a.atoms + b.atoms, divs=a.divs + b.divs, comps=a.comps + b.comps)
            return Term("unk", text=show(e))
        if op == "/":
            a = norm(e["lhs"], env, depth + 1)
            c = count_of(e["rhs"], env)
            if a.is_prod() and c is not None:
                return Term(num=a.num, atoms=a.atoms, divs=a.divs + ("%s:%s" % c,), comps=a.comps)
            b = norm(e["rhs"], env, depth + 1)
            if a.is_prod() and b.is_prod() and not (b.atoms or b.divs or b.comps) and b.num != 0:
                return Term(num=a.num / b.num, atoms=a.atoms, divs=a.divs, comps=a.comps)
            return Term("unk", text=show(e))
        if op == "-":
            a, b = norm(e["lhs"], env, depth + 1), norm(e["rhs"], env, depth + 1)
            if a.is_prod() and not (a.atoms or a.divs or a.comps) and a.num == 1.0 and b.is_prod() and b.num == 1.0 and len(b.atoms) == 1 and not (b.divs or b.comps):
                return Term(comps=b.atoms)
            return Term("unk", text=show(e))
        return Term("unk", text=show(e))
    if k == "if" and e.get("else") is not None and e["cond"]["k"] != "letcond":
        return Term("if", cond=e["cond"], a=norm(e["then"], env, depth + 1), b=norm(e["else"], env, depth + 1))
    if k == "call" and e["f"]["k"] == "path" and len(e["f"]["segs"]) == 1 and e["f"]["segs"][0] in getattr(env, "helpers", {}):
        # a private free function of the module: read through (`fn share(event: &DpEvent, p: &DpParameters) -> f64 { if event.is_no_op() { return 1.; } 1. - p.s }`)
        h = env.helpers[e["f"]["segs"][0]]
        names = [pat_ident(p["pat"]) for p in h.params if not p.get("self")]
        if None not in names and len(names) == len(e["args"]):
            from .canon import subst

            body = _early_return_as_if(subst(h.body, {n: strip_wrappers(a) for n, a in zip(names, e["args"])}))
            if body is not None:
                return norm(body, env, depth + 1)
    return Term("unk", text=show(e))


def _early_return_as_if(b):
    """`{ if c { return X; } Y }` -> `if c { X } else { Y }`; a block of one tail expression -> that expression; else None"""
    if b.get("k") != "block":
        return b
    stmts = b["stmts"]
    if not stmts:
        return None
    st = stmts[0]
    if len(stmts) == 1:
        return st["e"] if st["k"] == "expr" and not st.get("semi") else None
    if st["k"] == "expr" and st["e"]["k"] == "if" and st["e"].get("else") is None and st["e"]["cond"]["k"] != "letcond":
        tb = st["e"]["then"]
        if tb["k"] == "block" and len(tb["stmts"]) == 1 and tb["stmts"][0]["k"] == "expr" and tb["stmts"][0]["e"]["k"] == "return" and tb["stmts"][0]["e"].get("e") is not None:
            rest = _early_return_as_if(dict(b, stmts=stmts[1:]))
            if rest is not None:
                return {"k": "if", "l": st["e"].get("l", 0), "cond": st["e"]["cond"], "then": tb["stmts"][0]["e"]["e"], "else": rest}
    return None


def budget_le(small, big):
    """small <= big for all positive atoms and all counts >= 1 (sufficient syntactic condition); None = cannot tell."""
    if not (small.is_prod() and big.is_prod()):
        return None
    if small.atoms != big.atoms or small.comps != big.comps:
        return None
    sd = list(small.divs)
    for d in big.divs:
        if d in sd:
            sd.remove(d)
        else:
            return None
    return small.num <= big.num


def callee_name(n):
    """Last path segment of a call / method name of an mcall."""
    if n["k"] == "mcall":
        return n["m"]
    if n["k"] == "call":
        p = path_of(n["f"])
        if p:
            return strip_generics(p).split("::")[-1]
    return None


def chain_root(e):
    """(root expression, [method names]) of a method chain `root.m1(..).m2(..)` (through `?`)."""
    ms = []
    while True:
        if e["k"] == "mcall":
            ms.append(e["m"])
            e = e["recv"]
        elif e["k"] == "try":
            e = e["e"]
        else:
            break
    return e, list(reversed(ms))


def enclosing_closures(root):
    """Yield (closure_node, owner) where owner is the mcall/call whose argument the closure is (or None)."""
    for n in walk(root):
        if n["k"] in ("mcall", "call"):
            for a in n["args"]:
                if a["k"] == "closure":
                    yield a, n


def contains(node, target):
    return any(x is target for x in walk(node))


class SeedTaint(Taint):
    """Taint whose single source is an expression node (the value of a call) instead of a name."""

    def __init__(self, seed, label):
        Taint.__init__(self, {})
        self.seed, self.label = seed, label

    def eval(self, e):
        r = Taint.eval(self, e)
        if e is not None and isinstance(e, dict) and contains(e, self.seed):
            r = set(r) | {self.label}
        return r


def _tail_expr(body):
    st = body["stmts"]
    if st and st[-1]["k"] == "expr" and not st[-1].get("semi"):
        return st[-1]["e"]
    return None


def _closures(body):
    out = []
    for n in walk(body):
        if n["k"] in ("mcall", "call"):
            for a in n["args"]:
                if a["k"] == "closure":
                    out.append((a, n))
    return out


def strip_try(e):
    while e["k"] == "try":
        e = e["e"]
    return e
