"""C06 rule M — the reviewed monotonicity transfer table and the abstract interpreter that applies it.

Domain.  A closure `|x0, .., xk| body` is analysed on one declared piece (a box: one closed interval per
coordinate).  Every sub-expression gets an abstract value
    mono[i] in {Const, Inc, Dec, SepMono, Non, Unknown}   for every coordinate i
    rng     = (lo, hi, lo_open, hi_open) over the extended reals, or None for non-numeric / unknown values
`Inc`/`Dec` are weak (non-decreasing / non-increasing) and hold for every fixed value of the other coordinates;
`SepMono` = for every fixed value of the others the expression is monotone in x_i, but the direction may depend on
the others (x*y).  That is exactly the premise of PartitionnedMonotonic::super_image: the extremum over a box of
a separately monotone function is reached at a corner (fix all coordinates but one, move to the better end, repeat).
`Non` = the table knows (or cannot exclude) that the expression is not monotone there; `Unknown` = a construct that is
not in the table: the caller fails closed.

The table is data: one line per operator / method, with the mathematical reason.  It was reviewed once; adding a
line is a reviewed act (an operator that is missing makes the rule report UNDECIDED, never pass).
"""
import math

INF = float("inf")
C, I, D, S, N, U = "Const", "Inc", "Dec", "SepMono", "Non", "Unknown"

# ----------------------------------------------------------------------------------------------------------------
# the table:  name -> (kind, reason).   kinds are interpreted by `Interp.apply`
#   inc      increasing in the receiver / single operand; other arguments must be constants
#   dec      decreasing in the receiver
#   incall   increasing in the receiver and in every argument
#   incdec   increasing in the first operand, decreasing in the second
#   decinc   decreasing in the first operand, increasing in the second
#   mul div abs pow powi log sin cos   special cases, see the handlers
#   dom0inc  increasing, defined only on [0, +inf) (NaN below): the operand's range must be >= 0
#   non      known not to be monotone
TABLE = {
    # --- additive -------------------------------------------------------------------------------------------------
    "+": ("incall", "x+y is increasing in x and in y"),
    "saturating_add": ("incall", "clamp(x+y) : clamp is increasing, x+y is increasing in both"),
    "-": ("incdec", "x-y is increasing in x, decreasing in y"),
    "saturating_sub": ("incdec", "clamp(x-y)"),
    "neg": ("dec", "-x is decreasing"),
    "!": ("dec", "!b reverses false<true; !i = -i-1 on integers: decreasing"),
    # --- multiplicative ------------------------------------------------------------------------------------------
    "*": ("mul", "d(xy)/dx = y: direction is the sign of the other factor; a factor that does not depend on x_i is a fixed number once the others are fixed (SepMono)"),
    "saturating_mul": ("mul", "clamp(x*y): clamp is increasing"),
    "/": ("div", "x/y = x*(1/y); 1/y is decreasing on y>0 and on y<0 and has a pole at 0: the divisor's range must exclude 0"),
    "saturating_div": ("div", "trunc(x/y) clamped: trunc and clamp are increasing; divisor range must exclude 0"),
    # --- order ---------------------------------------------------------------------------------------------------
    "min": ("incall", "min(x,y) is increasing in both"),
    "max": ("incall", "max(x,y) is increasing in both"),
    "clamp": ("incall", "clamp(x,lo,hi)=min(max(x,lo),hi) is increasing in x, lo and hi"),
    ">": ("incdec", "[x>y] goes false->true as x grows, true->false as y grows"),
    ">=": ("incdec", "same as >"),
    "<": ("decinc", "[x<y] is decreasing in x, increasing in y"),
    "<=": ("decinc", "same as <"),
    "&&": ("incall", "conjunction is increasing in both for false<true"),
    "||": ("incall", "disjunction is increasing in both for false<true"),
    "==": ("non", "[x==c] is false,true,false along x"),
    "!=": ("non", "[x!=c] is true,false,true along x"),
    # --- real functions -----------------------------------------------------------------------------------------
    "exp": ("inc", "exp' = exp > 0"),
    "exp2": ("inc", "2^x is increasing"),
    "exp_m1": ("inc", "e^x-1 is increasing"),
    "ln": ("dom0inc", "ln' = 1/x > 0 on (0,inf); ln(0) = -inf is the limit; NaN for x<0"),
    "log10": ("dom0inc", "log10 is increasing on [0,inf); NaN below"),
    "log2": ("dom0inc", "log2 is increasing on [0,inf); NaN below"),
    "ln_1p": ("inc", "ln(1+x) increasing where defined (x >= -1)"),
    "log": ("log", "log_b(x) = ln x / ln b: increasing in x for a constant base b>1, decreasing for 0<b<1; x>=0"),
    "sqrt": ("dom0inc", "sqrt' > 0 on (0,inf); NaN for x<0"),
    "cbrt": ("inc", "cube root is increasing on R"),
    "abs": ("abs", "|x| = x on x>=0 (same direction), -x on x<=0 (reversed); not monotone on a range straddling 0"),
    "signum": ("inc", "sign(x) is a non-decreasing step function"),
    "powf": ("pow", "x^n on x>=0: d/dx = n x^(n-1) has the sign of n; d/dn = x^n ln x has the sign of x-1; 0^0=1, 0^-n=+inf are the monotone limits"),
    "powi": ("powi", "x^k, k a literal: odd k increasing on R; even k as |x|^k; negative k not handled"),
    "sin": ("sin", "sin' = cos >= 0 on [-pi/2, pi/2] + 2k pi (Inc), <= 0 on [pi/2, 3pi/2] + 2k pi (Dec)"),
    "cos": ("cos", "cos' = -sin <= 0 on [0, pi] + 2k pi (Dec), >= 0 on [pi, 2pi] + 2k pi (Inc)"),
    "atan": ("inc", "atan' = 1/(1+x^2) > 0"),
    "tanh": ("inc", "tanh' = 1 - tanh^2 >= 0"),
    "sinh": ("inc", "sinh' = cosh > 0"),
    # --- rounding / conversion ---------------------------------------------------------------------------------
    "round": ("inc", "rounding to nearest is non-decreasing"),
    "floor": ("inc", "floor is non-decreasing"),
    "ceil": ("inc", "ceil is non-decreasing"),
    "trunc": ("inc", "truncation toward 0 is non-decreasing"),
    "as": ("cast", "i64<->f64 `as` casts round / saturate monotonically; a cast to a narrower integer wraps and is Non unless the range fits"),
    "from": ("inc", "f64::from / i64::from of a narrower number is exact, hence increasing"),
    "into": ("inc", "identity / exact widening"),
    "clone": ("inc", "identity"),
    "to_owned": ("inc", "identity"),
    "deref": ("inc", "identity"),
    "unwrap": ("inc", "Some(x) -> x preserves the order of the payloads"),
    # --- chrono (dates are ordered by calendar time) -----------------------------------------------------------
    "and_hms_opt": ("inc", "date -> datetime at a constant time of day: later date = later datetime"),
    "and_time": ("inc", "date -> datetime at a constant time of day"),
    "and_utc": ("inc", "naive -> UTC: same instant order"),
    "timestamp": ("inc", "seconds since the epoch, floor: non-decreasing in the instant"),
    "timestamp_millis": ("inc", "milliseconds since the epoch"),
    "num_seconds": ("inc", "duration -> whole seconds (truncation): non-decreasing"),
    "num_days": ("inc", "duration -> whole days (truncation): non-decreasing"),
    "date": ("inc", "datetime -> its date: non-decreasing"),
    "year": ("inc", "calendar year is non-decreasing in the date"),
    # --- known non-monotone -----------------------------------------------------------------------------------
    "to_lowercase": ("non", "'Z' < 'a' but lower('Z') = 'z' > 'a': case mapping does not respect code-point order"),
    "to_uppercase": ("non", "'Z' < 'a' but upper('a') = 'A' < 'Z'"),
    "to_ascii_lowercase": ("non", "as to_lowercase"),
    "to_ascii_uppercase": ("non", "as to_uppercase"),
    "wrapping_add": ("non", "wraps around at the type bounds"),
    "wrapping_sub": ("non", "wraps around at the type bounds"),
    "wrapping_mul": ("non", "wraps around at the type bounds: i64::MAX.wrapping_mul(2) = -2"),
    "wrapping_neg": ("non", "wraps at i64::MIN"),
    "wrapping_abs": ("non", "wraps at i64::MIN"),
    "overflowing_mul": ("non", "wraps"),
    "%": ("non", "x mod m is a sawtooth"),
    "rem_euclid": ("non", "sawtooth"),
    "^": ("non", "xor is not monotone (true^true = false)"),
    "&": ("non", "bitwise and of integers is not monotone (1&1=1, 2&1=0)"),
    "|": ("non", "bitwise or of integers is not monotone in general (handled as Non; bool coordinates are exempt anyway)"),
    "month": ("non", "month number is periodic in the date"),
    "day": ("non", "day of month is periodic in the date"),
    "hour": ("non", "periodic for datetimes"),
    "len": ("non", "string length does not follow the lexicographic order ('b' > 'aa')"),
    "fract": ("non", "sawtooth"),
    "tan": ("non", "poles at pi/2 + k pi"),
}

# names of CONSTS that the function being read imports by name (`use std::f64::consts::PI;` then a bare `PI`): set by c06.extract from the `use` items in scope
BARE_CONSTS = set()

# named constants that may appear in pieces and closures
CONSTS = {
    "PI": math.pi,
    "TAU": 2 * math.pi,
    "FRAC_PI_2": math.pi / 2,
    "FRAC_PI_3": math.pi / 3,
    "FRAC_PI_4": math.pi / 4,
    "E": math.e,
    "MAX": INF,  # f64::MAX / i64::MAX : the top of the type = +inf of the abstract line
    "MIN": -INF,
    "INFINITY": INF,
    "NEG_INFINITY": -INF,
}
WIDE_INT = ("f64", "f32", "i64", "i128")
NARROW = {"i32": (-(2 ** 31), 2 ** 31 - 1), "u32": (0, 2 ** 32 - 1), "usize": (0, 2 ** 63), "u64": (0, 2 ** 63), "i16": (-(2 ** 15), 2 ** 15 - 1), "u8": (0, 255), "u16": (0, 65535), "i8": (-128, 127), "isize": (-(2 ** 63), 2 ** 63)}

# ---------------------------------------------------------------------------------------------------------------- ranges


def R(lo, hi, lo_o=False, hi_o=False):
    if lo != lo or hi != hi:
        return (-INF, INF, False, False)
    return (lo, hi, lo_o, hi_o)


TOP = (-INF, INF, False, False)


def pt(v):
    return (v, v, False, False)


def has_zero(r):
    if r is None:
        return True
    lo, hi, lo_o, hi_o = r
    return (lo < 0 < hi) or (lo == 0 and not lo_o and hi >= 0) or (hi == 0 and not hi_o and lo <= 0)


def nonneg(r):
    return r is not None and r[0] >= 0


def nonpos(r):
    return r is not None and r[1] <= 0


def _m(a, b):
    """product on the extended line with 0*inf = 0 (the bound of a product of ranges)."""
    if a == 0 or b == 0:
        return 0.0
    return a * b


def r_neg(r):
    return None if r is None else (-r[1], -r[0], r[3], r[2])


def r_add(a, b):
    if a is None or b is None:
        return None
    return R(a[0] + b[0], a[1] + b[1])


def r_sub(a, b):
    return r_add(a, r_neg(b))


def r_mul(a, b):
    if a is None or b is None:
        return None
    ps = [_m(a[0], b[0]), _m(a[0], b[1]), _m(a[1], b[0]), _m(a[1], b[1])]
    return R(min(ps), max(ps))


def r_recip(b):
    """range of 1/y for a range that excludes 0."""
    if b is None or has_zero(b):
        return None
    inv = lambda v: (INF if b[0] >= 0 else -INF) if v == 0 else (0.0 if abs(v) == INF else 1.0 / v)
    x, y = inv(b[0]), inv(b[1])
    return R(min(x, y), max(x, y))


def r_abs(r):
    if r is None:
        return (0.0, INF, False, False)
    if r[0] >= 0:
        return r
    if r[1] <= 0:
        return r_neg(r)
    return R(0.0, max(-r[0], r[1]))


def r_fn(r, f):
    if r is None:
        return None
    try:
        return R(f(r[0]), f(r[1]))
    except (ValueError, OverflowError):
        return None


def _exp(v):
    return 0.0 if v == -INF else (INF if v > 700 else math.exp(v))


def _ln(v):
    return -INF if v <= 0 else (INF if v == INF else math.log(v))


def r_hull(rs):
    if any(r is None for r in rs):
        return None
    return R(min(r[0] for r in rs), max(r[1] for r in rs))


RANGE_FN = {
    "exp": _exp,
    "ln": _ln,
    "sqrt": lambda v: INF if v == INF else math.sqrt(max(v, 0.0)),
    "floor": lambda v: v if abs(v) == INF else math.floor(v),
    "ceil": lambda v: v if abs(v) == INF else math.ceil(v),
}
IDENT = ("into", "clone", "to_owned", "deref", "unwrap", "from")

# ---------------------------------------------------------------------------------------------------------------- values


def flip(m):
    return D if m == I else I if m == D else m


def join(ms):
    """f(e1..en) with f increasing in every e_k: class of the composite in one coordinate."""
    ms = [m for m in ms if m != C]
    if not ms:
        return C
    if U in ms:
        return U
    if N in ms:
        return N
    if len(ms) == 1:
        return ms[0]
    if all(m == I for m in ms):
        return I
    if all(m == D for m in ms):
        return D
    return N  # Inc with Dec, or SepMono with anything that moves: no conclusion


class AV:
    __slots__ = ("mono", "rng", "coord", "why")

    def __init__(self, mono, rng=None, coord=None, why=()):
        self.mono, self.rng, self.coord, self.why = tuple(mono), rng, coord, tuple(why)

    def const(self):
        return all(m == C for m in self.mono)

    def point(self):
        return self.rng[0] if self.const() and self.rng is not None and self.rng[0] == self.rng[1] else None

    def show(self):
        return {"mono": list(self.mono), "range": None if self.rng is None else [self.rng[0], self.rng[1]]}


class Env:
    def __init__(self, pnames, regions, vars):
        self.pnames, self.regions, self.vars = pnames, regions, vars

    def narrowed(self, i, region):
        e = Env(self.pnames, list(self.regions), dict(self.vars))
        e.regions[i] = region
        nm = self.pnames[i]
        if nm is not None:
            old = e.vars[nm]
            e.vars[nm] = AV(old.mono, region if old.rng is not None else None, old.coord)
        return e


class Interp:
    """Abstract interpreter over the syn-JSON expression nodes of srcfacts."""

    def __init__(self, k):
        self.k = k  # number of coordinates

    # -- helpers
    def cst(self, rng=None, why=()):
        return AV([C] * self.k, rng, None, why)

    def lift(self, avs, per_coord, rng, why=()):
        """combine operands coordinate by coordinate with `per_coord(list of classes) -> class`."""
        w = tuple(why) + tuple(x for a in avs for x in a.why)
        return AV([per_coord([a.mono[i] for a in avs], i) for i in range(self.k)], rng, None, w)

    def unknown(self, avs, what):
        # Unknown in every coordinate some operand depends on
        mono = [C if all(a.mono[i] == C for a in avs) else U for i in range(self.k)]
        return AV(mono, None, None, tuple(x for a in avs for x in a.why) + ("not in the transfer table: %s" % what,))

    def non(self, avs, reason, rng=None):
        mono = [C if all(a.mono[i] == C for a in avs) else (U if any(a.mono[i] == U for a in avs) else N) for i in range(self.k)]
        return AV(mono, rng, None, tuple(x for a in avs for x in a.why) + (reason,))

    # -- the table driven part
    def apply(self, name, avs, show=""):
        """avs[0] is the receiver / left operand."""
        ent = TABLE.get(name)
        if all(a.const() for a in avs) and (ent is None or ent[0] in ("non",)):
            return self.cst(None)  # a pure function of constants is a constant
        if ent is None:
            return self.unknown(avs, "`%s` in %s" % (name, show))
        kind, reason = ent
        a = avs[0]
        rest = avs[1:]
        if kind in ("inc", "dec", "dom0inc"):
            if any(not x.const() for x in rest):
                return self.unknown(avs, "`%s` with a non-constant argument in %s" % (name, show))
            if kind == "dom0inc" and not a.const() and not nonneg(a.rng):
                return self.non([a], "`%s` is applied to a range that is not within [0,+inf) on this piece (%s)" % (name, reason))
            if name in ("round", "trunc"):
                rng = None if a.rng is None else R(a.rng[0] - 1, a.rng[1] + 1)
            elif name == "neg":
                rng = r_neg(a.rng)
            elif name in IDENT:
                rng = a.rng
            elif name == "signum":
                rng = R(-1.0, 1.0)
            elif name in RANGE_FN:
                rng = r_fn(a.rng, RANGE_FN[name])
            else:
                rng = None
            g = (lambda m: m) if kind != "dec" else flip
            out = AV([g(m) for m in a.mono], rng, None, a.why)
            return out
        if kind == "incall":
            if name in ("+", "saturating_add"):
                rng = r_add(a.rng, rest[0].rng)
            elif name == "min" and len(avs) == 2 and a.rng and rest[0].rng:
                rng = R(min(a.rng[0], rest[0].rng[0]), min(a.rng[1], rest[0].rng[1]))
            elif name == "max" and len(avs) == 2 and a.rng and rest[0].rng:
                rng = R(max(a.rng[0], rest[0].rng[0]), max(a.rng[1], rest[0].rng[1]))
            elif name == "clamp" and len(avs) == 3 and all(x.rng for x in avs):
                lo, hi = rest[0].rng, rest[1].rng
                rng = R(min(max(a.rng[0], lo[0]), hi[1]), max(min(a.rng[1], hi[1]), lo[0]))
            else:
                rng = None
            return self.lift(avs, lambda ms, i: join(ms), rng)
        if kind in ("incdec", "decinc"):
            if len(avs) != 2:
                return self.unknown(avs, "`%s` with %d operands" % (name, len(avs)))
            b = rest[0]
            rng = r_sub(a.rng, b.rng) if name in ("-", "saturating_sub") else None
            if kind == "incdec":
                return self.lift(avs, lambda ms, i: join([ms[0], flip(ms[1])]), rng)
            return self.lift(avs, lambda ms, i: join([flip(ms[0]), ms[1]]), rng)
        if kind == "mul":
            return self.mul(a, rest[0], r_mul(a.rng, rest[0].rng))
        if kind == "div":
            b = rest[0]
            if b.rng is None:
                return self.unknown(avs, "`%s` by a divisor whose range is not known: it cannot be bounded away from 0" % name)
            if has_zero(b.rng):
                return self.non(avs, "the divisor's range %s contains 0 on this piece: `%s` has a pole there (%s)" % (_rs(b.rng), name, reason))
            rb = AV([flip(m) for m in b.mono], r_recip(b.rng), None, b.why)
            return self.mul(a, rb, r_mul(a.rng, rb.rng))
        if kind == "abs":
            if nonneg(a.rng):
                return AV(a.mono, a.rng, None, a.why)
            if nonpos(a.rng):
                return AV([flip(m) for m in a.mono], r_neg(a.rng), None, a.why)
            return self.non([a], "`abs` of a range %s that straddles 0 on this piece (%s)" % (_rs(a.rng), reason), r_abs(a.rng))
        if kind == "pow":
            b = rest[0]
            if not nonneg(a.rng):
                return self.non(avs, "`powf` with a base range %s that is not within [0,+inf)" % _rs(a.rng))

            def pw(ms, i):
                mb, me = ms
                if mb == C and me == C:
                    return C
                if U in ms:
                    return U
                if N in ms:
                    return N
                if me == C:
                    return mb if (nonneg(b.rng) or mb == S) else flip(mb) if nonpos(b.rng) else S
                if mb == C:
                    if a.rng[0] >= 1:
                        return me
                    if a.rng[1] <= 1:
                        return flip(me) if me != S else S
                    return S
                return N

            return self.lift(avs, pw, R(0.0, INF))
        if kind == "powi":
            kk = rest[0].point() if rest else None
            if kk is None or kk != int(kk) or kk < 0:
                return self.unknown(avs, "`powi` with a non-literal or negative exponent")
            if int(kk) % 2 == 1:
                return AV(a.mono, None, None, a.why)
            if int(kk) == 0:
                return self.cst(pt(1.0))
            ab = self.apply("abs", [a])
            return AV(ab.mono, None if ab.rng is None else R(0.0, INF), None, ab.why)
        if kind == "log":
            base = rest[0].point() if rest else None
            if base is None or base <= 0 or base == 1:
                return self.unknown(avs, "`log` with a base that is not a positive literal")
            if not a.const() and not nonneg(a.rng):
                return self.non([a], "`log` is applied to a range that is not within [0,+inf) on this piece")
            return AV(a.mono if base > 1 else [flip(m) for m in a.mono], None, None, a.why)
        if kind in ("sin", "cos"):
            r = a.rng
            d = None
            if r is not None and abs(r[0]) != INF and abs(r[1]) != INF and r[1] - r[0] <= math.pi + 1e-9:
                # position of the range inside the period, for sin shifted so that both use the cos layout [0,pi] Dec, [pi,2pi] Inc
                off = 0.0 if kind == "cos" else -math.pi / 2
                lo, hi = r[0] + off, r[1] + off
                kq = math.floor((lo + 1e-9) / math.pi)
                if hi <= (kq + 1) * math.pi + 1e-9:
                    d = D if kq % 2 == 0 else I
            if d is None:
                return self.non([a], "`%s` on an argument range %s that is not inside one monotone half-period (%s)" % (kind, _rs(r), reason), R(-1.0, 1.0))
            return AV([m if d == I else flip(m) for m in a.mono], R(-1.0, 1.0), None, a.why)
        if kind == "non":
            return self.non(avs, "`%s` is not monotone: %s" % (name, reason))
        return self.unknown(avs, "`%s` (table kind %s)" % (name, kind))

    def mul(self, a, b, rng):
        def per(ms, i):
            ma, mb = ms
            if ma == C and mb == C:
                return C
            if U in ms:
                return U
            if N in ms:
                return N
            for (m, o) in ((ma, b), (mb, a)):
                other_m = mb if o is b else ma
                if other_m == C:  # the other factor does not move with x_i
                    if m == S:
                        return S
                    if nonneg(o.rng):
                        return m
                    if nonpos(o.rng):
                        return flip(m)
                    return S
            # both factors move with x_i: |a||b| with both absolute values moving the same way
            sa = 1 if nonneg(a.rng) else -1 if nonpos(a.rng) else 0
            sb = 1 if nonneg(b.rng) else -1 if nonpos(b.rng) else 0
            if sa == 0 or sb == 0 or S in ms:
                return N
            xa = ma if sa > 0 else flip(ma)
            xb = mb if sb > 0 else flip(mb)
            if xa != xb:
                return N
            return xa if sa * sb > 0 else flip(xa)

        return self.lift([a, b], per, rng)

    def cast(self, a, ty):
        ty = ty.replace(" ", "")
        if a.const():
            return AV(a.mono, a.rng, None, a.why)
        if ty in WIDE_INT:
            return AV(a.mono, a.rng, None, a.why)
        if ty in NARROW and a.rng is not None and a.rng[0] >= NARROW[ty][0] and a.rng[1] <= NARROW[ty][1]:
            return AV(a.mono, a.rng, None, a.why)
        return self.non([a], "`as %s` of a value whose range %s may not fit: the cast wraps" % (ty, _rs(a.rng)))

    # -- expressions
    def eval(self, n, env):
        from .core import show

        k = n["k"]
        if k == "lit":
            if n["t"] in ("int", "float"):
                try:
                    return self.cst(pt(float(str(n["v"]).replace("_", ""))))
                except ValueError:
                    return self.cst(TOP)
            return self.cst(None)
        if k == "path":
            segs = n["segs"]
            if len(segs) == 1 and segs[0] in env.vars:
                return env.vars[segs[0]]
            if segs and segs[-1] in CONSTS and (len(segs) >= 2 or segs[0] in BARE_CONSTS):
                return self.cst(pt(CONSTS[segs[-1]]))
            return self.cst(None)  # a constant / captured value: does not move with the coordinates
        if k == "unary":
            a = self.eval(n["e"], env)
            if n["op"] == "-":
                return self.apply("neg", [a], show(n, 60))
            if n["op"] == "!":
                return self.apply("!", [a], show(n, 60))
            if n["op"] == "*":
                return a
            return self.unknown([a], "unary `%s`" % n["op"])
        if k == "ref":
            return self.eval(n["e"], env)
        if k == "binary":
            a, b = self.eval(n["lhs"], env), self.eval(n["rhs"], env)
            return self.apply(n["op"], [a, b], show(n, 60))
        if k == "cast":
            return self.cast(self.eval(n["e"], env), n["ty"])
        if k == "mcall":
            avs = [self.eval(n["recv"], env)] + [self.eval(x, env) for x in n["args"]]
            return self.apply(n["m"], avs, show(n, 60))
        if k == "call":
            avs = [self.eval(x, env) for x in n["args"]]
            f = n["f"]
            if f["k"] == "path":
                segs = f["segs"]
                if f.get("qself") and segs[-2:] in (["Bound", "min"], ["Bound", "max"]) and not avs:
                    return self.cst(pt(-INF if segs[-1] == "min" else INF))
                if all(a.const() for a in avs):
                    return self.cst(None)
                if segs[-1] == "from" and len(avs) == 1 and len(segs) >= 2 and segs[-2] in ("f64", "i64", "From"):
                    return self.apply("from", avs, show(n, 60))
                if len(segs) >= 2 and segs[-2] in ("f64", "i64", "cmp", "Ord") and segs[-1] in TABLE:
                    return self.apply(segs[-1], avs, show(n, 60))
            return self.unknown(avs, "call %s" % show(n, 60))
        if k == "block":
            e = Env(env.pnames, env.regions, dict(env.vars))
            last = None
            for i, s in enumerate(n["stmts"]):
                if s["k"] == "let":
                    if s["pat"]["k"] not in ("ident", "typed") or s.get("init") is None:
                        return self.unknown(list(env.vars.values()), "let pattern %s" % show(s, 60))
                    p = s["pat"] if s["pat"]["k"] == "ident" else s["pat"]["pat"]
                    v = self.eval(s["init"], e)
                    e.vars[p["name"]] = AV(v.mono, v.rng, v.coord, v.why)
                elif s["k"] == "expr" and i == len(n["stmts"]) - 1 and not s.get("semi"):
                    last = self.eval(s["e"], e)
                else:
                    return self.unknown(list(env.vars.values()), "statement %s" % show(s, 60))
            if last is None:
                return self.unknown(list(env.vars.values()), "block without a tail expression")
            return last
        if k == "if":
            return self.eval_if(n, env)
        if k == "tuple" and len(n["elems"]) == 1:
            return self.eval(n["elems"][0], env)
        # anything else: constant if it mentions no moving variable, else not in the table
        deps = self.deps(n, env)
        if not deps:
            return self.cst(None)
        return self.unknown(deps, "%s expression %s" % (k, show(n, 60)))

    def deps(self, n, env):
        from .core import walk

        out = []
        for x in walk(n):
            if x["k"] == "path" and len(x["segs"]) == 1 and x["segs"][0] in env.vars and not env.vars[x["segs"][0]].const():
                out.append(env.vars[x["segs"][0]])
        return out

    # -- threshold conditionals (step functions)
    def cond(self, c, env):
        """True / False / ('split', coord, threshold) / None (not a threshold test)."""
        if c["k"] == "unary" and c["op"] == "!":
            r = self.cond(c["e"], env)
            return (not r) if isinstance(r, bool) else r
        if c["k"] == "binary" and c["op"] in ("&&", "||"):
            a = self.cond(c["lhs"], env)
            if a is None or isinstance(a, tuple):
                return a
            if c["op"] == "&&" and a is False:
                return False
            if c["op"] == "||" and a is True:
                return True
            return self.cond(c["rhs"], env)
        if c["k"] == "binary" and c["op"] in ("==", "!=", "<", "<=", ">", ">="):
            a, b = self.eval(c["lhs"], env), self.eval(c["rhs"], env)
            op = c["op"]
            if b.coord is not None and a.point() is not None:
                a, b = b, a
                op = {"<": ">", "<=": ">=", ">": "<", ">=": "<=", "==": "==", "!=": "!="}[op]
            if a.coord is None or b.point() is None:
                if a.const() and b.const() and a.point() is not None and b.point() is not None:
                    x, y = a.point(), b.point()
                    return {"==": x == y, "!=": x != y, "<": x < y, "<=": x <= y, ">": x > y, ">=": x >= y}[op]
                return None
            t = b.point()
            if env.regions[a.coord] is None:
                return None
            lo, hi, lo_o, hi_o = env.regions[a.coord]
            if lo == hi == t:
                pos = 0
            elif hi < t or (hi == t and hi_o):
                pos = -1
            elif lo > t or (lo == t and lo_o):
                pos = 1
            else:
                return ("split", a.coord, t)
            return {"==": pos == 0, "!=": pos != 0, "<": pos < 0, "<=": pos <= 0, ">": pos > 0, ">=": pos >= 0}[op]
        return None

    def eval_if(self, n, env):
        from .core import show

        if n["cond"]["k"] == "letcond":
            return self.unknown(list(env.vars.values()), "`if let`")
        r = self.cond(n["cond"], env)
        if r is True:
            return self.eval(n["then"], env)
        if r is False:
            if n.get("else") is None:
                return self.unknown(list(env.vars.values()), "`if` without else")
            return self.eval(n["else"], env)
        if r is None:
            deps = self.deps(n, env) or list(env.vars.values())  # everything the conditional (test and branches) reads
            return self.unknown(deps, "`if` condition %s is not a threshold test of one coordinate against a constant" % show(n["cond"], 60))
        _, i, t = r
        lo, hi, lo_o, hi_o = env.regions[i]
        parts = []
        if lo < t:
            parts.append((lo, t, lo_o, True))
        parts.append((t, t, False, False))
        if hi > t:
            parts.append((t, hi, True, hi_o))
        res = [self.eval_if(n, env.narrowed(i, p)) for p in parts]
        return self.glue(i, res)

    def glue(self, i, res):
        why = tuple(w for r in res for w in r.why)
        mono = []
        for j in range(self.k):
            ms = [r.mono[j] for r in res]
            if U in ms:
                mono.append(U)
            elif N in ms:
                mono.append(N)
            elif j != i:
                s = set(ms) - {C}
                mono.append(C if not s else ms[0] if len(set(ms)) == 1 else (I if s == {I} else D if s == {D} else S))
            else:
                rs = [r.rng for r in res]
                if S in ms or any(r is None for r in rs):
                    mono.append(N)
                    why += ("branches of the step function cannot be ordered (no numeric range)",)
                    continue
                up = all(m in (C, I) for m in ms) and all(rs[q][1] <= rs[q + 1][0] for q in range(len(rs) - 1))
                dn = all(m in (C, D) for m in ms) and all(rs[q][0] >= rs[q + 1][1] for q in range(len(rs) - 1))
                if all(m == C for m in ms) and all(r[0] == r[1] == rs[0][0] for r in rs):
                    mono.append(C)
                elif up:
                    mono.append(I)
                elif dn:
                    mono.append(D)
                else:
                    mono.append(N)
                    why += ("the branches of the conditional on coordinate %d take values %s along the coordinate: not monotone" % (i, [_rs(r) for r in rs]),)
        return AV(mono, r_hull([r.rng for r in res]), None, why)


def _rs(r):
    if r is None:
        return "(unknown)"
    f = lambda v: "-inf" if v == -INF else "+inf" if v == INF else ("%g" % v)
    return "%s%s, %s%s" % ("(" if r[2] else "[", f(r[0]), f(r[1]), ")" if r[3] else "]")


def periodic(n, pname):
    """Fundamental period of the expression as a function of the parameter (None if not recognised, 0 = constant)."""
    from .core import walk

    if not any(x["k"] == "path" and x["segs"] == [pname] for x in walk(n)):
        return 0.0
    if n["k"] == "mcall" and n["m"] in ("sin", "cos") and n["recv"]["k"] == "path" and n["recv"]["segs"] == [pname] and not n["args"]:
        return 2 * math.pi
    kids = []
    if n["k"] == "mcall":
        kids = [n["recv"]] + n["args"]
    elif n["k"] == "binary":
        kids = [n["lhs"], n["rhs"]]
    elif n["k"] in ("unary", "cast", "ref"):
        kids = [n["e"]]
    elif n["k"] == "block" and len(n["stmts"]) == 1 and n["stmts"][0]["k"] == "expr":
        kids = [n["stmts"][0]["e"]]
    else:
        return None
    ps = [periodic(c, pname) for c in kids]
    if any(p is None for p in ps):
        return None
    ps = [p for p in ps if p]
    if not ps:
        return 0.0
    return ps[0] if all(abs(p - ps[0]) < 1e-12 for p in ps) else None
